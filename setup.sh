#!/bin/sh
# Builds the framework from files on disk only (offline) and warms the Go build cache.
set -e
cd "$(dirname "$0")"
export GOFLAGS=-mod=mod GOPROXY=off GOSUMDB=off GOTOOLCHAIN=local
mkdir -p bin evidence replays
(cd engine/vgen && go build -o ../../bin/vgen .)
if [ -z "$VERIF_NO_WARM" ]; then
  ./vcheck --warm || true
fi
