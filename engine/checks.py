"""Registry of checks: which harness test binaries decide which property."""

# repository packages whose sources are rewritten onto the scheduler-aware shims
INSTRUMENT = ["internal/loadbalancer", "internal/circuitbreaker", "internal/ratelimiter", "internal/metrics"]

CB = "internal/circuitbreaker"
LB = "internal/loadbalancer"
RL = "internal/ratelimiter"
MAIN = "cmd/helios"

ENGINES = [
    dict(name="S", path="engine/shim/vrt", serves_properties=["C02", "C03", "C04", "C05", "C06", "C07", "C08", "C09", "C11", "C12", "C13", "C19", "C20"],
         kind_free_text="controlled cooperative scheduler + stateless replay DFS with preemption bounding over the real Helios code (sync/atomic/time/go/select rewritten onto shims by vgen)"),
    dict(name="W", path="engine/shim/wire", serves_properties=["C01", "C03", "C10", "C14", "C15", "C16", "C17", "C18", "C20"],
         kind_free_text="exhaustive enumeration of finite input / configuration / fault-sequence products over real connections: raw-socket HTTP/1.1 client, scripted backends on loopback listeners, the real handler chain behind the real http.Server; differential and reference oracles on the exchanged bytes"),
    dict(name="H", path="engine/shim/vh/hrun.go", serves_properties=["C02", "C04", "C05", "C06", "C07", "C08", "C09", "C11", "C12", "C13", "C19", "C20"],
         kind_free_text="explicit-state breadth-first search over event histories of the real objects under a virtual clock, reflective state fingerprint for deduplication, reference-model / monitor oracle on every transition"),
]

NOT_APPLICABLE = {}

CHECKS = {
    "C07": dict(
        level="model_checking",
        engine="S+H",
        technique="explicit-state BFS over event histories of the real breaker vs. a reference automaton + exhaustive preemption-bounded schedule exploration of concurrent Execute calls",
        text="Every history of {success, failure, panic, three clock steps} up to the stated depth is replayed on the real CircuitBreaker (library level, 27 configurations) and through the real LoadBalancer.ServeHTTP with scripted backends (system level, all five strategies), and each step's admission, rejection status, backend contact and state is compared with a reference automaton of the property; all interleavings of 2-3 concurrent Execute calls at the open->half-open boundary are enumerated up to the preemption bound and the number of concurrently admitted trials is checked against max_requests. Linearizability part: every control state the sequential search reaches within the stated depth (one shortest history per distinct fingerprint) is the start of 2-3 overlapping Execute calls with fixed outcomes (success, failure, panic), explored under every schedule up to the preemption bound; the answers each call got, the state afterwards and the answers to a fixed follow-up script must all be explained by one interleaving of the calls' admission and completion steps on the reference automaton. The concurrent scenarios are explored a second time in a -race build, where the happens-before detector judges every explored schedule (scheduler hand-offs hidden from it).",
        note="Virtual clock moves in steps that never land exactly on a deadline; instants older than the largest configured duration are merged in the state fingerprint (argument in the harness); backends are RoundTripper stubs under the real httputil.ReverseProxy; interleavings are explored at synchronisation operations only (sound if the code between them is race-free, which C12 checks).",
        jobs=[
            dict(name="c07s", part="S", pkg=CB, run="TestVerifC07S", mode="instr", shards=dict(quick=4, thorough=16)),
            dict(name="c07race", part="S-Race", pkg=CB, run="TestVerifC07S", mode="instr", race=True, shards=dict(quick=8, thorough=16)),
            dict(name="c07lin", part="Lin", pkg=CB, run="TestVerifC07Lin", mode="instr", shards=dict(quick=16, thorough=16), timeout=dict(quick=600, thorough=3000)),
            dict(name="c07linrace", part="Lin-Race", pkg=CB, run="TestVerifC07Lin", mode="instr", race=True, shards=dict(quick=16, thorough=16), timeout=dict(quick=600, thorough=3000)),
            dict(name="c07sys", part="Sys", pkg=LB, run="TestVerifC07Sys", mode="instr", shards=dict(quick=13, thorough=16)),
            dict(name="c07h", part="H", pkg=CB, run="TestVerifC07H", mode="instr", shards=dict(quick=9, thorough=14)),
        ],
        assumptions=[],
    ),
    "C08": dict(
        level="model_checking",
        engine="S+H",
        technique="explicit-state BFS over breaker histories through the real config->Validate->NewLoadBalancer->ServeHTTP pipeline with a recovery probe from every reachable state + exhaustive preemption-bounded schedule exploration of concurrent state changes (deadlock verdict)",
        text="For every breaker configuration of the menu that Validate accepts, every state reachable within the depth by {ok, 500, refused, aborted, clock steps} is a start state of a bounded recovery script (wait out the timeout, then only successful requests) that must end closed and admitting; all interleavings up to the preemption bound of 2-3 concurrent requests that trigger state changes (including panicking ones), with the balancer's real OnStateChange callback, must terminate (no enabled thread while one is blocked = deadlock). The concurrent scenarios are explored a second time in a -race build, where the happens-before detector judges every explored schedule (scheduler hand-offs hidden from it).",
        note="Same trusted base as C07; the recovery bound is success_threshold + max_requests + 2 requests after the timeout.",
        jobs=[
            dict(name="c08s", part="S", pkg=LB, run="TestVerifC08S", mode="instr", shards=dict(quick=15, thorough=16)),
            dict(name="c08race", part="S-Race", pkg=LB, run="TestVerifC08S", mode="instr", race=True, shards=dict(quick=15, thorough=16)),
            dict(name="c08h", part="H", pkg=LB, run="TestVerifC08H", mode="instr", shards=dict(quick=16, thorough=16)),
        ],
        assumptions=[],
    ),
    "C09": dict(
        level="model_checking",
        engine="S+H",
        technique="exhaustive enumeration of all arrival histories (virtual time) of the real token-bucket limiter checked against the stated bounds + exhaustive preemption-bounded schedule exploration of concurrent arrivals and cleanup",
        text="All arrival histories (1-4 clients, three clock steps, max_tokens 1..5) up to the stated length are run on the real Allow under a virtual clock and judged by the statement's own bounds (every sliding window, new-client burst, idle refill, isolation as a differential between a history and its per-client projection); the same through ServeHTTP over seven spellings of the client address (429 <=> not forwarded); all interleavings up to the preemption bound of 2-3 goroutines hitting one bucket, bucket creation races and the hourly cleanup must admit exactly what a sequential order admits. The concurrent scenarios are explored a second time in a -race build, where the happens-before detector judges every explored schedule (scheduler hand-offs hidden from it).",
        note="Oracles are the bounds of the statement, not the implementation's algorithm; clock steps are 0.4/1/3.1 refill periods; sync.Map is modelled as an insertion-ordered map with a scheduling point per operation.",
        jobs=[
            dict(name="c09s", part="S", pkg=RL, run="TestVerifC09S", mode="instr", shards=dict(quick=6, thorough=16)),
            dict(name="c09race", part="S-Race", pkg=RL, run="TestVerifC09S", mode="instr", race=True, shards=dict(quick=6, thorough=16)),
            dict(name="c09lin", part="Lin", pkg=RL, run="TestVerifC09Lin", mode="instr", shards=dict(quick=16, thorough=16), timeout=dict(quick=600, thorough=3000)),
            dict(name="c09linrace", part="Lin-Race", pkg=RL, run="TestVerifC09Lin", mode="instr", race=True, shards=dict(quick=16, thorough=16), timeout=dict(quick=600, thorough=3000)),
            dict(name="c09sys", part="Sys", pkg=LB, run="TestVerifC09Sys", mode="instr", shards=dict(quick=8, thorough=8)),
            dict(name="c09h", part="H", pkg=RL, run="TestVerifC09H", mode="instr", shards=dict(quick=9, thorough=14)),
        ],
        assumptions=[],
    ),
    "C02": dict(
        level="model_checking",
        engine="H",
        technique="explicit-state BFS over histories of {request, held request, release, ejection, clock steps, add, remove} on the real LoadBalancer with a window monitor as oracle",
        text="For every strategy and pool size 1..4 (thorough 1..5) every history up to the depth over {request from four client addresses, request held in flight, release, ejection of each backend through the real MarkBackendUnhealthy, clock +4s/+11s against a 10s window, add, remove} is replayed on the real LoadBalancer.ServeHTTP with scripted backends; a monitor that knows every injected window judges each request: served only by a listed backend outside its window, 503 only if every listed backend is inside its window and nothing was contacted.",
        note="Ejections are injected through the exported method that passive checks and failed probes call; clock steps never land on a window boundary; rotation cursors are compared modulo the pool size in the state fingerprint (same futures); requests are sequential except those held at the transport gate.",
        jobs=[
            dict(name="c02h", part="H", pkg=LB, run="TestVerifC02", mode="instr", shards=dict(quick=16, thorough=16), timeout=dict(quick=600, thorough=3000)),
        ],
        assumptions=[],
    ),
    "C04": dict(
        level="model_checking",
        engine="S+H",
        technique="explicit-state BFS over health histories (responses, probe ticks, clock steps) of the real LoadBalancer with a may/must monitor and a recovery sweep from every reachable state + exhaustive preemption-bounded schedule exploration of expiry/ejection/probe races",
        text="For every strategy x passive threshold 0..3 x active on/off (2 backends; thorough also 3) every history up to the depth over {request from two clients, flip a backend between ok and 500/refusing, probe tick through the real ticker loop and checkBackendsHealth, clock +4s/+11s} is replayed; a may/must monitor fed only by what the scripted backends answered checks ejection-permitted, ejection-required, no traffic inside a window and that ListBackends and the metrics mirror never say healthy inside a window; from every reachable state a recovery sweep (windows elapsed, optional tick, 48 client addresses or overlapping requests for least_connections) must reach every backend. Three two-thread races (lazy expiry vs fresh ejection, in-flight probe vs ejection, two expiries) are explored under all interleavings up to the preemption bound with a final-state oracle. The concurrent scenarios are explored a second time in a -race build, where the happens-before detector judges every explored schedule (scheduler hand-offs hidden from it).",
        note="The monitor counts failed responses cumulatively since the last passive ejection (weakest reading of the statement); active probes go through http.Client on a stubbed http.DefaultTransport; the health-check goroutine, its ticker and select run under the controlled scheduler via the rewritten go/select statements.",
        jobs=[
            dict(name="c04s", part="S", pkg=LB, run="TestVerifC04S", mode="instr", shards=dict(quick=6, thorough=15)),
            dict(name="c04race", part="S-Race", pkg=LB, run="TestVerifC04S", mode="instr", race=True, shards=dict(quick=6, thorough=15)),
            dict(name="c04h", part="H", pkg=LB, run="TestVerifC04H", mode="instr", shards=dict(quick=16, thorough=16), timeout=dict(quick=600, thorough=3000)),
        ],
        assumptions=[],
    ),
    "C05": dict(
        level="model_checking",
        engine="S+H",
        technique="exhaustive enumeration of pools, weight vectors, ejected subsets, offsets and in-flight vectors through the real ServeHTTP + explicit-state BFS over membership/health histories with a deviation probe + exhaustive preemption-bounded schedule exploration of concurrent pickers",
        text="round_robin: pools of 1..6 (thorough 1..8), every ejected subset and every warm-up offset: every window of |eligible| consecutive requests is a permutation of the eligible backends; 2-4 concurrent pickers through findHealthyBackend under all interleavings up to the preemption bound give exactly k per backend. weighted_round_robin: every weight vector in {0..6}^n (n<=3, thorough n<=4) from a fresh pool gives exactly w_i in every window of sum(w) within three cycles (weights below 1 as 1); BFS over {pick, eject, recover, remove, add} histories with a probe of 3*W_eligible requests checks the stated deviation bound at every prefix. least_connections: every in-flight vector in {0,1,2}^n built from really overlapping (held) requests x every ejected subset: the next request goes to a minimal eligible gauge and gauges equal in-flight counts. The concurrent scenarios are explored a second time in a -race build, where the happens-before detector judges every explored schedule (scheduler hand-offs hidden from it).",
        note="All picks go through ServeHTTP (or findHealthyBackend for the concurrent counting claim) with stub transports; 'recover' is modelled by an ejection whose window is already over; larger weight vectors than the enumerated ones are not covered.",
        jobs=[
            dict(name="c05h", part="H", pkg=LB, run="TestVerifC05", mode="instr", shards=dict(quick=16, thorough=16), timeout=dict(quick=600, thorough=3000)),
            dict(name="c05s", part="S", pkg=LB, run="TestVerifC05S", mode="instr", shards=dict(quick=3, thorough=7), timeout=dict(quick=600, thorough=3000)),
            dict(name="c05race", part="S-Race", pkg=LB, run="TestVerifC05S", mode="instr", race=True, shards=dict(quick=3, thorough=7), timeout=dict(quick=600, thorough=3000)),
        ],
        assumptions=[],
    ),
    "C06": dict(
        level="model_checking",
        engine="H",
        technique="exhaustive enumeration of the jump-hash key space (all 2^32 keys x pool sizes in the thorough tier) on the real function + exhaustive enumeration of pools, eligible subsets, address spellings and perturbations through the real ServeHTTP + append histories",
        text="The real jumpHash is called for every key of the enumerated space (quick: one seed-selected 2^26 block x n<=8; thorough: all 2^32 keys x n<=16, which is the whole input space since the strategy feeds it 32-bit FNV values) and checked for range and for moving only to the new bucket when the pool grows. Through ServeHTTP: pools 1..6 (8) x every ejected subset (n<=5) x 11 client addresses x 7 identity-preserving spellings (RemoteAddr ports, X-Forwarded-For single/list/optional whitespace, X-Real-IP) x path/method/header perturbations with other clients interleaved: same backend, always listed and eligible; 9 junk strings in all three places: a valid eligible backend; append history 1->8 re-asking 1024 (4096) enumerated clients after each append: keep or move to the appended backend; two concurrent clients under all interleavings up to the preemption bound, in a normal and in a -race build (shared scratch state between concurrent picks shows up as a data race on an explored schedule).",
        note="Which spellings denote the same client address follows utils.GetClientIP's documented attribution (first X-Forwarded-For element trimmed, then X-Real-IP, then the peer host).",
        jobs=[
            dict(name="c06jump", part="Jump", pkg=LB, run="TestVerifC06Jump", mode="instr", shards=dict(quick=16, thorough=16), timeout=dict(quick=600, thorough=3000)),
            dict(name="c06h", part="H", pkg=LB, run="TestVerifC06", mode="instr", shards=dict(quick=3, thorough=3), timeout=dict(quick=600, thorough=3000)),
            dict(name="c06s", part="S", pkg=LB, run="TestVerifC06S", mode="instr", shards=2, timeout=dict(quick=600, thorough=3000)),
            dict(name="c06race", part="Race", pkg=LB, run="TestVerifC06S", mode="instr", race=True, shards=2, timeout=dict(quick=600, thorough=3000)),
        ],
        assumptions=[],
    ),
    "C11": dict(
        level="model_checking",
        engine="S+H",
        technique="explicit-state BFS over admin-operation histories through the real admin handlers against a reference model + exhaustive preemption-bounded schedule exploration of concurrent admin actors and traffic with brute-force linearizability checking",
        text="Every history up to the depth over 14 admin operations and traffic events (add with repeated names / weight 0 / unparsable address, remove incl. absent names, set_strategy incl. unknown, list, request, eject) is sent through the real adminapi handlers and the real ServeHTTP for five starting strategies and compared step by step with a reference model (status class, listing equals the model after every operation, failed operations change nothing, a switch preserves names/weights/health, requests are served by a listed eligible backend whenever one exists). 2-4 concurrent admin actors plus a traffic actor are explored under all interleavings up to the preemption bound; each complete call/return history must be linearizable with respect to the model (brute force over the <=8 calls) and every request must be served. The concurrent scenarios are explored a second time in a -race build, where the happens-before detector judges every explored schedule (scheduler hand-offs hidden from it).",
        note="The listing endpoint does not expose the strategy, so in concurrent histories only the entries are one atomic observation and the strategy is compared at quiescence; new backends get their scripted transport atomically with the add (scheduler hook).",
        jobs=[
            dict(name="c11h", part="H", pkg=LB, run="TestVerifC11H", mode="instr", shards=dict(quick=5, thorough=5), timeout=dict(quick=600, thorough=3000)),
            dict(name="c11s", part="S", pkg=LB, run="TestVerifC11S", mode="instr", shards=dict(quick=6, thorough=9), timeout=dict(quick=600, thorough=3000)),
            dict(name="c11race", part="S-Race", pkg=LB, run="TestVerifC11S", mode="instr", race=True, shards=dict(quick=6, thorough=9), timeout=dict(quick=600, thorough=3000)),
        ],
        assumptions=[],
    ),
    "C13": dict(
        level="model_checking",
        engine="S+H+W",
        technique="explicit-state BFS over request-outcome histories with the published counters audited after every step + exhaustive preemption-bounded schedule exploration of overlapping requests audited at quiescence",
        text="Every history up to the depth over {ok, 404, 500, refused, aborted-mid-body requests, eject-all, clock steps} with breaker and limiter on/off under the five strategies is replayed and after every step the numbers published by the real /v1/metrics and /v1/backends handlers are audited against the harness' tallies (requests issued, exactly one outcome per request, per-backend totals equal requests actually sent by the stubs, both gauges equal in-flight = 0). 2-3 overlapping requests (one aborting, one failing) on a shared backend are explored under all interleavings up to the preemption bound and audited at quiescence. The concurrent scenarios are explored a second time in a -race build, where the happens-before detector judges every explored schedule (scheduler hand-offs hidden from it).",
        note="Rate-limited, breaker-rejected and no-healthy-backend outcomes arise from the history (bucket of 3, failure_threshold 3, eject-all) rather than being injected; an abort is the real ErrAbortHandler path of httputil.ReverseProxy (ServerContextKey present). Wire part: sequences of real outcomes (ok, 500, refused, reset mid-body = real ErrAbortHandler behind net/http, real client disconnect, rate-limited, breaker-rejected, no-healthy-backend) with 1-8 concurrent clients against fresh instances over real connections, audited through the real admin endpoints at quiescence (at wire level a refused connection cannot be counted by the backend, so per-backend totals are bounded from both sides instead of compared for equality).",
        jobs=[
            dict(name="c13w", part="W", pkg=MAIN, run="TestVerifC13W", mode="plain", gomaxprocs=4, shards=dict(quick=14, thorough=16), timeout=dict(quick=600, thorough=3000)),
            dict(name="c13h", part="H", pkg=LB, run="TestVerifC13H", mode="instr", shards=dict(quick=8, thorough=16), timeout=dict(quick=600, thorough=3000)),
            dict(name="c13s", part="S", pkg=LB, run="TestVerifC13S", mode="instr", shards=dict(quick=4, thorough=8), timeout=dict(quick=600, thorough=3000)),
            dict(name="c13race", part="S-Race", pkg=LB, run="TestVerifC13S", mode="instr", race=True, shards=dict(quick=4, thorough=8), timeout=dict(quick=600, thorough=3000)),
        ],
        assumptions=[],
    ),
    "C19": dict(
        level="model_checking",
        engine="S+P",
        technique="exhaustive preemption-bounded schedule exploration of Stop against the real health-check loop, ticker firings, probe goroutines and a client request (deadlock / panic / late-probe verdicts)",
        text="The real NewLoadBalancer with active checks on runs its health-check goroutine, ticker, select and probe goroutines under the controlled scheduler; ticker firings (0-2), one or two Stop callers and a client request are explored under all interleavings up to the preemption bound. Verdicts: deadlock (Stop never returns), any panic (both WaitGroup misuse panics are modelled), a probe sent after the last Stop returned, pooled connections left open, a further Stop or a late tick having any effect.",
        note="A probe counts as sent when the scripted transport is entered with a live context (it re-checks the context after its in-flight scheduling point). Process part (engine P): the real binary with shutdown timeout 2 s receives SIGTERM or SIGINT at each of {idle, request waiting for backend headers, response mid-body, probe in flight}: exit status 0 within the timeout (6 s margin), the in-flight request (0.7 s of work left) is completed, no probe reaches the backend after exit.",
        jobs=[
            dict(name="c19p", part="P", pkg=MAIN, run="TestVerifC19P", mode="plain", gomaxprocs=4, needs_binary=True, shards=dict(quick=8, thorough=8), timeout=dict(quick=600, thorough=900)),
            dict(name="c19s", part="S", pkg=LB, run="TestVerifC19", mode="instr", shards=dict(quick=16, thorough=16), timeout=dict(quick=900, thorough=3400)),
        ],
        assumptions=[],
    ),
    "C12": dict(
        level="model_checking",
        engine="S",
        technique="exhaustive preemption-bounded schedule exploration of all actor pairs (and triples) over every subsystem, each explored schedule judged by Go's happens-before race detector (scheduler hand-offs hidden from it) plus deadlock/panic verdicts",
        text="A menu of 14 actors (ok / ejecting / aborting request, ejection, request expiring a stale window, probe tick through the real health-check loop, admin add / remove / strategy switch / list, metrics + health handlers, Stop, limiter arrival + cleanup, WebSocket-pool operations) is instantiated on a balancer with breaker, limiter, passive and active checks and the pool all enabled; all unordered pairs incl. self-pairs (thorough: all five strategies at 2 preemptions plus triples containing a request) are explored under every interleaving up to the preemption bound twice: in a normal build for deadlock / panic / unfinished-actor verdicts and in a -race build where Go's happens-before detector judges each explored schedule (the scheduler's hand-offs are hidden from it with runtime.RaceDisable, every shim primitive operates its real counterpart so Helios' own synchronisation is what orders accesses).",
        note="The quantifier's 8-64 goroutines are replaced by 2-3 threads with exhaustive interleavings; race reports are attributed to the innermost non-library frame and dropped when that frame is harness or shim code; reports raised during teardown of an execution are discarded; the two-tick self pair is left to C19. A free-running workload of 32 goroutines over the real listener with unmodified sources (normal and -race build) is run as a complement and reported with exhaustive=false; it is sampling and never the deciding step.",
        jobs=[
            dict(name="c12free", part="Free", pkg=MAIN, run="TestVerifC12Free", mode="plain", gomaxprocs=8, shards=5, timeout=dict(quick=600, thorough=900)),
            dict(name="c12freerace", part="Free-Race", pkg=MAIN, run="TestVerifC12Free", mode="plain", race=True, gomaxprocs=8, shards=5, timeout=dict(quick=600, thorough=900)),
            dict(name="c12s", part="S", pkg=LB, run="TestVerifC12", mode="instr", shards=dict(quick=16, thorough=16), timeout=dict(quick=900, thorough=3400)),
            dict(name="c12race", part="Race", pkg=LB, run="TestVerifC12", mode="instr", race=True, shards=dict(quick=16, thorough=16), timeout=dict(quick=900, thorough=3400)),
        ],
        assumptions=[],
    ),
    "C20": dict(
        level="model_checking",
        engine="S+H+W",
        technique="explicit-state BFS over pool-operation histories with tracked connections and invariants on every state + exhaustive preemption-bounded schedule exploration of concurrent pool actors + exhaustive enumeration of message scripts through upgrade tunnels over real connections",
        text="Tunnel: an Upgrade session is opened through the real handler chain and reverse proxy for every plugin chain of length <= 2 (thorough <= 3) over the six built-ins; after the 101 both ends follow every lock-step byte script of length <= 1-2 (thorough <= 3) over {client sends k, server sends k : k in 0, 1, 125, 126, 65536, 100000} ended by either side: each end must receive exactly the other's bytes in order and see EOF after the peer closed. Pool: for 1-2 backends and max_idle 0..3 every history up to the depth over {put a new connection, get, put back, close, clock +4s/+11s against a 10s idle timeout, cleanup, shutdown} on tracked fake connections is replayed on the real WebSocketPool with invariants on every state (a connection has at most one holder, Get returns nothing the pool closed or idle beyond the timeout, idle <= max_idle and equals the open connections owned, refused Put and Shutdown close); 2-3 concurrent pool actors are explored under all interleavings up to the preemption bound incl. 'accepted connections are closed or retrievable after the final Shutdown'. The concurrent scenarios are explored a second time in a -race build, where the happens-before detector judges every explored schedule (scheduler hand-offs hidden from it).",
        note="After the 101 the tunnel is checked on raw bytes, which is stronger than WebSocket frames; the pool is exercised through its own API (nothing in Helios calls Get/Put on the proxy path).",
        jobs=[
            dict(name="c20tunnel", part="Tunnel", pkg=MAIN, run="TestVerifC20Tunnel", mode="plain", gomaxprocs=4, shards=dict(quick=14, thorough=16), timeout=dict(quick=600, thorough=3000)),
            dict(name="c20poolh", part="PoolH", pkg=LB, run="TestVerifC20PoolH", mode="instr", shards=dict(quick=8, thorough=8), timeout=dict(quick=600, thorough=3000)),
            dict(name="c20pools", part="PoolS", pkg=LB, run="TestVerifC20PoolS", mode="instr", shards=dict(quick=12, thorough=16), timeout=dict(quick=600, thorough=3000)),
            dict(name="c20poolrace", part="PoolS-Race", pkg=LB, run="TestVerifC20PoolS", mode="instr", race=True, shards=dict(quick=12, thorough=16), timeout=dict(quick=600, thorough=3000)),
        ],
        assumptions=[],
    ),
    "C01": dict(
        level="exploration",
        engine="W",
        technique="exhaustive enumeration of a finite product of exchange shapes over real connections with a differential oracle (direct vs through Helios) and a lock-step streaming script",
        text="A finite product of exchange shapes (methods x request body sizes around the 32 KiB copy buffer x request framing x statuses incl. 103+200 / 204 / 304 / 3xx / 4xx / 5xx x response sizes x response framing {declared length, chunked, chunked with flushes}; a 12-shape core crossed with 6 paths x 4 queries, 11 request-header sets, 6 response-header sets, 3 backend base paths, all five strategies and the request-ID / trace middleware on/off with and without client-supplied IDs) is enumerated; each shape is exchanged twice with the same raw-socket client, directly with the scripted backend and through the real handler chain (buildHandler) behind the real server (createHTTPServer), and what the backend received (method, request-target bytes, end-to-end header multiset, X-Forwarded-For append, framing, body) and what the client received (interim responses, status, header multiset, framing class and Content-Length, body) must agree. 36 lock-step streaming scripts (backend blocks after each flush until the client has read that part through Helios) decide the flushing clause; raw backend answers that break off detectably (missing final chunk, short chunk, fewer bytes than Content-Length) must stay detectably incomplete for the client; response trailers must arrive. Eight concurrent clients on fresh connections, each with its own marked upload, status and body, must each get their own response (normal and -race build).",
        note="Sources are unmodified in this engine; time is real but only as a 10-20 s failure detector; a difference counts only if it reproduces five times; Date, hop-by-hop headers and the documented additions are normalised; inputs net/http itself re-spells (';' in queries, raw non-ASCII paths) are outside the alphabet.",
        jobs=[
            dict(name="c01conc", part="Conc", pkg=MAIN, run="TestVerifC01Conc", mode="plain", gomaxprocs=8, shards=5, timeout=dict(quick=600, thorough=3000)),
            dict(name="c01race", part="Conc-Race", pkg=MAIN, run="TestVerifC01Conc", mode="plain", race=True, gomaxprocs=8, shards=5, timeout=dict(quick=600, thorough=3000)),
            dict(name="c01trunc", part="Truncated", pkg=MAIN, run="TestVerifC01Truncated", mode="plain", gomaxprocs=4, shards=1, timeout=dict(quick=600, thorough=3000)),
            dict(name="c01stream", part="Stream", pkg=MAIN, run="TestVerifC01Stream", mode="plain", gomaxprocs=4, shards=dict(quick=4, thorough=4), timeout=dict(quick=600, thorough=3000)),
            dict(name="c01w", part="W", pkg=MAIN, run="TestVerifC01", mode="plain", gomaxprocs=4, shards=dict(quick=8, thorough=12), timeout=dict(quick=600, thorough=3000)),
        ],
        assumptions=[],
    ),
    "C14": dict(
        level="exploration",
        engine="W",
        technique="exhaustive enumeration of handler programs (every write partition x status x flush policy x framing) and uploads around the limit, exchanged over real connections with and without the plugin (differential oracle)",
        text="For limits 1..3 (thorough 1..5) in both directions and three chain positions (alone, outermost and innermost of logging,size_limit,headers) every handler program of the product {GET, HEAD} x {implicit, 200, 201, 204, 301, 304, 404, 500} x every ordered partition into writes of bodies of L-1, L, L+1, L+3 bytes x {no flush, flush before the first write, flush after each write} x declared length is served directly under the chain built by the public BuildChain behind a real http.Server, once with and once without size_limit, and read by the raw client; within the limit the two responses must be identical (status, header multiset, body), over the limit the client gets at most L body bytes, a well-formed 413 when the first write already exceeds the limit before anything was sent. The same programs as a backend behind the real balancer and reverse proxy, and uploads of L-1, L, L+1, 4L bytes in both framings (backend reads <= L, declared oversize => 413 without contacting the backend, exactly L passes). Eight concurrent clients on fresh connections, each with its own marked upload, status and body, must each get their own response (normal and -race build).",
        note="Behind the reverse proxy a response of undeclared length has its header flushed by the proxy before the first body byte, so the must-be-413 clause is applied to declared-length responses there; backend accounting is attributed to exchanges by a sequence header.",
        jobs=[
            dict(name="c14conc", part="Conc", pkg=MAIN, run="TestVerifC14Conc", mode="plain", gomaxprocs=8, shards=1, timeout=dict(quick=600, thorough=3000)),
            dict(name="c14race", part="Conc-Race", pkg=MAIN, run="TestVerifC14Conc", mode="plain", race=True, gomaxprocs=8, shards=1, timeout=dict(quick=600, thorough=3000)),
            dict(name="c14hist", part="Hist", pkg=MAIN, run="TestVerifC14Hist", mode="plain", gomaxprocs=1, shards=dict(quick=15, thorough=15), timeout=dict(quick=600, thorough=3000)),
            dict(name="c14w", part="W", pkg=MAIN, run="TestVerifC14", mode="plain", gomaxprocs=4, shards=dict(quick=12, thorough=16), timeout=dict(quick=600, thorough=3000)),
        ],
        assumptions=[],
    ),
    "C15": dict(
        level="exploration",
        engine="W",
        technique="exhaustive enumeration of a finite product of Accept-Encoding spellings, content types, sizes around min_size and the buffer cap, payload kinds, handler programs, levels and chain positions over real connections, decoded strictly as labelled, with a differential oracle against the same exchange without the plugin",
        text="The product of 11 Accept-Encoding spellings x 4 content types x body sizes {0, min-1, min, min+1, 4*min, 100 KiB} x payload kinds {zeros, text, incompressible, already gzip-encoded by the origin} x implicit/explicit status {200, 201, 404, 204, 304} x declared length x GET/HEAD, then levels -1..9 x four chain positions x min_size {1, 64, 1024}, multi-write and flushing handler programs and the cases cap-1, cap, cap+1 around the 10 MiB buffer is exchanged over real connections with and without the plugin; the raw client decodes strictly by the Content-Encoding and framing it received: the result must be the origin's entity with the origin's status; a re-coded response is permitted only if gzip was offered (q=0 counts as refused), the type matches, min_size <= size <= cap and the origin had not encoded; otherwise headers, framing and bytes must equal the exchange without the plugin. A sub-product runs with the origin as a backend behind the real balancer and reverse proxy. Eight concurrent clients fetching differently marked bodies on fresh connections must each decode their own body, in a normal and in a -race build (state shared between concurrent responses).",
        note="Compression is never required by the oracle (the statement says 'only if'); levels and positions are crossed with a reduced core, not with the full product.",
        jobs=[
            dict(name="c15conc", part="Conc", pkg=MAIN, run="TestVerifC15Conc", mode="plain", gomaxprocs=8, shards=1, timeout=dict(quick=600, thorough=3000)),
            dict(name="c15race", part="Conc-Race", pkg=MAIN, run="TestVerifC15Conc", mode="plain", race=True, gomaxprocs=8, shards=1, timeout=dict(quick=600, thorough=3000)),
            dict(name="c15w", part="W", pkg=MAIN, run="TestVerifC15", mode="plain", gomaxprocs=4, shards=dict(quick=14, thorough=16), timeout=dict(quick=600, thorough=3000)),
        ],
        assumptions=[],
    ),
    "C16": dict(
        level="exploration",
        engine="W+S",
        technique="exhaustive enumeration of the product of ID toggles, header names, client value shapes, response paths and backend echo over real connections + enumerated entropy blocks through the real generator",
        text="Full product over real connections: request_id on/off x trace on/off x header names {default, custom, custom spelled in lower case by the client} x eight response paths, each on its own Helios instance brought into the state that produces it (proxied 200 and 500, refused 502, rate-limited 429, no-healthy-backend 503, breaker-open 503, size_limit 413, custom-auth 401) x seven client value shapes (absent, simple, 200 characters, inner space, non-ASCII, empty, two header lines) x backend silent or echoing. Enabled: the header is on every response, equals the first client-supplied value when there is one, and equals what the backend received; disabled: neither generated nor altered in either direction. Uniqueness is decided relative to the entropy source: crypto/rand.Reader is replaced by enumerating sources (every single-byte variation of a 12-byte block; 40 000 consecutive counter blocks) and every generated ID must be distinct; 2-3 clients generating IDs concurrently through the middleware in front of the real balancer are explored under all interleavings up to the preemption bound in a normal and in a -race build (shared scratch state in the generator is a data race on an explored schedule).",
        note="The statistical claim that 10^5 generations never collide is a property of crypto/rand, not of Helios, and is not claimed; the tutorial 'request-id' plugin, which by its documentation assigns its own ID to every request, is a transforming plugin and outside this property.",
        jobs=[
            dict(name="c16w", part="W", pkg=MAIN, run="TestVerifC16", mode="plain", gomaxprocs=4, shards=dict(quick=12, thorough=16), timeout=dict(quick=600, thorough=3000)),
            dict(name="c16s", part="S", pkg=LB, run="TestVerifC16S", mode="instr", shards=dict(quick=2, thorough=3), timeout=dict(quick=600, thorough=3000)),
            dict(name="c16race", part="Race", pkg=LB, run="TestVerifC16S", mode="instr", race=True, shards=dict(quick=2, thorough=3), timeout=dict(quick=600, thorough=3000)),
            dict(name="c16u", part="Unique", pkg=MAIN, run="TestVerifC16Unique", mode="plain", gomaxprocs=2, shards=1, timeout=dict(quick=600, thorough=3000)),
        ],
        assumptions=[],
    ),
    "C17": dict(
        level="exploration",
        engine="W+P",
        technique="exhaustive enumeration of all plugin sequences up to a length with tracing probes at every position, of every invalid plugin entry at every position of every short chain, and start-up of the real binary on invalid chains",
        text="Every sequence of the six built-in plugins of length <= 4 (thorough <= 5) is built with the public BuildChain with a tracing probe plugin (registered through the public RegisterBuiltin) before, between and after the plugins; three requests per chain (accepted by all, rejected by custom-auth, rejected by size_limit): probes are entered in configured order and left in reverse, a rejection at position i means no later probe and no base handler runs and the status is an error. Each of 23 invalid plugin entries (unknown, empty or misspelt name; missing, wrong-typed, zero, negative or out-of-range options of every plugin that has options) at every position of every chain of up to two valid plugins must make BuildChain (and buildHandler) fail; the real binary, started on generated YAML with one invalid chain per plugin, must exit non-zero without ever accepting a connection on the proxy port.",
        note="Order and gating are decided in-process on the chain built by the real BuildChain (the property is about call order, not bytes); the binary part builds cmd/helios from the working tree.",
        jobs=[
            dict(name="c17w", part="W", pkg=MAIN, run="TestVerifC17", mode="plain", gomaxprocs=2, needs_binary=True, shards=dict(quick=8, thorough=16), timeout=dict(quick=600, thorough=3000)),
        ],
        assumptions=[],
    ),
    "C18": dict(
        level="exploration",
        engine="W+P",
        technique="exhaustive enumeration of configuration files assembled from per-section menus (all pairs in quick, a full product in thorough) against a reference validity derived from the documentation, plus every configuration the repository itself presents, loaded by the real LoadConfig, built like main() and started as the real binary",
        text="(A) The two shipped files and every fenced yaml block of README.md and docs/*.md (fragments merged over a minimal base) are loaded with the real LoadConfig and built the way main() builds (NewLoadBalancer, buildHandler incl. the plugin chain with options typed as YAML types them, adminapi.NewMux, createHTTPServer). (B) Files are assembled from per-section menus (ten sections, 3-11 fragments each: documented valid forms incl. every enum value and 'feature disabled', and one invalid form per documented constraint); quick enumerates all pairs of fragments over an all-valid rest, thorough additionally the full product over <=2 valid and <=2 invalid fragments per section (about 10^6 files); LoadConfig must accept exactly the files whose fragments are all valid, and every accepted file of the pair set is built in-process (no panic, no half-configured start). (P) The real binary is started on both shipped files (only the three ports moved) and must answer a request.",
        note="The reference validity of a fragment is transcribed from the README, the comments of the sample files and the validator's own error texts; where these disagreed (README basic example vs. the rejections pinned by config tests) the example was repaired. Tutorial yaml blocks that configure a plugin the reader is meant to write are skipped and listed in the evidence.",
        jobs=[
            dict(name="c18w", part="W", pkg=MAIN, run="TestVerifC18", mode="plain", gomaxprocs=2, needs_binary=True, shards=dict(quick=8, thorough=16), timeout=dict(quick=600, thorough=3000)),
        ],
        assumptions=[],
    ),
    "C10": dict(
        level="exploration",
        engine="W",
        technique="exhaustive enumeration of the product of peer addresses, allow/deny lists, forged headers, token configurations, Authorization spellings and endpoints against the real admin handler behind a real server with spoofed peers, judged by a net/netip reference policy",
        text="The real adminapi.NewMux handler is served by a real http.Server on an in-memory listener whose connections report an arbitrary peer address. IP product: allow list x deny list (every sub-list of size <= 1, thorough <= 2, of eight entries incl. overlapping prefixes, IPv6, 0.0.0.0/0 and two malformed entries) x nine peers (IPv4, IPv6, IPv4-mapped, zoned) x six forged X-Forwarded-For / X-Real-IP variants x endpoints, judged by a net/netip reference policy (deny wins, unparsable peers refused, malformed entries fail closed, refused mutations leave the balancer untouched, refusals disclose no backend). Token product: token configured or not x eleven Authorization spellings x ten endpoint/method pairs x peers x two IP configurations (exact 'Bearer <token>' only, /v1/health exempt, 401 otherwise, nothing changed or revealed).",
        note="Refusing is always acceptable where the reference says 'either' (configurations with malformed entries); 'served' means any status other than 401/403.",
        jobs=[
            dict(name="c10w", part="W", pkg=MAIN, run="TestVerifC10", mode="plain", gomaxprocs=2, shards=dict(quick=12, thorough=16), timeout=dict(quick=600, thorough=3000)),
        ],
        assumptions=[],
    ),
    "C03": dict(
        level="fault_enumeration",
        engine="W+H",
        technique="exhaustive enumeration of fault sequences over real connections (scripted misbehaving backends, aborting clients) with a recovery oracle + explicit-state BFS over fault histories under virtual time with a recovery probe from every reachable state",
        text="Wire part: for each configuration (breaker / passive checks / limiter / plugin chain logging,size_limit,gzip on or off; round_robin and least_connections, thorough all 32 combinations plus the other strategies) a fresh Helios instance with every configured timeout at 1 s is put in front of two raw TCP backends that misbehave as scripted; every fault of {refuse, hang before headers, reset after headers, short body, garbage status line, 500, stalled body, client aborts upload, client aborts download} is applied once, twice in sequence and twice concurrently (thorough: every ordered pair, triples for breaker configurations); each faulted request must end (response or closed connection) within 10 s, the server must log no handler panic, after the faults stop and window / breaker timeout elapse the last three of five probes must be 200 and both gauges must read 0. Virtual-time part: BFS over fault histories {ok, 500, refused, aborted, clock steps} with all eight feature combinations on the real wiring under the scheduler: no deadlock or panic on any step and a recovery probe from every reachable state; faulted requests (500 with ejection, aborted, refused) racing a probe round of the real health-check loop are explored under all interleavings up to the preemption bound (panic / fatal unlock / deadlock verdicts, recovery afterwards).",
        note="Real time is used only as a failure detector with a 10x margin; a failure must reproduce five times (the 12 s stalled-body case: twice) to be reported; the known finding about stalled response bodies is listed in KNOWN_FINDINGS.txt.",
        jobs=[
            dict(name="c03w", part="W", pkg=MAIN, run="TestVerifC03W", mode="plain", gomaxprocs=4, shards=dict(quick=16, thorough=16), timeout=dict(quick=900, thorough=3400)),
            dict(name="c03conc", part="Conc", pkg=LB, run="TestVerifC03Conc", mode="instr", shards=dict(quick=8, thorough=16), timeout=dict(quick=600, thorough=3000)),
            dict(name="c03s", part="S", pkg=LB, run="TestVerifC03S", mode="instr", shards=dict(quick=16, thorough=16), timeout=dict(quick=600, thorough=3000)),
        ],
        assumptions=[],
    ),
}
