"""Registry of checks: which harness test binaries decide which property."""

# repository packages whose sources are rewritten onto the scheduler-aware shims
INSTRUMENT = ["internal/loadbalancer", "internal/circuitbreaker", "internal/ratelimiter", "internal/metrics"]

CB = "internal/circuitbreaker"
LB = "internal/loadbalancer"
RL = "internal/ratelimiter"

ENGINES = [
    dict(name="S", path="engine/shim/vrt", serves_properties=["C07", "C08", "C09"],
         kind_free_text="controlled cooperative scheduler + stateless replay DFS with preemption bounding over the real Helios code (sync/atomic/time/go/select rewritten onto shims by vgen)"),
    dict(name="H", path="engine/shim/vh/hrun.go", serves_properties=["C07", "C08", "C09"],
         kind_free_text="explicit-state breadth-first search over event histories of the real objects under a virtual clock, reflective state fingerprint for deduplication, reference-model / monitor oracle on every transition"),
]

NOT_APPLICABLE = {}

CHECKS = {
    "C07": dict(
        level="model_checking",
        engine="S+H",
        technique="explicit-state BFS over event histories of the real breaker vs. a reference automaton + exhaustive preemption-bounded schedule exploration of concurrent Execute calls",
        text="Every history of {success, failure, panic, three clock steps} up to the stated depth is replayed on the real CircuitBreaker (library level, 27 configurations) and through the real LoadBalancer.ServeHTTP with scripted backends (system level, all five strategies), and each step's admission, rejection status, backend contact and state is compared with a reference automaton of the property; all interleavings of 2-3 concurrent Execute calls at the open->half-open boundary are enumerated up to the preemption bound and the number of concurrently admitted trials is checked against max_requests.",
        note="Virtual clock moves in steps that never land exactly on a deadline; instants older than the largest configured duration are merged in the state fingerprint (argument in the harness); backends are RoundTripper stubs under the real httputil.ReverseProxy; interleavings are explored at synchronisation operations only (sound if the code between them is race-free, which C12 checks).",
        jobs=[
            dict(name="c07s", part="S", pkg=CB, run="TestVerifC07S", mode="instr", shards=dict(quick=4, thorough=16)),
            dict(name="c07sys", part="Sys", pkg=LB, run="TestVerifC07Sys", mode="instr", shards=dict(quick=13, thorough=16)),
            dict(name="c07h", part="H", pkg=CB, run="TestVerifC07H", mode="instr", shards=dict(quick=9, thorough=14)),
        ],
        assumptions=[],
    ),
    "C08": dict(
        level="model_checking",
        engine="S+H",
        technique="explicit-state BFS over breaker histories through the real config->Validate->NewLoadBalancer->ServeHTTP pipeline with a recovery probe from every reachable state + exhaustive preemption-bounded schedule exploration of concurrent state changes (deadlock verdict)",
        text="For every breaker configuration of the menu that Validate accepts, every state reachable within the depth by {ok, 500, refused, aborted, clock steps} is a start state of a bounded recovery script (wait out the timeout, then only successful requests) that must end closed and admitting; all interleavings up to the preemption bound of 2-3 concurrent requests that trigger state changes (including panicking ones), with the balancer's real OnStateChange callback, must terminate (no enabled thread while one is blocked = deadlock).",
        note="Same trusted base as C07; the recovery bound is success_threshold + max_requests + 2 requests after the timeout.",
        jobs=[
            dict(name="c08s", part="S", pkg=LB, run="TestVerifC08S", mode="instr", shards=dict(quick=15, thorough=16)),
            dict(name="c08h", part="H", pkg=LB, run="TestVerifC08H", mode="instr", shards=dict(quick=16, thorough=16)),
        ],
        assumptions=[],
    ),
    "C09": dict(
        level="model_checking",
        engine="S+H",
        technique="exhaustive enumeration of all arrival histories (virtual time) of the real token-bucket limiter checked against the stated bounds + exhaustive preemption-bounded schedule exploration of concurrent arrivals and cleanup",
        text="All arrival histories (1-4 clients, three clock steps, max_tokens 1..5) up to the stated length are run on the real Allow under a virtual clock and judged by the statement's own bounds (every sliding window, new-client burst, idle refill, isolation as a differential between a history and its per-client projection); the same through ServeHTTP over seven spellings of the client address (429 <=> not forwarded); all interleavings up to the preemption bound of 2-3 goroutines hitting one bucket, bucket creation races and the hourly cleanup must admit exactly what a sequential order admits.",
        note="Oracles are the bounds of the statement, not the implementation's algorithm; clock steps are 0.4/1/3.1 refill periods; sync.Map is modelled as an insertion-ordered map with a scheduling point per operation.",
        jobs=[
            dict(name="c09s", part="S", pkg=RL, run="TestVerifC09S", mode="instr", shards=dict(quick=6, thorough=16)),
            dict(name="c09sys", part="Sys", pkg=LB, run="TestVerifC09Sys", mode="instr", shards=dict(quick=8, thorough=8)),
            dict(name="c09h", part="H", pkg=RL, run="TestVerifC09H", mode="instr", shards=dict(quick=6, thorough=9)),
        ],
        assumptions=[],
    ),
}
