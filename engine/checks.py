"""Registry of checks: which harness test binaries decide which property."""

# repository packages whose sources are rewritten onto the scheduler-aware shims
INSTRUMENT = ["internal/loadbalancer", "internal/circuitbreaker", "internal/ratelimiter", "internal/metrics"]

CB = "internal/circuitbreaker"
LB = "internal/loadbalancer"

CHECKS = {
    "C07": dict(
        level="model_checking",
        jobs=[
            dict(name="c07s", part="S", pkg=CB, run="TestVerifC07S", mode="instr", shards=dict(quick=4, thorough=16)),
        ],
        assumptions=[],
    ),
}
