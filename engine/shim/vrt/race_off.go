//go:build !race

package vrt

// RaceBuild reports whether the binary was built with the race detector.
const RaceBuild = false

func raceDisable() {}
func raceEnable()  {}
