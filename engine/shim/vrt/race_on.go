//go:build race

package vrt

import "runtime"

// RaceBuild reports whether the binary was built with the race detector.
const RaceBuild = true

func raceDisable() { runtime.RaceDisable() }
func raceEnable()  { runtime.RaceEnable() }
