package vrt

import (
	"fmt"
	"os"
	"strconv"
	"strings"
)

// Explorer enumerates, by stateless replay, every execution of a scenario whose number
// of preemptions does not exceed Bound (data choices and switches at blocking points are
// free and always fully explored).
type Explorer struct {
	Bound    int   // preemption bound; <0 = unbounded
	MaxExec  int64 // budget cap (0 = none); hitting it makes the result non-exhaustive
	Shard    int   // this process explores subtrees with index%Shards == Shard
	Shards   int
	ShardLvl int // depth (in deviations) at which subtrees are dealt to shards (default 2)

	// Exec runs one execution with the given choice prefix and returns its recorded choices.
	Exec func(prefix []int) []Choice
	// Stop may be set by Exec's caller to abort (e.g. enough violations collected).
	Stop bool

	Executions int64
	Capped     bool
	MaxChoices int
	MaxPreempt int
}

// ShardFromEnv reads VERIF_SHARD="i/n".
func (e *Explorer) ShardFromEnv() {
	v := os.Getenv("VERIF_SHARD")
	if v == "" {
		return
	}
	p := strings.Split(v, "/")
	if len(p) != 2 {
		return
	}
	i, err1 := strconv.Atoi(p[0])
	n, err2 := strconv.Atoi(p[1])
	if err1 != nil || err2 != nil || n <= 0 || i < 0 || i >= n {
		panic("bad VERIF_SHARD " + v)
	}
	e.Shard, e.Shards = i, n
}

type item struct {
	prefix []int
	level  int // number of deviations from the default schedule
}

// Run explores the scenario. Every shard executes the levels above ShardLvl itself
// (cheap) so that all shards agree on the numbering of the subtrees that are dealt out;
// executions of those shared levels are counted by shard 0 only.
func (e *Explorer) Run() {
	if e.Shards <= 0 {
		e.Shards = 1
	}
	if e.ShardLvl <= 0 {
		e.ShardLvl = 2
	}
	stack := []item{{prefix: nil, level: 0}}
	subtree := 0
	for len(stack) > 0 && !e.Stop {
		it := stack[len(stack)-1]
		stack = stack[:len(stack)-1]
		mine := true
		if e.Shards > 1 {
			if it.level == e.ShardLvl {
				// root of a dealt subtree
				mine = subtree%e.Shards == e.Shard
				subtree++
				if !mine {
					continue
				}
			}
		}
		if e.MaxExec > 0 && e.Executions >= e.MaxExec {
			e.Capped = true
			return
		}
		cs := e.Exec(it.prefix)
		counted := e.Shards == 1 || it.level >= e.ShardLvl || e.Shard == 0
		if counted {
			e.Executions++
		}
		if len(cs) > e.MaxChoices {
			e.MaxChoices = len(cs)
		}
		if len(cs) < len(it.prefix) {
			// execution ended before consuming the prefix (e.g. ended at a panic): no children
			continue
		}
		pre := 0
		for i := 0; i < len(it.prefix); i++ {
			if !cs[i].Data && cs[i].CurEnabled && cs[i].Chosen != 0 {
				pre++
			}
		}
		if pre > e.MaxPreempt {
			e.MaxPreempt = pre
		}
		// children in reverse so the stack pops them in canonical order
		var kids []item
		p := pre
		for i := len(it.prefix); i < len(cs); i++ {
			c := cs[i]
			cost := p
			if !c.Data && c.CurEnabled {
				cost++
			}
			if e.Bound < 0 || cost <= e.Bound {
				for alt := 1; alt < c.N; alt++ {
					np := make([]int, i+1)
					for k := 0; k < i; k++ {
						np[k] = cs[k].Chosen
					}
					np[i] = alt
					kids = append(kids, item{prefix: np, level: it.level + 1})
				}
			}
			// cs[i].Chosen is 0 beyond the prefix, so p is unchanged
		}
		for i := len(kids) - 1; i >= 0; i-- {
			stack = append(stack, kids[i])
		}
	}
}

// FormatChoices renders a choice list compactly for replay files.
func FormatChoices(cs []Choice) []int {
	out := make([]int, len(cs))
	for i, c := range cs {
		out[i] = c.Chosen
	}
	// trailing zeros are the default schedule
	n := len(out)
	for n > 0 && out[n-1] == 0 {
		n--
	}
	return out[:n]
}

// FormatTrace renders a trace for humans.
func FormatTrace(tr []TraceEv) []string {
	out := make([]string, len(tr))
	for i, t := range tr {
		out[i] = fmt.Sprintf("%s: %s", t.Name, t.Op)
	}
	return out
}
