package vrt

import (
	"fmt"
	"reflect"
	"time"
)

// chanReady reports whether a receive from ch would not block. It is non-destructive for
// the channel kinds the rewritten code uses: buffered channels (ticker) are probed by
// length; empty channels are probed with a non-blocking receive, which can only succeed
// if the channel is closed (context.Done) — a value obtained that way means an
// unmodelled sender exists.
func chanReady(s *Sched, v reflect.Value) bool {
	if !v.IsValid() || v.IsNil() {
		return false
	}
	if v.Len() > 0 {
		return true
	}
	x, ok := v.TryRecv()
	if !x.IsValid() && !ok {
		return false
	}
	if ok {
		if s != nil {
			s.NoteUnmodelled("value consumed while probing an unbuffered channel")
		}
		return true
	}
	return true // closed
}

type selBlocker struct {
	s          *Sched
	chans      []reflect.Value
	hasDefault bool
}

func (b *selBlocker) Enabled() bool {
	if b.hasDefault {
		return true
	}
	for _, c := range b.chans {
		if chanReady(b.s, c) {
			return true
		}
	}
	return false
}
func (b *selBlocker) Hard() bool { return false }

// Select is the target of rewritten receive-only select statements. It returns the index
// of the case taken (in source order, default excluded) or -1 for default.
func Select(hasDefault bool, chans ...interface{}) int {
	s := Cur()
	vals := make([]reflect.Value, len(chans))
	for i, c := range chans {
		vals[i] = reflect.ValueOf(c)
	}
	if s == nil {
		cases := make([]reflect.SelectCase, 0, len(vals)+1)
		for _, v := range vals {
			cases = append(cases, reflect.SelectCase{Dir: reflect.SelectRecv, Chan: v})
		}
		if hasDefault {
			cases = append(cases, reflect.SelectCase{Dir: reflect.SelectDefault})
		}
		i, _, _ := reflect.Select(cases)
		if hasDefault && i == len(vals) {
			return -1
		}
		return i
	}
	b := &selBlocker{s: s, chans: vals, hasDefault: hasDefault}
	s.Point(b, "select", nil)
	if s.dead {
		// torn down while parked: behave like "nothing ready"; callers loop back into a
		// Point, which exits the goroutine.
		s.exitNow(s.cur)
		return -1
	}
	var ready []int
	for i, v := range vals {
		if chanReady(s, v) {
			ready = append(ready, i)
		}
	}
	if len(ready) == 0 {
		return -1
	}
	pick := ready[s.Choose(len(ready))]
	vals[pick].TryRecv()
	return pick
}

type recvBlocker struct {
	s *Sched
	c reflect.Value
}

func (b *recvBlocker) Enabled() bool { return chanReady(b.s, b.c) }
func (b *recvBlocker) Hard() bool    { return false }

// Recv is the target of rewritten `for range ch` loops: it blocks (as a scheduling point)
// until a value is available and reports false once the channel is closed and drained.
func Recv[T any](ch <-chan T) bool {
	s := Cur()
	if s == nil {
		_, ok := <-ch
		return ok
	}
	v := reflect.ValueOf(ch)
	s.Point(&recvBlocker{s, v}, "recv", nil)
	if s.dead {
		s.exitNow(s.cur)
		return false
	}
	_, ok := v.TryRecv()
	return ok
}

// VTicker is the virtual ticker behind vtime.NewTicker: it fires only when a harness fires it.
type VTicker struct {
	C       chan time.Time
	D       time.Duration
	Stopped bool
	Index   int
	// F and Deadline: a time.AfterFunc timer. It does not fire by itself; a harness that moves
	// the clock inside an activity calls FireDueFuncs to run the callbacks whose time has come.
	F        func()
	Deadline time.Time
}

// FireDueFuncs runs, in the calling thread, the callback of every armed AfterFunc timer whose
// deadline the virtual clock has reached (earliest first) and returns how many ran. A real
// timer would run its callback on a goroutine of its own at that instant; running it at the
// point where the harness moved the clock is one of the orders the real program can show.
func (s *Sched) FireDueFuncs() int {
	n := 0
	for {
		var due *VTicker
		now := Now()
		for _, t := range s.Tickers {
			if t.F != nil && !t.Stopped && !t.Deadline.After(now) && (due == nil || t.Deadline.Before(due.Deadline)) {
				due = t
			}
		}
		if due == nil {
			return n
		}
		due.Stopped = true
		due.F()
		n++
	}
}

// NewVTicker registers a ticker with the running execution.
func NewVTicker(d time.Duration) *VTicker {
	t := &VTicker{C: make(chan time.Time, 1), D: d}
	if s := Cur(); s != nil {
		t.Index = len(s.Tickers)
		s.Tickers = append(s.Tickers, t)
	}
	return t
}

// Fire delivers one tick (dropped, like the real ticker, if the previous one is unread).
// It is a scheduling point of the calling harness thread.
func (t *VTicker) Fire() {
	if s := Cur(); s != nil {
		s.Point(Always, fmt.Sprintf("fire-ticker(%s)", t.D), nil)
	}
	if t.Stopped {
		return
	}
	select {
	case t.C <- Now():
	default:
	}
}

// TickerByPeriod finds the first live ticker with the given period.
func (s *Sched) TickerByPeriod(d time.Duration) *VTicker {
	for _, t := range s.Tickers {
		if t.D == d && !t.Stopped {
			return t
		}
	}
	return nil
}
