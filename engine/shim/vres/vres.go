// Package vres is how harness tests hand their measured coverage and any violations to
// the vcheck driver (one JSON file per test process under $VERIF_OUT).
package vres

import (
	"encoding/json"
	"fmt"
	"os"
	"path/filepath"
	"sort"
	"strconv"
	"strings"
	"sync"
)

type Violation struct {
	Key    string      `json:"key"`  // witness key: which oracle failed on which minimal element
	What   string      `json:"what"` // human readable
	Replay interface{} `json:"replay,omitempty"`
	Count  int         `json:"count"`
	Cost   int         `json:"cost"` // smaller = simpler witness (preemptions, history length)
}

type Scenario struct {
	Name        string                 `json:"name"`
	Engine      string                 `json:"engine"`
	Executions  int64                  `json:"executions"`
	States      int64                  `json:"states"`
	Transitions int64                  `json:"transitions"`
	Outcomes    int                    `json:"distinct_outcomes"`
	Evaluations int64                  `json:"evaluations,omitempty"`
	Distinct    int64                  `json:"distinct_nontrivial,omitempty"`
	Rule        string                 `json:"rule,omitempty"`
	Bound       string                 `json:"bound"`
	Exhaustive  bool                   `json:"exhaustive"`
	Capped      string                 `json:"capped,omitempty"`
	MaxPoints   int                    `json:"max_points,omitempty"`
	Sample      interface{}            `json:"sample,omitempty"`
	Extra       map[string]interface{} `json:"extra,omitempty"`
}

type Report struct {
	Property   string      `json:"property"`
	Part       string      `json:"part"`
	Shard      string      `json:"shard"`
	Scenarios  []Scenario  `json:"scenarios"`
	Violations []Violation `json:"violations"`
	Unmodelled []string    `json:"unmodelled,omitempty"`
	Notes      []string    `json:"notes,omitempty"`

	mu  sync.Mutex
	idx map[string]int
	as  string
}

func Open(property, part string) *Report {
	r := &Report{Property: property, Part: part, Shard: os.Getenv("VERIF_SHARD"), idx: map[string]int{}}
	// VERIF_AS=<id>: the same exploration serves another property that only cares about the
	// generic verdicts (deadlock, panic, data race, request never returned): the report is
	// filed under that property and the component-specific oracle verdicts are dropped.
	if as := os.Getenv("VERIF_AS"); as != "" && as != property {
		r.Property, r.Part, r.as = as, property+"-"+part, as
	}
	return r
}

func Tier() string {
	if t := os.Getenv("VERIF_TIER"); t == "thorough" {
		return "thorough"
	}
	return "quick"
}

func Thorough() bool { return Tier() == "thorough" }

func Seed() int64 {
	n, _ := strconv.ParseInt(os.Getenv("VERIF_SEED"), 10, 64)
	return n
}

// ReplayPath is non-empty when the driver asks for a single recorded case to be re-run.
func ReplayPath() string { return os.Getenv("VERIF_REPLAY") }

// LoadReplay reads the replay artefact's "replay" member into v.
func LoadReplay(v interface{}) error {
	b, err := os.ReadFile(ReplayPath())
	if err != nil {
		return err
	}
	var w struct {
		Replay json.RawMessage `json:"replay"`
	}
	if err := json.Unmarshal(b, &w); err != nil {
		return err
	}
	return json.Unmarshal(w.Replay, v)
}

func (r *Report) AddScenario(s Scenario) {
	r.mu.Lock()
	defer r.mu.Unlock()
	r.Scenarios = append(r.Scenarios, s)
}

func (r *Report) Note(format string, a ...interface{}) {
	r.mu.Lock()
	defer r.mu.Unlock()
	r.Notes = append(r.Notes, fmt.Sprintf(format, a...))
}

func (r *Report) AddUnmodelled(u ...string) {
	r.mu.Lock()
	defer r.mu.Unlock()
	for _, x := range u {
		dup := false
		for _, y := range r.Unmodelled {
			if x == y {
				dup = true
			}
		}
		if !dup {
			r.Unmodelled = append(r.Unmodelled, x)
		}
	}
}

// Violate records a violation; per key the cheapest witness is kept and occurrences are counted.
func (r *Report) Violate(key, what string, cost int, replay interface{}) {
	key = strings.ReplaceAll(key, " ", "_")
	if r.as != "" {
		generic := false
		for _, g := range []string{"/deadlock", "/panic", "/data-race", "never-returned"} {
			if strings.Contains(key, g) {
				generic = true
			}
		}
		// (VERIF_AS_KEEP=all: the other property is about the same oracle, every verdict counts)
		if !generic && os.Getenv("VERIF_AS_KEEP") != "all" {
			return
		}
		key = r.as + "/" + key
	}
	r.mu.Lock()
	defer r.mu.Unlock()
	if i, ok := r.idx[key]; ok {
		v := &r.Violations[i]
		v.Count++
		if cost < v.Cost {
			v.Cost, v.What, v.Replay = cost, what, replay
		}
		return
	}
	r.idx[key] = len(r.Violations)
	r.Violations = append(r.Violations, Violation{Key: key, What: what, Replay: replay, Count: 1, Cost: cost})
}

func (r *Report) NumViolations() int {
	r.mu.Lock()
	defer r.mu.Unlock()
	return len(r.Violations)
}

// Close writes the report where the driver expects it.
func (r *Report) Close() error {
	r.mu.Lock()
	defer r.mu.Unlock()
	sort.Slice(r.Violations, func(i, j int) bool { return r.Violations[i].Key < r.Violations[j].Key })
	dir := os.Getenv("VERIF_OUT")
	if dir == "" {
		dir = os.TempDir()
	}
	sh := strings.ReplaceAll(r.Shard, "/", "of")
	if sh == "" {
		sh = "0"
	}
	p := filepath.Join(dir, fmt.Sprintf("%s.%s.%s.json", r.Property, r.Part, sh))
	b, err := json.MarshalIndent(r, "", " ")
	if err != nil {
		return err
	}
	return os.WriteFile(p, b, 0o644)
}

// Outcomes is a small helper to count distinct observed outcomes.
type Outcomes struct {
	mu sync.Mutex
	m  map[string]int64
}

func (o *Outcomes) Add(k string) {
	o.mu.Lock()
	if o.m == nil {
		o.m = map[string]int64{}
	}
	o.m[k]++
	o.mu.Unlock()
}

func (o *Outcomes) N() int {
	o.mu.Lock()
	defer o.mu.Unlock()
	return len(o.m)
}

func (o *Outcomes) Map() map[string]int64 {
	o.mu.Lock()
	defer o.mu.Unlock()
	out := map[string]int64{}
	for k, v := range o.m {
		out[k] = v
	}
	return out
}
