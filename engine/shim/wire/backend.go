package wire

import (
	"bufio"
	"fmt"
	"io"
	"net"
	"net/http"
	"strings"
	"sync"
	"time"
)

// Script is what a scripted Go backend answers to the next request.
type Script struct {
	Interim      int // e.g. 103: send an interim response first (0 = none)
	Status       int // 0 = do not call WriteHeader explicitly (implicit 200)
	Header       []HeaderLine
	Parts        [][]byte      // body written part by part
	FlushEach    bool          // Flush after every part
	FlushFirst   bool          // Flush before the first write
	HeadDelay    time.Duration // wait between the (flushed) head and the first body byte: a response that is slow to produce its body
	DeclareLen   bool          // set Content-Length to the total size
	NoReadBody   bool          // do not read the request body
	WaitFlushAck chan int      // lock-step streaming: after flushing part k, block until k is acknowledged
	Hijack       func(c net.Conn, rw *bufio.ReadWriter, r *http.Request)
	Echo         []string      // request headers copied into the response
	Delay        time.Duration // wait before answering (request is "waiting for backend headers")
	PartDelay    time.Duration // wait after each flushed part (response is "mid-body")
	Arrived      chan struct{} // signalled (non-blocking) when the request has arrived
	Trailer      []HeaderLine  // sent as HTTP trailers after the body (forces chunked framing)
	// NoContentType: the response carries no Content-Type at all (net/http would otherwise
	// sniff one from the first bytes of the body)
	NoContentType bool
}

// Seen is what the backend received.
type Seen struct {
	Method     string
	RequestURI string
	Proto      string
	Host       string
	Header     http.Header
	Body       []byte
	BodyErr    string
	ContentLen int64
	TransferEn []string
	RemoteAddr string
}

// HeaderLines flattens the received header map into lines.
func (s *Seen) HeaderLines() []HeaderLine {
	var out []HeaderLine
	for k, vs := range s.Header {
		for _, v := range vs {
			out = append(out, HeaderLine{k, v})
		}
	}
	return out
}

// Backend is a well-formed scripted HTTP backend on a loopback listener.
type Backend struct {
	Name string
	L    net.Listener
	Srv  *http.Server

	mu     sync.Mutex
	next   *Script
	seen   []Seen
	Hits   int
	active int
	Probes int
	Health int // status answered to active probes (0 = 200)
	// ProbeDelay keeps a probe in flight; ProbeArrived is signalled (non-blocking) when one arrives
	ProbeDelay   time.Duration
	ProbeArrived chan struct{}
}

// ProbePath is the active health-check path the harness configures, kept apart from client traffic.
const ProbePath = "/__verif_probe"

func (b *Backend) ProbeCount() int {
	b.mu.Lock()
	defer b.mu.Unlock()
	return b.Probes
}

func (b *Backend) SetHealth(st int) {
	b.mu.Lock()
	b.Health = st
	b.mu.Unlock()
}

func NewBackend(name string) *Backend {
	l, err := net.Listen("tcp", "127.0.0.1:0")
	if err != nil {
		panic(err)
	}
	b := &Backend{Name: name, L: l}
	b.Srv = &http.Server{Handler: http.HandlerFunc(b.serve), ReadHeaderTimeout: 30 * time.Second}
	go b.Srv.Serve(l)
	return b
}

func (b *Backend) Addr() string { return b.L.Addr().String() }
func (b *Backend) URL() string  { return "http://" + b.Addr() }
func (b *Backend) Close()       { b.Srv.Close() }

// Next sets the script for the following request(s).
func (b *Backend) Next(s *Script) {
	b.mu.Lock()
	b.next = s
	b.mu.Unlock()
}

// TakeSeen returns and clears what was received since the last call.
func (b *Backend) TakeSeen() []Seen {
	b.mu.Lock()
	defer b.mu.Unlock()
	s := b.seen
	b.seen = nil
	return s
}

func (b *Backend) HitCount() int {
	b.mu.Lock()
	defer b.mu.Unlock()
	return b.Hits
}

// WaitIdle waits until no request is being handled (accounting of an exchange whose
// client side has already finished may still be in progress).
func (b *Backend) WaitIdle() {
	for i := 0; i < 5000; i++ {
		b.mu.Lock()
		n := b.active
		b.mu.Unlock()
		if n == 0 {
			return
		}
		time.Sleep(time.Millisecond)
	}
}

func (b *Backend) serve(w http.ResponseWriter, r *http.Request) {
	b.mu.Lock()
	sc := b.next
	b.active++
	b.mu.Unlock()
	defer func() {
		b.mu.Lock()
		b.active--
		b.mu.Unlock()
	}()
	if r.URL.Path == ProbePath {
		b.mu.Lock()
		b.Probes++
		st := b.Health
		pd, pa := b.ProbeDelay, b.ProbeArrived
		b.mu.Unlock()
		if pa != nil {
			select {
			case pa <- struct{}{}:
			default:
			}
		}
		if pd > 0 {
			time.Sleep(pd)
		}
		if st == 0 {
			st = 200
		}
		w.WriteHeader(st)
		return
	}
	seen := Seen{Method: r.Method, RequestURI: r.RequestURI, Proto: r.Proto, Host: r.Host, Header: r.Header.Clone(), ContentLen: r.ContentLength,
		TransferEn: append([]string(nil), r.TransferEncoding...), RemoteAddr: r.RemoteAddr}
	if sc == nil || !sc.NoReadBody {
		body, err := io.ReadAll(r.Body)
		seen.Body = body
		if err != nil {
			seen.BodyErr = err.Error()
		}
	}
	b.mu.Lock()
	b.seen = append(b.seen, seen)
	b.Hits++
	b.mu.Unlock()
	if sc == nil {
		w.Header().Set("Content-Type", "text/plain")
		w.Header().Set("X-Backend", b.Name)
		fmt.Fprintf(w, "ok from %s", b.Name)
		return
	}
	if sc.Arrived != nil {
		select {
		case sc.Arrived <- struct{}{}:
		default:
		}
	}
	if sc.Delay > 0 {
		time.Sleep(sc.Delay)
	}
	if sc.Hijack != nil {
		hj := w.(http.Hijacker)
		c, rw, err := hj.Hijack()
		if err != nil {
			return
		}
		sc.Hijack(c, rw, r)
		return
	}
	if sc.Interim != 0 {
		w.Header().Set("Link", "</style.css>; rel=preload")
		w.WriteHeader(sc.Interim)
		w.Header().Del("Link")
	}
	if sc.NoContentType {
		w.Header()["Content-Type"] = nil
	}
	for _, h := range sc.Header {
		w.Header().Add(h.Name, h.Value)
	}
	for _, n := range sc.Echo {
		for _, v := range r.Header.Values(n) {
			w.Header().Add(n, v)
		}
	}
	total := 0
	for _, p := range sc.Parts {
		total += len(p)
	}
	if sc.DeclareLen {
		w.Header().Set("Content-Length", fmt.Sprint(total))
	}
	for _, t := range sc.Trailer {
		w.Header().Add("Trailer", t.Name)
	}
	defer func() {
		for _, t := range sc.Trailer {
			w.Header().Set(t.Name, t.Value)
		}
	}()
	if sc.Status != 0 {
		w.WriteHeader(sc.Status)
	}
	fl, _ := w.(http.Flusher)
	if sc.FlushFirst && fl != nil {
		fl.Flush()
	}
	if sc.HeadDelay > 0 {
		time.Sleep(sc.HeadDelay)
	}
	for i, p := range sc.Parts {
		if len(p) > 0 {
			if _, err := w.Write(p); err != nil {
				return
			}
		}
		if sc.FlushEach && fl != nil {
			fl.Flush()
		}
		if sc.PartDelay > 0 && i < len(sc.Parts)-1 {
			time.Sleep(sc.PartDelay)
		}
		if sc.WaitFlushAck != nil {
			select {
			case k := <-sc.WaitFlushAck:
				if k != i {
					return
				}
			case <-time.After(60 * time.Second):
				return
			case <-r.Context().Done():
				return
			}
		}
	}
}

// ---------------------------------------------------------------- raw misbehaving backend

// RawBackend accepts connections and hands each to Behave.
type RawBackend struct {
	L      net.Listener
	mu     sync.Mutex
	Behave func(c net.Conn, n int)
	Conns  int
	closed bool
	open   []net.Conn
}

func NewRawBackend() *RawBackend {
	l, err := net.Listen("tcp", "127.0.0.1:0")
	if err != nil {
		panic(err)
	}
	rb := &RawBackend{L: l}
	go func() {
		for {
			c, err := l.Accept()
			if err != nil {
				return
			}
			rb.mu.Lock()
			rb.Conns++
			n := rb.Conns
			f := rb.Behave
			rb.open = append(rb.open, c)
			rb.mu.Unlock()
			if f == nil {
				c.Close()
				continue
			}
			go f(c, n)
		}
	}()
	return rb
}

func (rb *RawBackend) Addr() string { return rb.L.Addr().String() }
func (rb *RawBackend) URL() string  { return "http://" + rb.Addr() }
func (rb *RawBackend) Set(f func(c net.Conn, n int)) {
	rb.mu.Lock()
	rb.Behave = f
	rb.mu.Unlock()
}
func (rb *RawBackend) Close() {
	rb.L.Close()
	rb.mu.Lock()
	for _, c := range rb.open {
		c.Close()
	}
	rb.mu.Unlock()
}

// ReadRequestHead consumes a request head from the connection (raw behaviours).
func ReadRequestHead(c net.Conn) (string, error) {
	br := bufio.NewReader(c)
	var sb strings.Builder
	for {
		l, err := br.ReadString('\n')
		sb.WriteString(l)
		if err != nil {
			return sb.String(), err
		}
		if l == "\r\n" || l == "\n" {
			return sb.String(), nil
		}
	}
}

// ClosedAddr returns a loopback address on which nothing listens (connection refused).
func ClosedAddr() string {
	l, err := net.Listen("tcp", "127.0.0.1:0")
	if err != nil {
		panic(err)
	}
	a := l.Addr().String()
	l.Close()
	return a
}

// ---------------------------------------------------------------- listener with spoofed peers

type spoofConn struct {
	net.Conn
	remote net.Addr
}

func (c spoofConn) RemoteAddr() net.Addr { return c.remote }

type strAddr string

func (a strAddr) Network() string { return "tcp" }
func (a strAddr) String() string  { return string(a) }

// SpoofListener is an in-memory listener; DialFrom returns the client end of a connection
// whose server end reports the given peer address.
type SpoofListener struct {
	ch     chan net.Conn
	closed chan struct{}
	once   sync.Once
}

func NewSpoofListener() *SpoofListener {
	return &SpoofListener{ch: make(chan net.Conn, 16), closed: make(chan struct{})}
}

func (l *SpoofListener) Accept() (net.Conn, error) {
	select {
	case c := <-l.ch:
		return c, nil
	case <-l.closed:
		return nil, net.ErrClosed
	}
}
func (l *SpoofListener) Close() error   { l.once.Do(func() { close(l.closed) }); return nil }
func (l *SpoofListener) Addr() net.Addr { return strAddr("spoof:0") }

func (l *SpoofListener) DialFrom(peer string) net.Conn {
	a, b := net.Pipe()
	l.ch <- spoofConn{Conn: b, remote: strAddr(peer)}
	return a
}
