// Package wire holds the wire-level pieces of engine W: a raw-socket HTTP/1.1 client that
// records exactly what arrives (status line, header lines, framing, body bytes, interim
// responses, chunk boundaries), scripted backends, and listeners with spoofed peers.
package wire

import (
	"bufio"
	"bytes"
	"fmt"
	"io"
	"net"
	"sort"
	"strconv"
	"strings"
	"time"
)

type HeaderLine struct {
	Name  string
	Value string
}

type Head struct {
	Proto      string
	Status     int
	StatusText string
	Header     []HeaderLine
}

type Response struct {
	Interim []Head
	Head
	Framing string // none, length, chunked, close
	Body    []byte
	Chunks  []int // sizes of the chunks as framed (chunked only)
	Trailer []HeaderLine
	Err     string // non-empty when the response ended prematurely / could not be parsed
	EOF     bool   // connection closed by the peer right after this response
}

type Request struct {
	Method  string
	Target  string // request-target bytes as sent
	Header  []HeaderLine
	Body    []byte
	Chunked bool // send the body chunked (in ChunkSize pieces) instead of with Content-Length
	ChunkSz int
	NoBody  bool // send neither Content-Length nor chunks
	// AbortAfter >= 0: close the connection after that many body bytes (client-abort-upload)
	AbortAfter int
}

func (r *Request) Bytes() []byte {
	var b bytes.Buffer
	fmt.Fprintf(&b, "%s %s HTTP/1.1\r\n", r.Method, r.Target)
	for _, h := range r.Header {
		fmt.Fprintf(&b, "%s: %s\r\n", h.Name, h.Value)
	}
	switch {
	case r.NoBody:
		b.WriteString("\r\n")
	case r.Chunked:
		b.WriteString("Transfer-Encoding: chunked\r\n\r\n")
		sz := r.ChunkSz
		if sz <= 0 {
			sz = 8192
		}
		for off := 0; off < len(r.Body); off += sz {
			end := off + sz
			if end > len(r.Body) {
				end = len(r.Body)
			}
			fmt.Fprintf(&b, "%x\r\n", end-off)
			b.Write(r.Body[off:end])
			b.WriteString("\r\n")
		}
		b.WriteString("0\r\n\r\n")
	default:
		fmt.Fprintf(&b, "Content-Length: %d\r\n\r\n", len(r.Body))
		b.Write(r.Body)
	}
	return b.Bytes()
}

// Conn is a client connection with its read buffer.
type Conn struct {
	C  net.Conn
	BR *bufio.Reader
}

func Dial(addr string) (*Conn, error) {
	c, err := net.DialTimeout("tcp", addr, 5*time.Second)
	if err != nil {
		return nil, err
	}
	return &Conn{C: c, BR: bufio.NewReaderSize(c, 64<<10)}, nil
}

func Wrap(c net.Conn) *Conn { return &Conn{C: c, BR: bufio.NewReaderSize(c, 64<<10)} }

func (c *Conn) Close() { c.C.Close() }

// Do sends the request and reads one complete response. deadline bounds the whole exchange
// (it is the failure detector of "must not hang" oracles only).
func (c *Conn) Do(req *Request, deadline time.Duration) Response {
	c.C.SetDeadline(time.Now().Add(deadline))
	defer c.C.SetDeadline(time.Time{})
	raw := req.Bytes()
	// write concurrently with reading: a server may answer (e.g. 413) before the body is consumed
	werr := make(chan error, 1)
	go func() {
		_, err := c.C.Write(raw)
		werr <- err
	}()
	resp := c.ReadResponse(req.Method)
	select {
	case <-werr:
	case <-time.After(deadline):
	}
	return resp
}

func parseHead(br *bufio.Reader) (Head, error) {
	var h Head
	line, err := br.ReadString('\n')
	if err != nil {
		return h, fmt.Errorf("reading status line: %v (got %q)", err, line)
	}
	line = strings.TrimRight(line, "\r\n")
	parts := strings.SplitN(line, " ", 3)
	if len(parts) < 2 || !strings.HasPrefix(parts[0], "HTTP/") {
		return h, fmt.Errorf("malformed status line %q", line)
	}
	h.Proto = parts[0]
	h.Status, err = strconv.Atoi(parts[1])
	if err != nil {
		return h, fmt.Errorf("malformed status code in %q", line)
	}
	if len(parts) == 3 {
		h.StatusText = parts[2]
	}
	for {
		l, err := br.ReadString('\n')
		if err != nil {
			return h, fmt.Errorf("reading header: %v", err)
		}
		l = strings.TrimRight(l, "\r\n")
		if l == "" {
			return h, nil
		}
		i := strings.Index(l, ":")
		if i < 0 {
			return h, fmt.Errorf("malformed header line %q", l)
		}
		h.Header = append(h.Header, HeaderLine{l[:i], strings.Trim(l[i+1:], " \t\r\n")})
	}
}

func (h *Head) Get(name string) string {
	for _, l := range h.Header {
		if strings.EqualFold(l.Name, name) {
			return l.Value
		}
	}
	return ""
}

func (h *Head) Values(name string) []string {
	var out []string
	for _, l := range h.Header {
		if strings.EqualFold(l.Name, name) {
			out = append(out, l.Value)
		}
	}
	return out
}

// ReadResponse reads interim responses and one final response.
func (c *Conn) ReadResponse(method string) Response {
	var r Response
	for {
		h, err := parseHead(c.BR)
		if err != nil {
			r.Err = err.Error()
			return r
		}
		if h.Status >= 100 && h.Status < 200 && h.Status != 101 {
			r.Interim = append(r.Interim, h)
			continue
		}
		r.Head = h
		break
	}
	switch {
	case method == "HEAD" || r.Status == 204 || r.Status == 304 || r.Status == 101:
		r.Framing = "none"
	case strings.Contains(strings.ToLower(r.Get("Transfer-Encoding")), "chunked"):
		r.Framing = "chunked"
		for {
			l, err := c.BR.ReadString('\n')
			if err != nil {
				r.Err = "reading chunk size: " + err.Error()
				return r
			}
			l = strings.TrimSpace(l)
			if i := strings.Index(l, ";"); i >= 0 {
				l = l[:i]
			}
			n, err := strconv.ParseInt(l, 16, 64)
			if err != nil {
				r.Err = fmt.Sprintf("malformed chunk size %q", l)
				return r
			}
			if n == 0 {
				break
			}
			buf := make([]byte, n)
			if _, err := io.ReadFull(c.BR, buf); err != nil {
				r.Body = append(r.Body, buf...)
				r.Err = "reading chunk: " + err.Error()
				return r
			}
			r.Body = append(r.Body, buf...)
			r.Chunks = append(r.Chunks, int(n))
			if _, err := c.BR.Discard(2); err != nil {
				r.Err = "reading chunk CRLF: " + err.Error()
				return r
			}
		}
		for {
			l, err := c.BR.ReadString('\n')
			if err != nil {
				r.Err = "reading trailer: " + err.Error()
				return r
			}
			l = strings.TrimRight(l, "\r\n")
			if l == "" {
				break
			}
			if i := strings.Index(l, ":"); i >= 0 {
				r.Trailer = append(r.Trailer, HeaderLine{l[:i], strings.Trim(l[i+1:], " \t\r\n")})
			}
		}
	case r.Get("Content-Length") != "":
		r.Framing = "length"
		n, err := strconv.ParseInt(r.Get("Content-Length"), 10, 64)
		if err != nil || n < 0 {
			r.Err = "malformed Content-Length " + r.Get("Content-Length")
			return r
		}
		buf := make([]byte, n)
		got, err := io.ReadFull(c.BR, buf)
		r.Body = buf[:got]
		if err != nil {
			r.Err = fmt.Sprintf("body shorter than Content-Length: %d of %d (%v)", got, n, err)
			return r
		}
	default:
		r.Framing = "close"
		b, err := io.ReadAll(c.BR)
		r.Body = b
		r.EOF = true
		if err != nil {
			r.Err = "reading to EOF: " + err.Error()
		}
	}
	if strings.EqualFold(r.Get("Connection"), "close") {
		r.EOF = true
	}
	return r
}

// hop-by-hop headers (RFC 7230 6.1) plus framing headers, which a proxy owns.
var hopByHop = map[string]bool{"connection": true, "keep-alive": true, "proxy-authenticate": true, "proxy-authorization": true,
	"te": true, "trailer": true, "transfer-encoding": true, "upgrade": true, "proxy-connection": true}

// EndToEnd returns the sorted multiset "name: value" of end-to-end headers (names lower-cased),
// leaving out the names in ignore.
func EndToEnd(h []HeaderLine, ignore ...string) []string {
	ig := map[string]bool{}
	for _, n := range ignore {
		ig[strings.ToLower(n)] = true
	}
	// headers listed in Connection are hop-by-hop too
	for _, l := range h {
		if strings.EqualFold(l.Name, "Connection") {
			for _, t := range strings.Split(l.Value, ",") {
				ig[strings.ToLower(strings.TrimSpace(t))] = true
			}
		}
	}
	var out []string
	for _, l := range h {
		n := strings.ToLower(l.Name)
		if hopByHop[n] || ig[n] {
			continue
		}
		out = append(out, n+": "+l.Value)
	}
	sort.Strings(out)
	return out
}
