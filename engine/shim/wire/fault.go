package wire

import (
	"bufio"
	"fmt"
	"io"
	"net"
	"strconv"
	"strings"
	"sync"
	"time"
)

// FaultBackend is a raw TCP backend whose behaviour can be switched between well-formed
// answers and the misbehaviours of the fault alphabet.
//
//	healthy  200 with a small body
//	upgrade  101 Switching Protocols, then echoes until the peer closes
//	500      well-formed 500
//	refuse   the listener is closed (connection refused); re-opened on the same port afterwards
//	hang     accepts, reads the request, never answers (until the peer goes away)
//	reset    sends a response head announcing 1000 bytes, then resets the connection
//	short    sends the head announcing 1000 bytes and 10 bytes, then closes
//	short-chunked  sends a chunked response head and one 3000-byte chunk, then closes without the
//	         terminating chunk
//	garbage  answers with bytes that are not HTTP
//	slow     sends the head announcing 1000 bytes and 10 bytes, stalls for Stall, then closes
//	big      sends a 5 MiB body (for aborting downloads)
//	eager    answers 200 as soon as the request head has arrived, then reads the body
//	deaf     accepts the connection and never reads from it (an upload larger than the socket
//	         buffers gets stuck on the way to it)
type FaultBackend struct {
	// HealthyBody is the body of the healthy answer ("ok" if empty); set before traffic starts
	HealthyBody string
	addr        string
	mu          sync.Mutex
	l           net.Listener
	mode        string
	Stall       time.Duration
	conns       int
	reqs        int // client requests (not probes) whose head was received
	done        bool
	// Lost is set when the port could not be re-acquired after a "refuse" phase (tool condition)
	Lost bool
}

// Requests is the number of non-probe requests this backend has received.
func (fb *FaultBackend) Requests() int {
	fb.mu.Lock()
	defer fb.mu.Unlock()
	return fb.reqs
}

func NewFaultBackend() *FaultBackend {
	l, err := net.Listen("tcp", "127.0.0.1:0")
	if err != nil {
		panic(err)
	}
	fb := &FaultBackend{addr: l.Addr().String(), l: l, mode: "healthy", Stall: 3 * time.Second}
	go fb.loop(l)
	return fb
}

func (fb *FaultBackend) Addr() string { return fb.addr }
func (fb *FaultBackend) URL() string  { return "http://" + fb.addr }

func (fb *FaultBackend) Conns() int {
	fb.mu.Lock()
	defer fb.mu.Unlock()
	return fb.conns
}

func (fb *FaultBackend) SetMode(m string) {
	fb.mu.Lock()
	defer fb.mu.Unlock()
	if fb.done {
		return
	}
	fb.mode = m
	if m == "refuse" {
		if fb.l != nil {
			fb.l.Close()
			fb.l = nil
		}
		return
	}
	if fb.l == nil {
		// the port was released for the "refuse" behaviour; another process may have been given
		// it meanwhile (ephemeral allocation), so retry for a while and report instead of failing
		for i := 0; i < 2000; i++ {
			l, err := net.Listen("tcp", fb.addr)
			if err == nil {
				fb.l = l
				go fb.loop(l)
				return
			}
			time.Sleep(5 * time.Millisecond)
		}
		fb.Lost = true
	}
}

func (fb *FaultBackend) Close() {
	fb.mu.Lock()
	fb.done = true
	if fb.l != nil {
		fb.l.Close()
		fb.l = nil
	}
	fb.mu.Unlock()
}

func (fb *FaultBackend) loop(l net.Listener) {
	for {
		c, err := l.Accept()
		if err != nil {
			return
		}
		fb.mu.Lock()
		fb.conns++
		mode, stall := fb.mode, fb.Stall
		fb.mu.Unlock()
		go fb.serve(c, mode, stall)
	}
}

func (fb *FaultBackend) serve(c net.Conn, mode string, stall time.Duration) {
	defer c.Close()
	c.SetDeadline(time.Now().Add(60 * time.Second))
	if mode == "deaf" {
		// neither reads nor answers; gives up when the mode changes (or after 40 s)
		for i := 0; i < 800; i++ {
			fb.mu.Lock()
			m, done := fb.mode, fb.done
			fb.mu.Unlock()
			if m != "deaf" || done {
				return
			}
			time.Sleep(50 * time.Millisecond)
		}
		return
	}
	br := bufio.NewReader(c)
	for {
		// request head
		cl := 0
		chunked := false
		first := true
		path := ""
		for {
			l, err := br.ReadString('\n')
			if err != nil {
				return
			}
			if first {
				first = false
				if p := strings.Fields(l); len(p) >= 2 {
					path = p[1]
				}
			}
			ll := strings.ToLower(l)
			if strings.HasPrefix(ll, "content-length:") {
				cl, _ = strconv.Atoi(strings.TrimSpace(l[len("content-length:"):]))
			}
			if strings.HasPrefix(ll, "transfer-encoding:") && strings.Contains(ll, "chunked") {
				chunked = true
			}
			if l == "\r\n" || l == "\n" {
				break
			}
		}
		if path == ProbePath {
			mode = "healthy"
		} else {
			fb.mu.Lock()
			fb.reqs++
			fb.mu.Unlock()
		}
		if mode == "eager" && path != ProbePath {
			fmt.Fprintf(c, "HTTP/1.1 200 OK\r\nContent-Type: text/plain\r\nContent-Length: 2\r\n\r\nok")
		}
		if cl > 0 {
			if _, err := io.CopyN(io.Discard, br, int64(cl)); err != nil {
				return
			}
		} else if chunked {
			for {
				l, err := br.ReadString('\n')
				if err != nil {
					return
				}
				n, _ := strconv.ParseInt(strings.TrimSpace(l), 16, 64)
				if _, err := io.CopyN(io.Discard, br, n+2); err != nil {
					return
				}
				if n == 0 {
					break
				}
			}
		}
		switch mode {
		case "eager":
			continue // answered before the body
		case "healthy":
			body := fb.HealthyBody
			if body == "" {
				body = "ok"
			}
			fmt.Fprintf(c, "HTTP/1.1 200 OK\r\nContent-Type: text/plain\r\nContent-Length: %d\r\n\r\n%s", len(body), body)
			continue
		case "500":
			fmt.Fprintf(c, "HTTP/1.1 500 Internal Server Error\r\nContent-Type: text/plain\r\nContent-Length: 4\r\n\r\nfail")
			continue
		case "upgrade":
			// accept the protocol switch, echo what arrives until the peer closes
			fmt.Fprintf(c, "HTTP/1.1 101 Switching Protocols\r\nConnection: Upgrade\r\nUpgrade: websocket\r\n\r\n")
			c.SetDeadline(time.Now().Add(20 * time.Second))
			io.Copy(c, c)
			return
		case "hang":
			buf := make([]byte, 1)
			c.SetReadDeadline(time.Now().Add(30 * time.Second))
			c.Read(buf)
			return
		case "reset":
			fmt.Fprintf(c, "HTTP/1.1 200 OK\r\nContent-Type: text/plain\r\nContent-Length: 1000\r\n\r\n")
			if tc, ok := c.(*net.TCPConn); ok {
				tc.SetLinger(0)
			}
			return
		case "short":
			fmt.Fprintf(c, "HTTP/1.1 200 OK\r\nContent-Type: text/plain\r\nContent-Length: 1000\r\n\r\n0123456789")
			return
		case "short-chunked":
			fmt.Fprintf(c, "HTTP/1.1 200 OK\r\nContent-Type: text/plain\r\nTransfer-Encoding: chunked\r\n\r\nbb8\r\n%s\r\n", strings.Repeat("x", 3000))
			time.Sleep(150 * time.Millisecond) // (lets the proxy pass the chunk on before the connection goes)
			return
		case "garbage":
			fmt.Fprintf(c, "BLAH BLAH BLAH\r\n\x00\x01\x02\r\n\r\n")
			return
		case "status099":
			// a well-formed answer whose status code no server may send (below 100): clients parse
			// it; the body follows after a pause longer than the proxy's flush interval
			fmt.Fprintf(c, "HTTP/1.1 099 Weird\r\nContent-Type: text/plain\r\nContent-Length: 5\r\n\r\n")
			time.Sleep(400 * time.Millisecond)
			fmt.Fprintf(c, "hello")
			return
		case "status000":
			fmt.Fprintf(c, "HTTP/1.1 000 Zero\r\nContent-Type: text/plain\r\nTransfer-Encoding: chunked\r\n\r\n5\r\nhello\r\n")
			time.Sleep(400 * time.Millisecond)
			fmt.Fprintf(c, "0\r\n\r\n")
			return
		case "slow":
			fmt.Fprintf(c, "HTTP/1.1 200 OK\r\nContent-Type: text/plain\r\nContent-Length: 1000\r\n\r\n0123456789")
			time.Sleep(stall)
			return
		case "big":
			fmt.Fprintf(c, "HTTP/1.1 200 OK\r\nContent-Type: application/octet-stream\r\nContent-Length: %d\r\n\r\n", 5<<20)
			chunk := make([]byte, 64<<10)
			for sent := 0; sent < 5<<20; sent += len(chunk) {
				if _, err := c.Write(chunk); err != nil {
					return
				}
			}
			continue
		default:
			return
		}
	}
}
