package vsync

import (
	"runtime"
	"sync"

	"github.com/0xReLogic/Helios/internal/zzverif/vrt"
)

func yieldReal() { runtime.Gosched() }

// Map is sync.Map with a scheduling point before every operation. Iteration order of
// Range is insertion order (the real one is unspecified), which keeps replays deterministic.
type Map struct {
	real sync.Mutex // happens-before edges, as sync.Map's internal synchronisation provides
	m    map[interface{}]interface{}
	keys []interface{}
}

//go:norace
func (m *Map) point(op string) {
	if s := vrt.Cur(); s != nil {
		s.Point(vrt.Always, "Map."+op, m)
	}
	m.real.Lock()
	if m.m == nil {
		m.m = map[interface{}]interface{}{}
	}
}

//go:norace
func (m *Map) Load(key interface{}) (value interface{}, ok bool) {
	m.point("Load")
	defer m.real.Unlock()
	value, ok = m.m[key]
	return
}

//go:norace
func (m *Map) Store(key, value interface{}) {
	m.point("Store")
	defer m.real.Unlock()
	if _, ok := m.m[key]; !ok {
		m.keys = append(m.keys, key)
	}
	m.m[key] = value
}

//go:norace
func (m *Map) LoadOrStore(key, value interface{}) (actual interface{}, loaded bool) {
	m.point("LoadOrStore")
	defer m.real.Unlock()
	if v, ok := m.m[key]; ok {
		return v, true
	}
	m.keys = append(m.keys, key)
	m.m[key] = value
	return value, false
}

//go:norace
func (m *Map) LoadAndDelete(key interface{}) (value interface{}, loaded bool) {
	m.point("LoadAndDelete")
	defer m.real.Unlock()
	v, ok := m.m[key]
	if ok {
		m.del(key)
	}
	return v, ok
}

//go:norace
func (m *Map) Delete(key interface{}) {
	m.point("Delete")
	defer m.real.Unlock()
	m.del(key)
}

//go:norace
func (m *Map) del(key interface{}) {
	if _, ok := m.m[key]; !ok {
		return
	}
	delete(m.m, key)
	for i, k := range m.keys {
		if k == key {
			m.keys = append(m.keys[:i:i], m.keys[i+1:]...)
			break
		}
	}
}

//go:norace
func (m *Map) Swap(key, value interface{}) (previous interface{}, loaded bool) {
	m.point("Swap")
	defer m.real.Unlock()
	previous, loaded = m.m[key]
	if !loaded {
		m.keys = append(m.keys, key)
	}
	m.m[key] = value
	return
}

//go:norace
func (m *Map) CompareAndSwap(key, old, new interface{}) bool {
	m.point("CompareAndSwap")
	defer m.real.Unlock()
	if v, ok := m.m[key]; ok && v == old {
		m.m[key] = new
		return true
	}
	return false
}

//go:norace
func (m *Map) CompareAndDelete(key, old interface{}) bool {
	m.point("CompareAndDelete")
	defer m.real.Unlock()
	if v, ok := m.m[key]; ok && v == old {
		m.del(key)
		return true
	}
	return false
}

// Range visits a snapshot of the keys taken at the call; each visit re-reads the value
// (an entry deleted meanwhile is skipped), with a scheduling point per visited entry.
//
//go:norace
func (m *Map) Range(f func(key, value interface{}) bool) {
	m.point("Range")
	keys := append([]interface{}(nil), m.keys...)
	m.real.Unlock()
	for _, k := range keys {
		m.point("Range.next")
		v, ok := m.m[k]
		m.real.Unlock()
		if !ok {
			continue
		}
		if !f(k, v) {
			return
		}
	}
}

//go:norace
func (m *Map) Clear() {
	m.point("Clear")
	defer m.real.Unlock()
	m.m = map[interface{}]interface{}{}
	m.keys = nil
}
