// Package vsync replaces "sync" in instrumented Helios packages. Under a vrt scheduler
// every acquisition is a scheduling point with faithful enabledness; each primitive also
// owns the real sync object and operates it (never contended) so that a -race build sees
// exactly the happens-before edges Helios' own synchronisation creates. Without a
// scheduler the primitives simply delegate to the real ones.
package vsync

import (
	"sync"

	"github.com/0xReLogic/Helios/internal/zzverif/vrt"
)

type Locker = sync.Locker
type Pool = sync.Pool

// ---------------------------------------------------------------- Mutex

type Mutex struct {
	real sync.Mutex
	held bool
}

type muBlock struct{ m *Mutex }

//go:norace
func (b muBlock) Enabled() bool { return !b.m.held }
func (b muBlock) Hard() bool    { return true }

//go:norace
func (m *Mutex) Lock() {
	s := vrt.Cur()
	if s == nil {
		m.real.Lock()
		return
	}
	s.Point(muBlock{m}, "Mutex.Lock", m)
	if s.Exiting() {
		return
	}
	m.held = true
	m.real.Lock()
}

//go:norace
func (m *Mutex) TryLock() bool {
	s := vrt.Cur()
	if s == nil {
		return m.real.TryLock()
	}
	s.Point(vrt.Always, "Mutex.TryLock", m)
	if s.Exiting() {
		return false
	}
	if m.held {
		return false
	}
	m.held = true
	m.real.Lock()
	return true
}

//go:norace
func (m *Mutex) Unlock() {
	s := vrt.Cur()
	if s == nil {
		m.real.Unlock()
		return
	}
	if s.Exiting() {
		return
	}
	if !m.held {
		panic("sync: unlock of unlocked mutex")
	}
	m.held = false
	m.real.Unlock()
}

// ---------------------------------------------------------------- RWMutex

type RWMutex struct {
	real     sync.RWMutex
	readers  int
	writer   bool
	wWaiting int
}

type rwW struct{ m *RWMutex }

//go:norace
func (b rwW) Enabled() bool { return !b.m.writer && b.m.readers == 0 }
func (b rwW) Hard() bool    { return true }

type rwR struct{ m *RWMutex }

//go:norace
func (b rwR) Enabled() bool { return !b.m.writer && b.m.wWaiting == 0 }
func (b rwR) Hard() bool    { return true }

// Lock: first point = the call itself (takes the lock at once if it is free, like the
// real fast path); otherwise the writer announces itself — which blocks new readers,
// Go's writer preference — and a second point waits for the lock to drain.
//
//go:norace
func (m *RWMutex) Lock() {
	s := vrt.Cur()
	if s == nil {
		m.real.Lock()
		return
	}
	s.Point(vrt.Always, "RWMutex.Lock", m)
	if s.Exiting() {
		return
	}
	if !m.writer && m.readers == 0 && m.wWaiting == 0 {
		m.writer = true
		m.real.Lock()
		return
	}
	m.wWaiting++
	s.Point(rwW{m}, "RWMutex.Lock(wait)", m)
	if s.Exiting() {
		return
	}
	m.wWaiting--
	m.writer = true
	m.real.Lock()
}

//go:norace
func (m *RWMutex) TryLock() bool {
	s := vrt.Cur()
	if s == nil {
		return m.real.TryLock()
	}
	s.Point(vrt.Always, "RWMutex.TryLock", m)
	if s.Exiting() || m.writer || m.readers != 0 {
		return false
	}
	m.writer = true
	m.real.Lock()
	return true
}

//go:norace
func (m *RWMutex) Unlock() {
	s := vrt.Cur()
	if s == nil {
		m.real.Unlock()
		return
	}
	if s.Exiting() {
		return
	}
	if !m.writer {
		panic("sync: Unlock of unlocked RWMutex")
	}
	m.writer = false
	m.real.Unlock()
}

//go:norace
func (m *RWMutex) RLock() {
	s := vrt.Cur()
	if s == nil {
		m.real.RLock()
		return
	}
	s.Point(rwR{m}, "RWMutex.RLock", m)
	if s.Exiting() {
		return
	}
	m.readers++
	m.real.RLock()
}

//go:norace
func (m *RWMutex) TryRLock() bool {
	s := vrt.Cur()
	if s == nil {
		return m.real.TryRLock()
	}
	s.Point(vrt.Always, "RWMutex.TryRLock", m)
	if s.Exiting() || m.writer || m.wWaiting != 0 {
		return false
	}
	m.readers++
	m.real.RLock()
	return true
}

//go:norace
func (m *RWMutex) RUnlock() {
	s := vrt.Cur()
	if s == nil {
		m.real.RUnlock()
		return
	}
	if s.Exiting() {
		return
	}
	if m.readers <= 0 {
		panic("sync: RUnlock of unlocked RWMutex")
	}
	m.readers--
	m.real.RUnlock()
}

type rlocker RWMutex

func (r *rlocker) Lock()   { (*RWMutex)(r).RLock() }
func (r *rlocker) Unlock() { (*RWMutex)(r).RUnlock() }

func (m *RWMutex) RLocker() Locker { return (*rlocker)(m) }

// ---------------------------------------------------------------- WaitGroup

// WaitGroup follows the real implementation's internal steps closely enough that both of
// its misuse panics are reachable: Add that brings the counter to zero with waiters
// present is two steps (state update; then verify-reset-release), and a released waiter
// re-checks the state when it wakes.
type WaitGroup struct {
	real    sync.Mutex // carries the happens-before edges Done -> Wait
	counter int
	waiters int
	sema    int
}

type wgSema struct{ w *WaitGroup }

//go:norace
func (b wgSema) Enabled() bool { return b.w.sema > 0 }
func (b wgSema) Hard() bool    { return true }

//go:norace
func (w *WaitGroup) Add(delta int) {
	s := vrt.Cur()
	if s == nil {
		w.real.Lock()
		w.counter += delta
		c := w.counter
		w.real.Unlock()
		if c < 0 {
			panic("sync: negative WaitGroup counter")
		}
		return
	}
	s.Point(vrt.Always, "WaitGroup.Add", w)
	if s.Exiting() {
		return
	}
	w.real.Lock()
	w.real.Unlock()
	w.counter += delta
	if w.counter < 0 {
		panic("sync: negative WaitGroup counter")
	}
	if w.waiters != 0 && delta > 0 && w.counter == delta {
		panic("sync: WaitGroup misuse: Add called concurrently with Wait")
	}
	if w.counter > 0 || w.waiters == 0 {
		return
	}
	// counter reached zero with waiters: second internal step
	c0, w0 := w.counter, w.waiters
	s.Point(vrt.Always, "WaitGroup.Add(release)", w)
	if s.Exiting() {
		return
	}
	if w.counter != c0 || w.waiters != w0 {
		panic("sync: WaitGroup misuse: Add called concurrently with Wait")
	}
	w.sema += w.waiters
	w.waiters = 0
}

func (w *WaitGroup) Done() { w.Add(-1) }

//go:norace
func (w *WaitGroup) Wait() {
	s := vrt.Cur()
	if s == nil {
		// degenerate polling wait; only reached by code running outside any execution
		for {
			w.real.Lock()
			c := w.counter
			w.real.Unlock()
			if c == 0 {
				return
			}
			yieldReal()
		}
	}
	s.Point(vrt.Always, "WaitGroup.Wait", w)
	if s.Exiting() {
		return
	}
	if w.counter == 0 {
		w.real.Lock()
		w.real.Unlock()
		return
	}
	w.waiters++
	s.Point(wgSema{w}, "WaitGroup.Wait(sema)", w)
	if s.Exiting() {
		return
	}
	w.sema--
	w.real.Lock()
	w.real.Unlock()
	if w.counter != 0 || w.waiters != 0 {
		panic("sync: WaitGroup is reused before previous Wait has returned")
	}
}

// Go is sync.WaitGroup.Go of newer Go releases (for changed trees that adopt it).
func (w *WaitGroup) Go(f func()) {
	w.Add(1)
	vrt.Go(func() {
		defer w.Done()
		f()
	})
}

// ---------------------------------------------------------------- Once

type Once struct {
	m    Mutex
	done bool
}

//go:norace
func (o *Once) Do(f func()) {
	s := vrt.Cur()
	if s != nil {
		s.Point(vrt.Always, "Once.Do", o)
	}
	if o.done {
		return
	}
	o.m.Lock()
	defer o.m.Unlock()
	if !o.done {
		defer func() { o.done = true }()
		f()
	}
}

func OnceFunc(f func()) func() {
	var o Once
	return func() { o.Do(f) }
}

// ---------------------------------------------------------------- Cond

type Cond struct {
	L       Locker
	real    *sync.Cond
	waiting []*condWaiter
}

type condWaiter struct{ signalled bool }

type condBlock struct{ w *condWaiter }

//go:norace
func (b condBlock) Enabled() bool { return b.w.signalled }
func (b condBlock) Hard() bool    { return true }

func NewCond(l Locker) *Cond { return &Cond{L: l, real: sync.NewCond(l)} }

//go:norace
func (c *Cond) Wait() {
	s := vrt.Cur()
	if s == nil {
		c.real.Wait()
		return
	}
	w := &condWaiter{}
	c.waiting = append(c.waiting, w)
	c.L.Unlock()
	s.Point(condBlock{w}, "Cond.Wait", c)
	c.L.Lock()
}

//go:norace
func (c *Cond) Signal() {
	s := vrt.Cur()
	if s == nil {
		c.real.Signal()
		return
	}
	s.Point(vrt.Always, "Cond.Signal", c)
	if len(c.waiting) > 0 {
		c.waiting[0].signalled = true
		c.waiting = c.waiting[1:]
	}
}

//go:norace
func (c *Cond) Broadcast() {
	s := vrt.Cur()
	if s == nil {
		c.real.Broadcast()
		return
	}
	s.Point(vrt.Always, "Cond.Broadcast", c)
	for _, w := range c.waiting {
		w.signalled = true
	}
	c.waiting = nil
}
