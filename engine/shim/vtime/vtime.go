// Package vtime replaces "time" in instrumented Helios packages: types, constants and
// pure functions are the real ones; the clock (Now/Since/Until) is the harness' virtual
// clock and tickers/timers fire only when a harness fires them.
package vtime

import (
	"time"

	"github.com/0xReLogic/Helios/internal/zzverif/vrt"
)

type (
	Time       = time.Time
	Duration   = time.Duration
	Month      = time.Month
	Weekday    = time.Weekday
	Location   = time.Location
	ParseError = time.ParseError
)

const (
	Nanosecond  = time.Nanosecond
	Microsecond = time.Microsecond
	Millisecond = time.Millisecond
	Second      = time.Second
	Minute      = time.Minute
	Hour        = time.Hour

	Layout      = time.Layout
	ANSIC       = time.ANSIC
	UnixDate    = time.UnixDate
	RFC822      = time.RFC822
	RFC1123     = time.RFC1123
	RFC3339     = time.RFC3339
	RFC3339Nano = time.RFC3339Nano
	Kitchen     = time.Kitchen
	DateTime    = time.DateTime
	DateOnly    = time.DateOnly
	TimeOnly    = time.TimeOnly
)

var (
	UTC   = time.UTC
	Local = time.Local
)

func Now() Time                 { return vrt.Now() }
func Since(t Time) Duration     { return vrt.Now().Sub(t) }
func Until(t Time) Duration     { return t.Sub(vrt.Now()) }
func Unix(sec, nsec int64) Time { return time.Unix(sec, nsec) }
func UnixMilli(ms int64) Time   { return time.UnixMilli(ms) }
func Date(y int, m Month, d, h, mi, s, ns int, loc *Location) Time {
	return time.Date(y, m, d, h, mi, s, ns, loc)
}
func ParseDuration(s string) (Duration, error) { return time.ParseDuration(s) }
func Parse(layout, value string) (Time, error) { return time.Parse(layout, value) }

// Ticker fires only when the harness fires it (vrt.VTicker.Fire).
type Ticker struct {
	C <-chan Time
	v *vrt.VTicker
}

func NewTicker(d Duration) *Ticker {
	if d <= 0 {
		panic("non-positive interval for NewTicker")
	}
	v := vrt.NewVTicker(d)
	return &Ticker{C: v.C, v: v}
}

func (t *Ticker) Stop()            { t.v.Stopped = true }
func (t *Ticker) Reset(d Duration) { t.v.D = d; t.v.Stopped = false }

func Tick(d Duration) <-chan Time { return NewTicker(d).C }

// Timer: registered like a ticker; fires once when the harness fires it.
type Timer struct {
	C <-chan Time
	v *vrt.VTicker
	f func()
}

func NewTimer(d Duration) *Timer {
	note("time.NewTimer (fires only when the harness fires it)")
	v := vrt.NewVTicker(d)
	return &Timer{C: v.C, v: v}
}

func (t *Timer) Stop() bool {
	was := !t.v.Stopped
	t.v.Stopped = true
	return was
}

func (t *Timer) Reset(d Duration) bool {
	was := !t.v.Stopped
	t.v.D = d
	t.v.Stopped = false
	t.v.Deadline = vrt.Now().Add(d)
	return was
}

func After(d Duration) <-chan Time { return NewTimer(d).C }

func AfterFunc(d Duration, f func()) *Timer {
	note("time.AfterFunc (fires only where a harness that moves the clock asks for due timers)")
	v := vrt.NewVTicker(d)
	v.F, v.Deadline = f, vrt.Now().Add(d)
	return &Timer{C: v.C, v: v, f: f}
}

// Sleep parks the caller until the virtual clock has moved on by d (vrt.Sleep).
func Sleep(d Duration) {
	vrt.Sleep(d)
}

func note(what string) {
	if s := vrt.Cur(); s != nil {
		s.NoteUnmodelled(what)
	}
}
