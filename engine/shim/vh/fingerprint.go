package vh

import (
	"fmt"
	"reflect"
	"sort"
	"strings"
	"time"
	"unsafe"

	"github.com/0xReLogic/Helios/internal/zzverif/vrt"
)

// Fingerprint renders the object graph reachable from the given roots as a canonical
// string: every field, exported or not; maps sorted by rendered key; pointers replaced by
// first-visit ordinals; time.Time as an offset from the virtual clock ("zero" for the zero
// time); functions, channels and the shim's own lock bookkeeping skipped. It uses no field
// names of Helios, so renaming a field does not break a harness. It is over-fine by
// construction: states with different futures are never merged.
func Fingerprint(roots ...interface{}) string { return FingerprintClip(0, roots...) }

// FingerprintClip is Fingerprint with every instant more than clip in the past rendered
// as "old". This merges states only if the component never compares a stored instant
// against the clock with a distance larger than clip — the caller states that bound (the
// largest duration the component is configured with) and thereby the correctness argument.
func FingerprintClip(clip time.Duration, roots ...interface{}) string {
	f := &fper{seen: map[uintptr]int{}, now: vrt.Now(), clip: clip}
	for i, r := range roots {
		if i > 0 {
			f.b.WriteString(" || ")
		}
		f.walk(reflect.ValueOf(r), 0)
	}
	return f.b.String()
}

type fper struct {
	b    strings.Builder
	seen map[uintptr]int
	now  time.Time
	clip time.Duration
}

var timeType = reflect.TypeOf(time.Time{})

// stamp recognises an integer that holds an instant of the virtual clock (Unix seconds, milli-,
// micro- or nanoseconds within a day of now) and renders it like a time.Time: relative to now
// and clipped. A raw timestamp would otherwise merge states that differ in how long ago it was.
func (f *fper) stamp(x int64) bool {
	if f.now.IsZero() || x < 1e9 {
		return false
	}
	for _, u := range []struct {
		per  int64
		name string
	}{{1, "s"}, {1e3, "ms"}, {1e6, "us"}, {1e9, "ns"}} {
		nowU := f.now.Unix()*u.per + int64(f.now.Nanosecond())/(1e9/u.per)
		d := x - nowU
		if d > -86400*u.per && d < 86400*u.per {
			dd := time.Duration(d) * time.Duration(1e9/u.per)
			if f.clip > 0 && dd < -f.clip {
				f.b.WriteString("told" + u.name)
			} else {
				fmt.Fprintf(&f.b, "t%s%+d", u.name, dd.Milliseconds())
			}
			return true
		}
	}
	return false
}

func skipType(t reflect.Type) bool {
	p := t.PkgPath()
	// locks and wait groups are bookkeeping; typed atomics (sync/atomic and its shim) hold data
	// and are walked like any other struct
	if strings.HasSuffix(p, "/zzverif/vsync") || p == "sync" {
		return true
	}
	switch p {
	case "net/http/httputil", "net/http", "context", "github.com/rs/zerolog", "net/url":
		return true
	}
	return false
}

func (f *fper) walk(v reflect.Value, depth int) {
	if !v.IsValid() {
		f.b.WriteString("nil")
		return
	}
	if depth > 40 {
		f.b.WriteString("...")
		return
	}
	t := v.Type()
	if t == timeType {
		tm := *(*time.Time)(addrOf(v))
		if tm.IsZero() {
			f.b.WriteString("t0")
		} else if d := tm.Sub(f.now); f.clip > 0 && d < -f.clip {
			f.b.WriteString("told")
		} else {
			fmt.Fprintf(&f.b, "t%+d", d.Milliseconds())
		}
		return
	}
	if t.Kind() == reflect.Struct && t.Name() == "Map" && strings.HasSuffix(t.PkgPath(), "/zzverif/vsync") {
		// the sync.Map shim holds data, not lock bookkeeping: its contents are state
		f.walk(v.FieldByName("m"), depth+1)
		return
	}
	if t.Kind() == reflect.Struct && skipType(t) {
		f.b.WriteString("~")
		return
	}
	switch t.Kind() {
	case reflect.Bool:
		fmt.Fprintf(&f.b, "%v", v.Bool())
	case reflect.Int, reflect.Int8, reflect.Int16, reflect.Int32, reflect.Int64:
		if !f.stamp(v.Int()) {
			fmt.Fprintf(&f.b, "%d", v.Int())
		}
	case reflect.Uint, reflect.Uint8, reflect.Uint16, reflect.Uint32, reflect.Uint64, reflect.Uintptr:
		if v.Uint() > 1<<62 || !f.stamp(int64(v.Uint())) {
			fmt.Fprintf(&f.b, "%d", v.Uint())
		}
	case reflect.Float32, reflect.Float64:
		fmt.Fprintf(&f.b, "%g", v.Float())
	case reflect.String:
		fmt.Fprintf(&f.b, "%q", v.String())
	case reflect.Func, reflect.Chan, reflect.UnsafePointer, reflect.Complex64, reflect.Complex128:
		f.b.WriteString("~")
	case reflect.Ptr:
		if v.IsNil() {
			f.b.WriteString("nil")
			return
		}
		if t.Elem().Kind() == reflect.Struct && skipType(t.Elem()) {
			f.b.WriteString("~")
			return
		}
		p := v.Pointer()
		if id, ok := f.seen[p]; ok {
			fmt.Fprintf(&f.b, "&%d", id)
			return
		}
		id := len(f.seen) + 1
		f.seen[p] = id
		fmt.Fprintf(&f.b, "&%d=", id)
		f.walk(v.Elem(), depth+1)
	case reflect.Interface:
		if v.IsNil() {
			f.b.WriteString("nil")
			return
		}
		e := v.Elem()
		f.b.WriteString(e.Type().String())
		f.b.WriteString(":")
		f.walk(e, depth+1)
	case reflect.Struct:
		f.b.WriteString("{")
		for i := 0; i < v.NumField(); i++ {
			if i > 0 {
				f.b.WriteString(",")
			}
			f.walk(v.Field(i), depth+1)
		}
		f.b.WriteString("}")
	case reflect.Slice:
		if v.IsNil() {
			f.b.WriteString("[]")
			return
		}
		fallthrough
	case reflect.Array:
		f.b.WriteString("[")
		for i := 0; i < v.Len(); i++ {
			if i > 0 {
				f.b.WriteString(",")
			}
			f.walk(v.Index(i), depth+1)
		}
		f.b.WriteString("]")
	case reflect.Map:
		type kv struct{ k, v string }
		var ents []kv
		it := v.MapRange()
		for it.Next() {
			// keys rendered without pointer ordinals side effects: use a sub-walker sharing seen
			kf := &fper{seen: f.seen, now: f.now, clip: f.clip}
			kf.walk(it.Key(), depth+1)
			ents = append(ents, kv{k: kf.b.String()})
		}
		sort.Slice(ents, func(i, j int) bool { return ents[i].k < ents[j].k })
		// values are walked in sorted key order so pointer ordinals are deterministic
		keyIdx := map[string]reflect.Value{}
		it = v.MapRange()
		for it.Next() {
			kf := &fper{seen: map[uintptr]int{}, now: f.now, clip: f.clip}
			kf.walk(it.Key(), depth+1)
			keyIdx[kf.b.String()] = it.Value()
		}
		f.b.WriteString("map[")
		for i, e := range ents {
			if i > 0 {
				f.b.WriteString(",")
			}
			f.b.WriteString(e.k)
			f.b.WriteString(":")
			if val, ok := keyIdx[e.k]; ok {
				f.walk(val, depth+1)
			} else {
				f.b.WriteString("?")
			}
		}
		f.b.WriteString("]")
	default:
		f.b.WriteString("?")
	}
}

// addrOf returns a pointer to the value's storage even for unexported, unaddressable fields.
func addrOf(v reflect.Value) unsafe.Pointer {
	if v.CanAddr() {
		return unsafe.Pointer(v.UnsafeAddr())
	}
	c := reflect.New(v.Type()).Elem()
	c.Set(forceExported(v))
	return unsafe.Pointer(c.UnsafeAddr())
}

// forceExported clears the read-only flag reflect puts on values obtained via unexported fields.
func forceExported(v reflect.Value) reflect.Value {
	type rv struct {
		typ  unsafe.Pointer
		ptr  unsafe.Pointer
		flag uintptr
	}
	const flagRO = uintptr(1<<5 | 1<<6)
	p := (*rv)(unsafe.Pointer(&v))
	p.flag &^= flagRO
	return v
}

// Hash shortens a fingerprint for state sets.
func Hash(s string) [2]uint64 {
	var h1, h2 uint64 = 14695981039346656037, 0x9e3779b97f4a7c15
	for i := 0; i < len(s); i++ {
		h1 = (h1 ^ uint64(s[i])) * 1099511628211
		h2 = (h2 + uint64(s[i])) * 0xff51afd7ed558ccd
		h2 ^= h2 >> 29
	}
	return [2]uint64{h1, h2}
}

// FingerprintNovel renders only the state the caller does not already canonicalise by hand:
// starting from roots it descends through structs declared in the repository under test and
// emits, fully (reflectively, instants relative to now and clipped), every field whose
// qualified name "Type.field" is not in known. Harness fingerprints that pick fields by hand
// append it, so that state added by a change to the code under test (a new cache, cursor or
// timestamp field) still distinguishes states instead of being merged away; for the tree the
// known list was generated from it is the empty string.
func FingerprintNovel(clip time.Duration, known map[string]bool, roots ...interface{}) string {
	f := &fper{seen: map[uintptr]int{}, now: vrt.Now(), clip: clip}
	visited := map[uintptr]bool{}
	var walk func(v reflect.Value, depth int)
	walk = func(v reflect.Value, depth int) {
		if !v.IsValid() || depth > 30 {
			return
		}
		switch v.Kind() {
		case reflect.Ptr:
			if v.IsNil() || visited[v.Pointer()] {
				return
			}
			visited[v.Pointer()] = true
			walk(v.Elem(), depth+1)
		case reflect.Interface:
			if !v.IsNil() {
				walk(v.Elem(), depth+1)
			}
		case reflect.Slice, reflect.Array:
			for i := 0; i < v.Len(); i++ {
				walk(v.Index(i), depth+1)
			}
		case reflect.Map:
			it := v.MapRange()
			for it.Next() {
				walk(it.Value(), depth+1) // novel fields are collected, order is normalised below
			}
		case reflect.Struct:
			t := v.Type()
			if t == timeType || skipType(t) || !strings.Contains(t.PkgPath(), "/internal/") || strings.Contains(t.PkgPath(), "/zzverif/") {
				if t.Name() == "Map" && strings.HasSuffix(t.PkgPath(), "/zzverif/vsync") {
					walk(v.FieldByName("m"), depth+1)
				}
				return
			}
			for i := 0; i < v.NumField(); i++ {
				q := t.Name() + "." + t.Field(i).Name
				if known[q] {
					walk(v.Field(i), depth+1)
					continue
				}
				sub := &fper{seen: map[uintptr]int{}, now: f.now, clip: f.clip}
				sub.walk(v.Field(i), 0)
				novel = append(novel, q+"="+sub.b.String())
			}
		}
	}
	novel = novel[:0]
	for _, r := range roots {
		walk(reflect.ValueOf(r), 0)
	}
	sort.Strings(novel)
	return strings.Join(novel, ";")
}

var novel []string
