package vh

import (
	"fmt"
	"os"
	"strconv"
	"strings"
	"time"

	"github.com/0xReLogic/Helios/internal/zzverif/vres"
	"github.com/0xReLogic/Helios/internal/zzverif/vrt"
)

// HViol is an oracle failure on one transition or state.
type HViol struct {
	Key  string
	What string
}

// HInstance is one fresh instance of the system under exploration together with its
// reference model / monitor.
type HInstance interface {
	// Step applies event ev to the real object (and the model) and checks the oracle.
	Step(ev int) *HViol
	// Fingerprint is the canonical form of the reached state (real state + monitor state).
	Fingerprint() string
}

// HOutcomer is optionally implemented: a label of what the last Step observed (for the
// distinct-outcome count of the evidence).
type HOutcomer interface {
	LastOutcome() string
}

// HStateChecker is optionally implemented: Probe runs a destructive per-state check (e.g.
// a recovery script) on an instance that is thrown away afterwards.
type HStateChecker interface {
	Probe() *HViol
}

type HSpec struct {
	Name      string
	KeyPrefix string   // witness-key prefix of generic verdicts (deadlock, panic); default Name
	Events    []string // event alphabet, simplest first
	Depth     int
	MaxStates int // budget cap (0 = none)
	Params    interface{}
	New       func(s *vrt.Sched) HInstance
	// Enabled optionally restricts which events make sense in a state (default: all).
	Enabled func(inst HInstance, ev int) bool
}

type HReplay struct {
	Engine   string      `json:"engine"`
	Test     string      `json:"test"`
	Scenario string      `json:"scenario"`
	Params   interface{} `json:"params,omitempty"`
	History  []string    `json:"history"`
	Events   []int       `json:"events"`
	Probe    bool        `json:"probe,omitempty"`
}

// MyShard deals scenario i to the shards of VERIF_SHARD.
func MyShard(i int) bool {
	v := os.Getenv("VERIF_SHARD")
	p := strings.Split(v, "/")
	if len(p) != 2 {
		return true
	}
	k, _ := strconv.Atoi(p[0])
	n, _ := strconv.Atoi(p[1])
	if n <= 1 {
		return true
	}
	return i%n == k
}

type hOutcome struct {
	label   string
	viol    *HViol
	fp      string
	verdict vrt.Verdict
	enabled []bool
}

// replay builds a fresh instance inside a fresh scheduler execution, applies hist, then
// (if ev >= 0) the event ev, and reports the oracle's opinion of that last step.
func hReplay(sp *HSpec, hist []int, ev int, probe bool) hOutcome {
	var out hOutcome
	s := vrt.Run(vrt.Options{Horizon: 200000}, func(s *vrt.Sched) {
		inst := sp.New(s)
		for _, e := range hist {
			inst.Step(e)
		}
		if ev >= 0 {
			out.viol = inst.Step(ev)
			if oc, ok := inst.(HOutcomer); ok {
				out.label = sp.Events[ev] + "->" + oc.LastOutcome()
			} else {
				out.label = "ok"
			}
		}
		out.fp = inst.Fingerprint()
		if sp.Enabled != nil {
			out.enabled = make([]bool, len(sp.Events))
			for i := range sp.Events {
				out.enabled[i] = sp.Enabled(inst, i)
			}
		}
		if probe {
			if pc, ok := inst.(HStateChecker); ok {
				if v := pc.Probe(); v != nil && out.viol == nil {
					out.viol = v
				}
			}
		}
	})
	out.verdict = s.Verdict
	return out
}

func (sp *HSpec) names(h []int) []string {
	out := make([]string, len(h))
	for i, e := range h {
		out[i] = sp.Events[e]
	}
	return out
}

// RunH explores every event history up to Depth by breadth-first search with state
// deduplication; the oracle is evaluated on every transition and Probe on every new state.
func RunH(r *vres.Report, test string, sp HSpec) {
	start := time.Now()
	type node struct {
		hist    []int
		enabled []bool
	}
	seen := map[[2]uint64]struct{}{}
	var transitions, replays int64
	var outs vres.Outcomes
	capped := ""
	kp := sp.KeyPrefix
	if kp == "" {
		kp = sp.Name
	}
	report := func(hist []int, v *HViol, verdict vrt.Verdict, probe bool) {
		key, what := "", ""
		switch {
		case verdict.Kind == vrt.Deadlock:
			key, what = kp+"/deadlock", "deadlock: "+verdict.Detail
		case verdict.Kind == vrt.Panic:
			first := strings.SplitN(verdict.Detail, "\n", 2)[0]
			key, what = kp+"/panic:"+first, "panic: "+verdict.Detail+"\n"+verdict.Stack
		case verdict.Kind == vrt.Horizon:
			key, what = kp+"/horizon", "execution did not end within the step horizon (livelock?)"
		case v != nil:
			key, what = v.Key, v.What
		default:
			return
		}
		what += fmt.Sprintf(" | history: %v", sp.names(hist))
		r.Violate(key, what, len(hist), HReplay{Engine: "H", Test: test, Scenario: sp.Name, Params: sp.Params,
			History: sp.names(hist), Events: append([]int(nil), hist...), Probe: probe})
	}
	hasProbe := false
	root := hReplay(&sp, nil, -1, true)
	{
		// does the instance type implement Probe at all?
		vrt.Run(vrt.Options{}, func(s *vrt.Sched) {
			_, hasProbe = sp.New(s).(HStateChecker)
		})
	}
	replays++
	report(nil, root.viol, root.verdict, true)
	seen[Hash(root.fp)] = struct{}{}
	frontier := []node{{nil, root.enabled}}
	depthDone := 0
	var sample interface{}
	for d := 0; d < sp.Depth && len(frontier) > 0 && capped == ""; d++ {
		var next []node
		for _, n := range frontier {
			for ev := range sp.Events {
				if n.enabled != nil && !n.enabled[ev] {
					continue
				}
				o := hReplay(&sp, n.hist, ev, false)
				replays++
				transitions++
				h2 := append(append([]int(nil), n.hist...), ev)
				if o.viol != nil || o.verdict.Kind != vrt.OK {
					report(h2, o.viol, o.verdict, false)
					outs.Add("violation")
					continue // the model may have diverged: do not expand
				}
				outs.Add(o.label)
				hk := Hash(o.fp)
				if os.Getenv("VERIF_TRACE_H") != "" {
					_, dup := seen[hk]
					fmt.Fprintf(os.Stderr, "H %v dup=%v fp=%s\n", h2, dup, o.fp)
				}
				if _, dup := seen[hk]; dup {
					continue
				}
				seen[hk] = struct{}{}
				if sample == nil && len(h2) >= 3 {
					sample = map[string]interface{}{"scenario": sp.Name, "history": sp.names(h2)}
				}
				if hasProbe {
					p := hReplay(&sp, h2, -1, true)
					replays++
					if p.viol != nil || p.verdict.Kind != vrt.OK {
						report(h2, p.viol, p.verdict, true)
					}
				}
				next = append(next, node{h2, o.enabled})
				if sp.MaxStates > 0 && len(seen) >= sp.MaxStates {
					capped = fmt.Sprintf("state budget %d reached at depth %d", sp.MaxStates, d+1)
					break
				}
			}
			if capped != "" {
				break
			}
		}
		frontier = next
		if capped == "" {
			depthDone = d + 1
		}
	}
	fix := len(frontier) == 0 && capped == ""
	bound := fmt.Sprintf("all histories of length<=%d over %d events", depthDone, len(sp.Events))
	if fix {
		bound += " (fixpoint: no new state beyond)"
	}
	r.AddScenario(vres.Scenario{
		Name: sp.Name, Engine: "H", Executions: replays, States: int64(len(seen)), Transitions: transitions,
		Outcomes: outs.N(), Bound: bound, Exhaustive: capped == "", Capped: capped, Sample: sample,
		Extra: map[string]interface{}{"wall_s": time.Since(start).Seconds(), "fixpoint": fix, "events": sp.Events},
	})
}

// ReplayH re-executes one recorded history and prints what the oracle says at each step.
func ReplayH(sp HSpec, events []int, probe bool) {
	s := vrt.Run(vrt.Options{Horizon: 200000, Tracing: true}, func(s *vrt.Sched) {
		inst := sp.New(s)
		for i, e := range events {
			v := inst.Step(e)
			fmt.Printf("step %d %-24s", i, sp.Events[e])
			if v != nil {
				fmt.Printf(" VIOLATION %s: %s", v.Key, v.What)
			}
			fmt.Println()
		}
		if probe {
			if pc, ok := inst.(HStateChecker); ok {
				if v := pc.Probe(); v != nil {
					fmt.Printf("probe VIOLATION %s: %s\n", v.Key, v.What)
				} else {
					fmt.Println("probe ok")
				}
			}
		}
		fmt.Println("final state:", inst.Fingerprint())
	})
	fmt.Printf("verdict=%s %s\n%s\n", s.Verdict.Kind, s.Verdict.Detail, s.Verdict.Stack)
}

// ReachableH returns one shortest event history per distinct state fingerprint reachable
// within sp.Depth events (breadth-first, the empty history first). Concurrent scenarios use
// it to start from every reachable control state instead of the initial one only.
func ReachableH(sp HSpec) [][]int {
	root := hReplay(&sp, nil, -1, false)
	seen := map[[2]uint64]struct{}{Hash(root.fp): {}}
	out := [][]int{nil}
	frontier := [][]int{nil}
	for d := 0; d < sp.Depth && len(frontier) > 0; d++ {
		var next [][]int
		for _, h := range frontier {
			for ev := range sp.Events {
				o := hReplay(&sp, h, ev, false)
				if o.verdict.Kind != vrt.OK || o.viol != nil {
					continue // the sequential part reports these; not a usable start state
				}
				k := Hash(o.fp)
				if _, ok := seen[k]; ok {
					continue
				}
				seen[k] = struct{}{}
				nh := append(append([]int(nil), h...), ev)
				out = append(out, nh)
				next = append(next, nh)
			}
		}
		frontier = next
	}
	return out
}
