// Package vh holds harness helpers shared by the injected test files: running a scenario
// under the schedule explorer (engine S), breadth-first search over event histories
// (engine H) and the reflective state fingerprint.
package vh

import (
	"fmt"
	"os"
	"reflect"
	"strings"
	"time"

	"github.com/0xReLogic/Helios/internal/zzverif/vres"
	"github.com/0xReLogic/Helios/internal/zzverif/vrt"
)

// Exec is the per-execution context a scenario body fills in.
type Exec struct {
	S *vrt.Sched
	// Check is evaluated on the driver goroutine after the execution has ended. It
	// returns an outcome label (for the distinct-outcome count) and, for a violation, a
	// witness key and a description. It receives the scheduler verdict; returning
	// handled=true means deadlock/panic verdicts were judged by the scenario itself.
	Check func(v vrt.Verdict) (outcome, key, what string, handled bool)
	// State, when set, returns the fingerprint of the final state (distinct-state count).
	State func() string
	// Races are the data races the detector reported during this execution (race builds).
	Races []RaceReport
}

type SScenario struct {
	Name      string
	KeyPrefix string // witness-key prefix of generic verdicts (deadlock, panic); default Name
	Bound     int
	MaxExec   int64
	Horizon   int
	// ShardSubtrees deals the level-2 subtrees of this one scenario to the worker
	// processes (for big scenarios); otherwise whole scenarios are dealt (MyShard).
	ShardSubtrees bool
	Params        interface{} // stored in replay artefacts
	Body          func(x *Exec)
}

type SReplay struct {
	Engine   string      `json:"engine"`
	Test     string      `json:"test"`
	Scenario string      `json:"scenario"`
	Params   interface{} `json:"params,omitempty"`
	Choices  []int       `json:"choices"`
	Trace    []string    `json:"trace,omitempty"`
	Verdict  string      `json:"verdict,omitempty"`
}

// ToolError aborts the test process: a defect of the machinery, never a property verdict.
func ToolError(format string, a ...interface{}) {
	fmt.Fprintf(os.Stderr, "CHECK-ERROR: "+format+"\n", a...)
	os.Exit(3)
}

var races = newRaceWatcher()

func runOnce(sc *SScenario, prefix []int, tracing bool) (*vrt.Sched, *Exec) {
	x := &Exec{}
	s := vrt.Run(vrt.Options{Prefix: prefix, Horizon: sc.Horizon, Tracing: tracing, OnEnd: func(*vrt.Sched) {
		// reports written so far belong to this execution proper; whatever teardown
		// (sequential kill of parked threads) provokes afterwards is discarded
		x.Races = races.take()
	}}, func(s *vrt.Sched) {
		x.S = s
		sc.Body(x)
	})
	return s, x
}

// RunS explores the scenario within its bound and records coverage and violations.
func RunS(r *vres.Report, test string, sc SScenario) {
	start := time.Now()
	var outs vres.Outcomes
	states := map[string]struct{}{}
	var transitions int64
	maxPoints := 0
	horizonHit := 0
	var sample interface{}
	seenKey := map[string]bool{}
	bestCost := map[string]int{}
	kp := sc.KeyPrefix
	if kp == "" {
		kp = sc.Name
	}
	ex := &vrt.Explorer{Bound: sc.Bound, MaxExec: sc.MaxExec}
	if sc.ShardSubtrees {
		ex.ShardFromEnv()
	}
	ex.Exec = func(prefix []int) []vrt.Choice {
		s, x := runOnce(&sc, prefix, false)
		races.take() // drop anything reported during teardown
		for _, rr := range x.Races {
			cs := vrt.FormatChoices(s.Choices)
			r.Violate(kp+"/data-race/"+rr.Key, fmt.Sprintf("data race between %s and %s (scenario %s, schedule %v)\n%s", rr.Frames[0], rr.Frames[1], sc.Name, cs, rr.Text),
				vrt.Preemptions(s.Choices)*1000+len(cs), SReplay{Engine: "S-race", Test: test, Scenario: sc.Name, Params: sc.Params, Choices: cs, Verdict: "data race"})
		}
		transitions += int64(s.Steps)
		if s.Steps > maxPoints {
			maxPoints = s.Steps
		}
		r.AddUnmodelled(s.Unmodelled...)
		v := s.Verdict
		switch v.Kind {
		case vrt.Diverged:
			ToolError("%s: replay diverged: %s (prefix %v)", sc.Name, v.Detail, prefix)
		case vrt.Horizon:
			// the execution did not end within the step horizon: threads keep taking steps without
			// finishing (a spin / retry loop that never exits) - a liveness failure, not a cap
			horizonHit++
			cs := vrt.FormatChoices(s.Choices)
			r.Violate(kp+"/livelock", fmt.Sprintf("execution did not finish within %d scheduling points (threads keep running without making progress): %s (scenario %s, schedule %v)", s.HorizonN, v.Detail, sc.Name, cs),
				vrt.Preemptions(s.Choices)*1000+len(cs), SReplay{Engine: "S", Test: test, Scenario: sc.Name, Params: sc.Params, Choices: cs, Verdict: "horizon"})
			if horizonHit >= 3 {
				// every further execution would spin to the horizon as well: stop this scenario
				ex.Stop = true
			}
			return s.Choices
		}
		outcome, key, what := "", "", ""
		handled := false
		if x.Check != nil {
			outcome, key, what, handled = x.Check(v)
		}
		if !handled && key == "" {
			switch v.Kind {
			case vrt.Deadlock:
				key, what = kp+"/deadlock", "deadlock: "+v.Detail
				outcome = "deadlock"
			case vrt.Panic:
				first := strings.SplitN(v.Detail, "\n", 2)[0]
				key, what = kp+"/panic:"+first, "panic in thread "+v.Thread+": "+v.Detail
				outcome = "panic"
			}
		}
		if x.State != nil && v.Kind == vrt.OK {
			states[x.State()] = struct{}{}
		}
		outs.Add(outcome)
		if sample == nil {
			sample = map[string]interface{}{"scenario": sc.Name, "choices": vrt.FormatChoices(s.Choices), "outcome": outcome, "points": s.Steps}
		}
		if key != "" {
			cs := vrt.FormatChoices(s.Choices)
			rep := SReplay{Engine: "S", Test: test, Scenario: sc.Name, Params: sc.Params, Choices: cs, Verdict: v.Kind.String()}
			cost := vrt.Preemptions(s.Choices)*1000 + len(cs)
			if bc, ok := bestCost[key]; !ok || cost < bc {
				bestCost[key] = cost
				seenKey[key] = true
				// determinism guard: the same choice list must give the same trace twice
				s1, _ := runOnce(&sc, cs, true)
				s2, _ := runOnce(&sc, cs, true)
				t1, t2 := vrt.FormatTrace(s1.Trace), vrt.FormatTrace(s2.Trace)
				if !reflect.DeepEqual(t1, t2) || s1.Verdict.Kind != s2.Verdict.Kind || s1.Verdict.Kind != v.Kind {
					ToolError("%s: nondeterministic replay of %v (verdicts %v/%v/%v)", sc.Name, cs, v.Kind, s1.Verdict.Kind, s2.Verdict.Kind)
				}
				rep.Trace = t1
			}
			r.Violate(key, what, cost, rep)
		}
		return s.Choices
	}
	ex.Run()
	capped := ""
	if ex.Capped {
		capped = fmt.Sprintf("execution budget %d reached", sc.MaxExec)
	}
	if horizonHit > 0 {
		capped += fmt.Sprintf(" horizon hit in %d executions", horizonHit)
	}
	r.AddScenario(vres.Scenario{
		Name: sc.Name, Engine: "S", Executions: ex.Executions, States: int64(len(states)), Transitions: transitions,
		Outcomes: outs.N(), Bound: fmt.Sprintf("preemptions<=%d", sc.Bound), Exhaustive: capped == "", Capped: strings.TrimSpace(capped),
		MaxPoints: maxPoints, Sample: sample,
		Extra: map[string]interface{}{"outcomes": outs.Map(), "wall_s": time.Since(start).Seconds(), "max_choice_points": ex.MaxChoices},
	})
}

// ReplayS re-executes one recorded schedule with tracing and prints it.
func ReplayS(sc SScenario, choices []int) {
	s, x := runOnce(&sc, choices, true)
	fmt.Printf("REPLAY scenario=%s choices=%v\n", sc.Name, choices)
	for _, l := range vrt.FormatTrace(s.Trace) {
		fmt.Println("  ", l)
	}
	fmt.Printf("verdict=%s %s\n", s.Verdict.Kind, s.Verdict.Detail)
	if s.Verdict.Stack != "" {
		fmt.Println(s.Verdict.Stack)
	}
	if x.Check != nil {
		o, k, w, _ := x.Check(s.Verdict)
		fmt.Printf("outcome=%s key=%s what=%s\n", o, k, w)
	}
}

// RunSeq executes a sequential (single-thread) body under the scheduler with an effectively
// unlimited horizon. A body that was cut short would make the surrounding loop vacuous, so a
// horizon or divergence verdict is a tool error; a panic or deadlock of the code under test is
// reported as a violation under keyPrefix.
func RunSeq(r *vres.Report, keyPrefix string, body func(s *vrt.Sched)) *vrt.Sched {
	s := vrt.Run(vrt.Options{Horizon: 1 << 30}, body)
	switch s.Verdict.Kind {
	case vrt.OK:
	case vrt.Panic, vrt.Deadlock:
		if s.Verdict.Kind == vrt.Panic && panicFromHarness(s.Verdict.Stack) {
			ToolError("harness panicked in a sequential run: %s", s.Verdict.Detail)
		}
		r.Violate(keyPrefix+"/"+strings.ToLower(s.Verdict.Kind.String()), fmt.Sprintf("sequential run ended with %s: %s", s.Verdict.Kind, s.Verdict.Detail), 1, nil)
	default:
		ToolError("sequential run did not complete: %s %s", s.Verdict.Kind, s.Verdict.Detail)
	}
	return s
}

// panicFromHarness reports whether the function that called panic (the first frame after the
// runtime's own in the recorded stack) belongs to harness or shim code rather than to Helios.
func panicFromHarness(stack string) bool {
	lines := strings.Split(stack, "\n")
	// a panic that was recovered and raised again on its way up (circuitbreaker.Execute does
	// that, and so does the kit's stand-in for net/http's connection loop) shows one panic(
	// frame per raise; the one that matters is the original, the outermost in the listing
	first := 0
	for i, l := range lines {
		if strings.HasPrefix(l, "panic(") {
			first = i
		}
	}
	seenPanic := false
	for i := first; i < len(lines); i++ {
		l := lines[i]
		if strings.HasPrefix(l, "\t") {
			continue
		}
		if strings.HasPrefix(l, "panic(") {
			seenPanic = true
			continue
		}
		if !seenPanic || strings.HasPrefix(l, "runtime.") {
			continue
		}
		file := ""
		if i+1 < len(lines) {
			file = lines[i+1]
		}
		return strings.Contains(l, "/internal/zzverif/") || strings.Contains(file, "zz_verif") || strings.Contains(file, "/engine/harness/") || !strings.Contains(l, "github.com/0xReLogic/Helios/")
	}
	return false
}
