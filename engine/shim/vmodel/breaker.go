// Package vmodel holds the small reference models (oracles) the harnesses compare Helios with.
package vmodel

import "time"

// Breaker is the sequential reference automaton of the circuit-breaker property (C07).
type Breaker struct {
	FT, ST, MR        int
	Interval, Timeout time.Duration
	State             string // closed, open, half
	Fails, Succ, Req  int
	LastFail          time.Duration // virtual clock of the last failure; -1 = none
	NextAttempt       time.Duration
}

func NewBreaker(ft, st, mr int, interval, timeout time.Duration) *Breaker {
	return &Breaker{FT: ft, ST: st, MR: mr, Interval: interval, Timeout: timeout, State: "closed", LastFail: -1}
}

// Admit decides the next request at clock now: "" = admitted, else "open" / "toomany".
func (m *Breaker) Admit(now time.Duration) string {
	switch m.State {
	case "closed":
		if m.LastFail >= 0 && m.LastFail+m.Interval < now {
			m.Fails = 0
		}
		return ""
	case "open":
		if m.NextAttempt < now {
			m.State, m.Req, m.Succ = "half", 1, 0
			return ""
		}
		return "open"
	default:
		if m.Req >= m.MR {
			return "toomany"
		}
		m.Req++
		return ""
	}
}

// Done records the outcome of an admitted request.
func (m *Breaker) Done(now time.Duration, success bool) {
	if success {
		if m.State == "half" {
			m.Succ++
			if m.Succ >= m.ST {
				m.State, m.Fails = "closed", 0
			}
		}
		return
	}
	m.LastFail = now
	m.Fails++
	switch m.State {
	case "closed":
		if m.Fails >= m.FT {
			m.State, m.NextAttempt = "open", now+m.Timeout
		}
	case "half":
		m.State, m.NextAttempt = "open", now+m.Timeout
	}
}

// Canon renders the model state relative to now with old instants clipped.
func (m *Breaker) Canon(now, clip time.Duration) Breaker {
	c := *m
	if c.LastFail >= 0 {
		if c.LastFail -= now; c.LastFail < -clip {
			c.LastFail = -clip
		}
	} else {
		c.LastFail = 1
	}
	if c.NextAttempt -= now; c.NextAttempt < -clip {
		c.NextAttempt = -clip
	}
	return c
}
