// Package vatomic replaces "sync/atomic" in instrumented Helios packages: a scheduling
// point before every operation, then the real atomic operation.
package vatomic

import (
	"sync/atomic"
	"unsafe"

	"github.com/0xReLogic/Helios/internal/zzverif/vrt"
)

//go:norace
func pt(op string, addr interface{}) {
	if s := vrt.Cur(); s != nil {
		s.Point(vrt.Always, op, addr)
	}
}

func AddInt32(addr *int32, delta int32) int32 {
	pt("atomic.AddInt32", addr)
	return atomic.AddInt32(addr, delta)
}
func AddInt64(addr *int64, delta int64) int64 {
	pt("atomic.AddInt64", addr)
	return atomic.AddInt64(addr, delta)
}
func AddUint32(addr *uint32, delta uint32) uint32 {
	pt("atomic.AddUint32", addr)
	return atomic.AddUint32(addr, delta)
}
func AddUint64(addr *uint64, delta uint64) uint64 {
	pt("atomic.AddUint64", addr)
	return atomic.AddUint64(addr, delta)
}
func AddUintptr(addr *uintptr, delta uintptr) uintptr {
	pt("atomic.AddUintptr", addr)
	return atomic.AddUintptr(addr, delta)
}
func LoadInt32(addr *int32) int32    { pt("atomic.LoadInt32", addr); return atomic.LoadInt32(addr) }
func LoadInt64(addr *int64) int64    { pt("atomic.LoadInt64", addr); return atomic.LoadInt64(addr) }
func LoadUint32(addr *uint32) uint32 { pt("atomic.LoadUint32", addr); return atomic.LoadUint32(addr) }
func LoadUint64(addr *uint64) uint64 { pt("atomic.LoadUint64", addr); return atomic.LoadUint64(addr) }
func LoadUintptr(addr *uintptr) uintptr {
	pt("atomic.LoadUintptr", addr)
	return atomic.LoadUintptr(addr)
}
func LoadPointer(addr *unsafe.Pointer) unsafe.Pointer {
	pt("atomic.LoadPointer", addr)
	return atomic.LoadPointer(addr)
}
func StoreInt32(addr *int32, v int32)    { pt("atomic.StoreInt32", addr); atomic.StoreInt32(addr, v) }
func StoreInt64(addr *int64, v int64)    { pt("atomic.StoreInt64", addr); atomic.StoreInt64(addr, v) }
func StoreUint32(addr *uint32, v uint32) { pt("atomic.StoreUint32", addr); atomic.StoreUint32(addr, v) }
func StoreUint64(addr *uint64, v uint64) { pt("atomic.StoreUint64", addr); atomic.StoreUint64(addr, v) }
func StoreUintptr(addr *uintptr, v uintptr) {
	pt("atomic.StoreUintptr", addr)
	atomic.StoreUintptr(addr, v)
}
func StorePointer(addr *unsafe.Pointer, v unsafe.Pointer) {
	pt("atomic.StorePointer", addr)
	atomic.StorePointer(addr, v)
}
func SwapInt32(addr *int32, v int32) int32 {
	pt("atomic.SwapInt32", addr)
	return atomic.SwapInt32(addr, v)
}
func SwapInt64(addr *int64, v int64) int64 {
	pt("atomic.SwapInt64", addr)
	return atomic.SwapInt64(addr, v)
}
func SwapUint32(addr *uint32, v uint32) uint32 {
	pt("atomic.SwapUint32", addr)
	return atomic.SwapUint32(addr, v)
}
func SwapUint64(addr *uint64, v uint64) uint64 {
	pt("atomic.SwapUint64", addr)
	return atomic.SwapUint64(addr, v)
}
func CompareAndSwapInt32(addr *int32, o, n int32) bool {
	pt("atomic.CompareAndSwapInt32", addr)
	return atomic.CompareAndSwapInt32(addr, o, n)
}
func CompareAndSwapInt64(addr *int64, o, n int64) bool {
	pt("atomic.CompareAndSwapInt64", addr)
	return atomic.CompareAndSwapInt64(addr, o, n)
}
func CompareAndSwapUint32(addr *uint32, o, n uint32) bool {
	pt("atomic.CompareAndSwapUint32", addr)
	return atomic.CompareAndSwapUint32(addr, o, n)
}
func CompareAndSwapUint64(addr *uint64, o, n uint64) bool {
	pt("atomic.CompareAndSwapUint64", addr)
	return atomic.CompareAndSwapUint64(addr, o, n)
}
func CompareAndSwapPointer(addr *unsafe.Pointer, o, n unsafe.Pointer) bool {
	pt("atomic.CompareAndSwapPointer", addr)
	return atomic.CompareAndSwapPointer(addr, o, n)
}

// Typed atomics (for changed trees that adopt them).

type Int32 struct{ v atomic.Int32 }

func (x *Int32) Load() int32        { pt("Int32.Load", x); return x.v.Load() }
func (x *Int32) Store(v int32)      { pt("Int32.Store", x); x.v.Store(v) }
func (x *Int32) Add(d int32) int32  { pt("Int32.Add", x); return x.v.Add(d) }
func (x *Int32) Swap(v int32) int32 { pt("Int32.Swap", x); return x.v.Swap(v) }
func (x *Int32) CompareAndSwap(o, n int32) bool {
	pt("Int32.CompareAndSwap", x)
	return x.v.CompareAndSwap(o, n)
}

type Int64 struct{ v atomic.Int64 }

func (x *Int64) Load() int64        { pt("Int64.Load", x); return x.v.Load() }
func (x *Int64) Store(v int64)      { pt("Int64.Store", x); x.v.Store(v) }
func (x *Int64) Add(d int64) int64  { pt("Int64.Add", x); return x.v.Add(d) }
func (x *Int64) Swap(v int64) int64 { pt("Int64.Swap", x); return x.v.Swap(v) }
func (x *Int64) CompareAndSwap(o, n int64) bool {
	pt("Int64.CompareAndSwap", x)
	return x.v.CompareAndSwap(o, n)
}

type Uint32 struct{ v atomic.Uint32 }

func (x *Uint32) Load() uint32         { pt("Uint32.Load", x); return x.v.Load() }
func (x *Uint32) Store(v uint32)       { pt("Uint32.Store", x); x.v.Store(v) }
func (x *Uint32) Add(d uint32) uint32  { pt("Uint32.Add", x); return x.v.Add(d) }
func (x *Uint32) Swap(v uint32) uint32 { pt("Uint32.Swap", x); return x.v.Swap(v) }
func (x *Uint32) CompareAndSwap(o, n uint32) bool {
	pt("Uint32.CompareAndSwap", x)
	return x.v.CompareAndSwap(o, n)
}

type Uint64 struct{ v atomic.Uint64 }

func (x *Uint64) Load() uint64         { pt("Uint64.Load", x); return x.v.Load() }
func (x *Uint64) Store(v uint64)       { pt("Uint64.Store", x); x.v.Store(v) }
func (x *Uint64) Add(d uint64) uint64  { pt("Uint64.Add", x); return x.v.Add(d) }
func (x *Uint64) Swap(v uint64) uint64 { pt("Uint64.Swap", x); return x.v.Swap(v) }
func (x *Uint64) CompareAndSwap(o, n uint64) bool {
	pt("Uint64.CompareAndSwap", x)
	return x.v.CompareAndSwap(o, n)
}

type Bool struct{ v atomic.Bool }

func (x *Bool) Load() bool       { pt("Bool.Load", x); return x.v.Load() }
func (x *Bool) Store(v bool)     { pt("Bool.Store", x); x.v.Store(v) }
func (x *Bool) Swap(v bool) bool { pt("Bool.Swap", x); return x.v.Swap(v) }
func (x *Bool) CompareAndSwap(o, n bool) bool {
	pt("Bool.CompareAndSwap", x)
	return x.v.CompareAndSwap(o, n)
}

type Value struct{ v atomic.Value }

func (x *Value) Load() interface{}   { pt("Value.Load", x); return x.v.Load() }
func (x *Value) Store(v interface{}) { pt("Value.Store", x); x.v.Store(v) }
func (x *Value) Swap(v interface{}) interface{} {
	pt("Value.Swap", x)
	return x.v.Swap(v)
}
func (x *Value) CompareAndSwap(o, n interface{}) bool {
	pt("Value.CompareAndSwap", x)
	return x.v.CompareAndSwap(o, n)
}

type Pointer[T any] struct{ v atomic.Pointer[T] }

func (x *Pointer[T]) Load() *T     { pt("Pointer.Load", x); return x.v.Load() }
func (x *Pointer[T]) Store(v *T)   { pt("Pointer.Store", x); x.v.Store(v) }
func (x *Pointer[T]) Swap(v *T) *T { pt("Pointer.Swap", x); return x.v.Swap(v) }
func (x *Pointer[T]) CompareAndSwap(o, n *T) bool {
	pt("Pointer.CompareAndSwap", x)
	return x.v.CompareAndSwap(o, n)
}
