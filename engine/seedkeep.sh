#!/bin/bash
# usage: engine/seedkeep.sh <seed-dir> <name> <property> <caught_by (space separated, may be empty)> <needs text> <ran text>
SRC="$1"; NAME="$2"; PROP="$3"; CAUGHT="$4"; NEEDS="$5"; RAN="$6"
D=/verif/seeded/$NAME
mkdir -p "$D"
cp "$SRC/.seed/patch.diff" "$D/patch.diff"
for f in "$SRC"/.seed/*; do case "$(basename $f)" in patch.diff) ;; *) cp "$f" "$D/";; esac; done
python3 - "$D" "$PROP" "$CAUGHT" "$NEEDS" "$RAN" <<'PY'
import json,sys
d,prop,caught,needs,ran=sys.argv[1:6]
json.dump(dict(property=prop, breaks=open(d+"/README.txt").read()[:1500] if __import__("os").path.exists(d+"/README.txt") else "", needs_to_manifest=needs,
               caught_by=caught.split(), confirmed=ran, origin="independent sub-agent given only the property text and a scratch worktree"), open(d+"/meta.json","w"), indent=1)
PY
ls $D
