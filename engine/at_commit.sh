#!/bin/sh
# usage: engine/at_commit.sh <commit-ish> [patch.diff] -- <vcheck args...>
# Runs vcheck against a scratch worktree of /repo at the given commit (optionally with a patch
# applied), then removes the worktree. Evidence/replays written by such a run are NOT evidence
# for the registered checks: re-run the check on /repo afterwards.
set -e
C="$1"; shift
P=""
if [ "$1" != "--" ]; then P="$1"; shift; fi
shift
D=$(mktemp -d /tmp/verif-wt-XXXXXX)
git -C /repo worktree add -q --detach "$D" "$C"
if [ -n "$P" ]; then git -C "$D" apply "$P"; fi
rc=0
VERIF_REPO="$D" "$(dirname "$0")/../vcheck" "$@" || rc=$?
git -C /repo worktree remove --force "$D"
exit $rc
