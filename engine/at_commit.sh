#!/bin/sh
# usage: engine/at_commit.sh <commit-ish> [patch.diff | revert:<commit>[,<commit>...]] -- <vcheck args...>
# Runs vcheck against a scratch worktree of /repo at the given commit (optionally with a patch
# applied or a commit reverted), then removes the worktree. Evidence and replays of such a run
# go to a scratch directory (printed), never to /verif/evidence.
set -e
C="$1"; shift
P=""
if [ "$1" != "--" ]; then P="$1"; shift; fi
shift
D=$(mktemp -d /tmp/verif-wt-XXXXXX)
E=$(mktemp -d /tmp/verif-ev-XXXXXX)
git -C /repo worktree add -q --detach "$D" "$C"
case "$P" in
  "") ;;
  revert:*) for c in $(echo "${P#revert:}" | tr ',' ' '); do git -C "$D" revert -n --no-edit "$c" >/dev/null 2>&1 || { echo "REVERT-CONFLICT $c"; git -C /repo worktree remove --force "$D"; rm -rf "$E"; exit 3; }; done ;;
  *) git -C "$D" apply "$(readlink -f "$P")" ;;
esac
rc=0
VERIF_REPO="$D" VERIF_EVIDENCE_DIR="$E" VERIF_REPLAY_DIR="$E" "$(dirname "$0")/../vcheck" "$@" || rc=$?
git -C /repo worktree remove --force "$D"
rm -rf "$E"
exit $rc
