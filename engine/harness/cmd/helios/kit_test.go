package main

// Engine W kit: the real handler chain built by buildHandler, served by the real
// http.Server built by createHTTPServer on a loopback listener, in front of scripted
// backends on loopback listeners, driven by the raw-socket client of package wire.
// Sources are unmodified in this mode (the overlay only adds these files and the wire package).

import (
	"fmt"
	"io"
	"log"
	"net"
	"net/http"
	"os"
	"strconv"
	"strings"
	"time"

	"github.com/0xReLogic/Helios/internal/config"
	"github.com/0xReLogic/Helios/internal/loadbalancer"
	"github.com/0xReLogic/Helios/internal/logging"
	"github.com/0xReLogic/Helios/internal/zzverif/wire"
)

func init() {
	log.SetOutput(io.Discard)
	logging.Init(config.LoggingConfig{Level: "fatal", Format: "json"})
}

type helios struct {
	cfg  *config.Config
	lb   *loadbalancer.LoadBalancer
	srv  *http.Server
	l    net.Listener
	addr string
}

func baseConfig(strategy string, backends ...string) *config.Config {
	cfg := &config.Config{}
	cfg.Server.Port = 8080
	cfg.LoadBalancer.Strategy = strategy
	for i, u := range backends {
		cfg.Backends = append(cfg.Backends, config.BackendConfig{Name: fmt.Sprintf("b%d", i), Address: u, Weight: 1})
	}
	cfg.Logging.Level = "fatal"
	cfg.Logging.Format = "json"
	return cfg
}

// kitOnServer, if set, sees the server that startHelios has built before it starts serving (to
// watch connection states, for instance).
var kitOnServer func(*http.Server)

func startHelios(cfg *config.Config) (*helios, error) {
	if err := cfg.Validate(); err != nil {
		return nil, fmt.Errorf("validate: %w", err)
	}
	lb, err := loadbalancer.NewLoadBalancer(cfg)
	if err != nil {
		return nil, err
	}
	h, err := buildHandler(cfg, lb)
	if err != nil {
		lb.Stop()
		return nil, err
	}
	srv := createHTTPServer(cfg, h)
	srv.ErrorLog = log.New(io.Discard, "", 0)
	if kitOnServer != nil {
		kitOnServer(srv)
	}
	l, err := net.Listen("tcp", "127.0.0.1:0")
	if err != nil {
		return nil, err
	}
	go srv.Serve(l)
	return &helios{cfg: cfg, lb: lb, srv: srv, l: l, addr: l.Addr().String()}, nil
}

func (h *helios) stop() {
	h.srv.Close()
	h.lb.Stop()
}

// exch is a pair of persistent client connections (re-dialled when the peer closes).
type exch struct {
	addr string
	c    *wire.Conn
}

func (e *exch) do(req *wire.Request, deadline time.Duration) wire.Response {
	for attempt := 0; ; attempt++ {
		if e.c == nil {
			c, err := wire.Dial(e.addr)
			if err != nil {
				return wire.Response{Err: "dial: " + err.Error()}
			}
			e.c = c
		}
		fresh := attempt > 0
		r := e.c.Do(req, deadline)
		if r.Err != "" || r.EOF {
			e.c.Close()
			e.c = nil
			// a kept-alive connection may have been closed by the server between exchanges: retry once on a fresh one
			if r.Err != "" && r.Status == 0 && !fresh && strings.Contains(r.Err, "status line") {
				continue
			}
		}
		return r
	}
}

func (e *exch) close() {
	if e.c != nil {
		e.c.Close()
		e.c = nil
	}
}

func shardOf() (int, int) {
	p := strings.Split(os.Getenv("VERIF_SHARD"), "/")
	if len(p) != 2 {
		return 0, 1
	}
	i, _ := strconv.Atoi(p[0])
	n, _ := strconv.Atoi(p[1])
	if n < 1 {
		n = 1
	}
	return i, n
}

func pattern(n int, seed byte) []byte {
	b := make([]byte, n)
	for i := range b {
		b[i] = 'a' + byte((i*7+int(seed))%26)
	}
	return b
}
