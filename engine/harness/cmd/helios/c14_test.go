package main

import (
	"bufio"
	"bytes"
	"fmt"
	"io"
	"log"
	"net"
	"net/http"
	"reflect"
	"strings"
	"sync"
	"testing"
	"time"

	"github.com/0xReLogic/Helios/internal/config"
	"github.com/0xReLogic/Helios/internal/plugins"
	"github.com/0xReLogic/Helios/internal/zzverif/vres"
	"github.com/0xReLogic/Helios/internal/zzverif/wire"
)

// handler programs served directly under a plugin chain built by the public BuildChain,
// behind a real http.Server and the raw client (mounting b of C14/C15).

type hprog struct {
	Status     int // 0 = implicit WriteHeader
	Header     []wire.HeaderLine
	Parts      [][]byte
	FlushFirst bool
	FlushEach  bool
	DeclareLen bool
	Hijack     bool // take the connection over (Upgrade), answer 101 and close
	Interim    int  // send this interim (1xx) response first
	AbortAfter int  // > 0: break the response off (http.ErrAbortHandler) after this many parts
	FlushAfter int  // > 0: flush once, after this many parts (and not again)
	Status2    int  // != 0: a second, superfluous WriteHeader call right after the first (the first must win)
	Trailer    bool // announce and send a response trailer (X-Sum)
	// TrailerEarly: the trailer's value is set right after WriteHeader, before the first write
	// (the pattern of the net/http documentation), instead of after the body
	TrailerEarly bool
	EmptyWrite   bool // a zero-length Write before the first part
	EmptyThen    int  // ... followed by header changes and a WriteHeader with this status (0 = none): the zero-length write has committed the response, all of it is ignored
	LateHeader   bool // after WriteHeader the handler still changes the header map (net/http ignores that)
	// AfterBody: the handler never calls WriteHeader (the first write commits an implicit 200
	// with the header as it stands then); after its last write it changes the header map and
	// calls WriteHeader(500) - all of which net/http ignores
	AfterBody bool
	Copy      bool // the body is handed over with io.Copy from a plain reader (optional writer interfaces get probed) instead of Write calls
}

type progServer struct {
	mu      sync.Mutex
	prog    *hprog
	read    int    // request body bytes the program read
	readErr string // error of that read
	calls   int
	srv     *http.Server
	addr    string
}

func (ps *progServer) base(w http.ResponseWriter, r *http.Request) {
	ps.mu.Lock()
	p := ps.prog
	ps.mu.Unlock()
	body, err := io.ReadAll(r.Body)
	ps.mu.Lock()
	ps.calls++
	ps.read = len(body)
	if err != nil {
		ps.readErr = err.Error()
	}
	ps.mu.Unlock()
	if p == nil {
		return
	}
	if p.Hijack {
		if hj, ok := w.(http.Hijacker); ok {
			if c, rw, err := hj.Hijack(); err == nil {
				rw.WriteString("HTTP/1.1 101 Switching Protocols\r\nConnection: Upgrade\r\nUpgrade: websocket\r\n\r\n")
				rw.Flush()
				c.Close()
			}
		}
		return
	}
	if p.Interim != 0 {
		w.Header().Set("Link", "</s.css>; rel=preload")
		w.WriteHeader(p.Interim)
		w.Header().Del("Link")
	}
	for _, h := range p.Header {
		w.Header().Add(h.Name, h.Value)
	}
	if p.DeclareLen {
		n := 0
		for _, x := range p.Parts {
			n += len(x)
		}
		w.Header().Set("Content-Length", fmt.Sprint(n))
	}
	if p.Trailer {
		w.Header().Set("Trailer", "X-Sum")
	}
	if p.LateHeader {
		w.Header().Set("Cache-Control", "public, max-age=3600")
	}
	if p.Status != 0 {
		w.WriteHeader(p.Status)
		if p.LateHeader {
			w.Header().Set("Cache-Control", "no-store")
			w.Header().Set("X-Late", "1")
			w.Header().Del("X-Prog")
		}
		if p.Status2 != 0 {
			w.WriteHeader(p.Status2)
		}
	}
	fl, _ := w.(http.Flusher)
	if p.FlushFirst && fl != nil {
		fl.Flush()
	}
	if p.Trailer && p.TrailerEarly {
		w.Header().Set("X-Sum", "abc123")
	} else if p.Trailer {
		defer func() { w.Header().Set("X-Sum", "abc123") }()
	}
	if p.EmptyWrite {
		w.Write(nil)
		if p.EmptyThen != 0 {
			w.Header().Set("Cache-Control", "no-store")
			w.Header().Set("X-After-Empty", "1")
			w.Header().Del("X-Prog")
			w.WriteHeader(p.EmptyThen)
		}
	}
	if p.Copy {
		var all []byte
		for _, x := range p.Parts {
			all = append(all, x...)
		}
		io.Copy(w, struct{ io.Reader }{bytes.NewReader(all)})
		return
	}
	for i, x := range p.Parts {
		if p.AbortAfter > 0 && i == p.AbortAfter {
			panic(http.ErrAbortHandler)
		}
		if _, err := w.Write(x); err != nil {
			return
		}
		if (p.FlushEach || p.FlushAfter == i+1) && fl != nil {
			fl.Flush()
		}
	}
	if p.AfterBody && len(p.Parts) > 0 {
		w.Header().Set("Cache-Control", "no-store")
		w.Header().Set("X-After", "1")
		w.Header().Del("X-Prog")
		w.WriteHeader(http.StatusInternalServerError)
	}
}

func newProgServer(chain []config.PluginConfig) (*progServer, error) {
	ps := &progServer{}
	var h http.Handler = http.HandlerFunc(ps.base)
	if len(chain) > 0 {
		var err error
		h, err = plugins.BuildChain(config.PluginsConfig{Enabled: true, Chain: chain}, h)
		if err != nil {
			return nil, err
		}
	}
	l, err := net.Listen("tcp", "127.0.0.1:0")
	if err != nil {
		return nil, err
	}
	ps.srv = &http.Server{Handler: h, ErrorLog: log.New(io.Discard, "", 0)}
	ps.addr = l.Addr().String()
	go ps.srv.Serve(l)
	return ps, nil
}

func (ps *progServer) set(p *hprog) {
	ps.mu.Lock()
	ps.prog, ps.read, ps.readErr, ps.calls = p, 0, "", 0
	ps.mu.Unlock()
}

func (ps *progServer) stats() (calls, read int, rerr string) {
	ps.mu.Lock()
	defer ps.mu.Unlock()
	return ps.calls, ps.read, ps.readErr
}

// compositions of n into ordered positive parts (n=0: one empty composition)
func compositions(n int) [][]int {
	if n == 0 {
		return [][]int{{}}
	}
	var out [][]int
	for first := 1; first <= n; first++ {
		for _, rest := range compositions(n - first) {
			out = append(out, append([]int{first}, rest...))
		}
	}
	return out
}

func partsOf(comp []int, seed byte) [][]byte {
	total := 0
	for _, c := range comp {
		total += c
	}
	body := pattern(total, seed)
	var out [][]byte
	off := 0
	for _, c := range comp {
		out = append(out, body[off:off+c])
		off += c
	}
	return out
}

func sizeLimitCfg(reqL, respL int) config.PluginConfig {
	return config.PluginConfig{Name: "size_limit", Config: map[string]interface{}{"max_request_body": reqL, "max_response_body": respL}}
}

var c14Positions = map[string]func(sl config.PluginConfig, with bool) []config.PluginConfig{
	"alone": func(sl config.PluginConfig, with bool) []config.PluginConfig {
		if with {
			return []config.PluginConfig{sl}
		}
		return nil
	},
	"outermost": func(sl config.PluginConfig, with bool) []config.PluginConfig {
		rest := []config.PluginConfig{{Name: "logging"}, {Name: "headers", Config: map[string]interface{}{"set": map[string]interface{}{"X-App": "Helios"}}}}
		if with {
			return append([]config.PluginConfig{sl}, rest...)
		}
		return rest
	},
	"innermost": func(sl config.PluginConfig, with bool) []config.PluginConfig {
		rest := []config.PluginConfig{{Name: "logging"}, {Name: "headers", Config: map[string]interface{}{"set": map[string]interface{}{"X-App": "Helios"}}}}
		if with {
			return append(rest, sl)
		}
		return rest
	},
	// next to the other plugin that holds the response header back (gzip), on either side of it
	"gzip-outside": func(sl config.PluginConfig, with bool) []config.PluginConfig {
		if with {
			return []config.PluginConfig{gzipCfg(5, 1, "text/"), sl}
		}
		return []config.PluginConfig{gzipCfg(5, 1, "text/")}
	},
	"gzip-inside": func(sl config.PluginConfig, with bool) []config.PluginConfig {
		if with {
			return []config.PluginConfig{sl, gzipCfg(5, 1, "text/")}
		}
		return []config.PluginConfig{gzipCfg(5, 1, "text/")}
	},
}

type c14Case struct {
	L        int
	Position string
	Method   string
	Status   int
	Comp     []int
	Flush    string // none, first (before any write), each, after-first (once, after the first write)
	Status2  int    // second, superfluous WriteHeader
	Trailer  bool
	TrEarly  bool   // the trailer value is set before the first write
	After    bool   // header changes and a WriteHeader(500) after the body (implicit status)
	Empty    bool   // zero-length first write
	EmptyTh  int    // header changes and a WriteHeader(EmptyTh) right after the zero-length write
	AskUp    bool   // the request asks for a protocol upgrade (which the handler / backend declines)
	Copy     bool   // body via io.Copy
	CType    string // response Content-Type ("" = text/plain, "-" = none)
	Abort    bool   // the handler breaks the response off after its first part
	Late     bool   // header map changed after WriteHeader
	Declare  bool
	Interim  int
	Entity   int // bodiless response that declares this entity length (HEAD, 304); 0 = none
}

func (c c14Case) String() string {
	return fmt.Sprintf("L=%d pos=%s %s status=%d writes=%v flush=%s declare=%v interim=%d entity=%d status2=%d trailer=%v%s emptywrite=%v%s asks-upgrade=%v copy=%v ctype=%q abort=%v late-header=%v%s", c.L, c.Position, c.Method, c.Status, c.Comp, c.Flush, c.Declare, c.Interim, c.Entity, c.Status2, c.Trailer, map[bool]string{true: "(set before the first write)"}[c.TrEarly], c.Empty, map[bool]string{true: fmt.Sprintf("(then header changes and WriteHeader(%d))", c.EmptyTh)}[c.EmptyTh != 0], c.AskUp, c.Copy, c.CType, c.Abort, c.Late, map[bool]string{true: " header-changes-and-WriteHeader(500)-after-the-body"}[c.After])
}

func (c c14Case) prog() *hprog {
	ct := c.CType
	if ct == "" {
		ct = "text/plain"
	}
	hd := []wire.HeaderLine{{"X-Prog", "1"}}
	if ct != "-" {
		hd = append([]wire.HeaderLine{{"Content-Type", ct}}, hd...)
	}
	if c.Entity > 0 {
		hd = append(hd, wire.HeaderLine{"Content-Length", fmt.Sprint(c.Entity)})
	}
	return &hprog{Status: c.Status, Header: hd, Parts: partsOf(c.Comp, 5),
		FlushFirst: c.Flush == "first", FlushEach: c.Flush == "each", DeclareLen: c.Declare, Interim: c.Interim, Status2: c.Status2, Trailer: c.Trailer, TrailerEarly: c.TrEarly, EmptyWrite: c.Empty, EmptyThen: c.EmptyTh,
		FlushAfter: map[bool]int{true: 1}[c.Flush == "after-first"], Copy: c.Copy, AbortAfter: map[bool]int{true: 1}[c.Abort], LateHeader: c.Late, AfterBody: c.After}
}

func c14Total(comp []int) int {
	n := 0
	for _, c := range comp {
		n += c
	}
	return n
}

// judge one response-direction case: with = through size_limit, without = same chain minus size_limit
func c14JudgeResponse(c c14Case, with, without wire.Response) (string, string) {
	total := c14Total(c.Comp)
	wantBody := c.Method != "HEAD" && c.Status != 204 && c.Status != 304
	if c.Method == "HEAD" {
		// what a handler writes in answer to a HEAD request is discarded by net/http: no body
		// byte travels, the exchange is within every limit whatever the handler wrote (the
		// balancer's own error answers are written with http.Error, whatever the method)
		total = 0
	}
	if c.Status == 204 || c.Status == 304 {
		// likewise behind a status that has no body: net/http refuses the handler's writes
		total = 0
	}
	if c.Abort {
		// the handler broke off mid-body: what reaches the client must not look like a complete
		// response (unless it is the 413)
		if with.Err == "" && with.Status != 413 && without.Err != "" {
			return "C14/aborted-response-delivered-as-complete", fmt.Sprintf("the handler aborted after its first part; without the plugin the client sees a broken response (%s), through it a well-formed one (status %d, %d body bytes)", without.Err, with.Status, len(with.Body))
		}
		return "", ""
	}
	if without.Err != "" {
		return "tool", "reference exchange failed: " + without.Err
	}
	if total <= c.L {
		// within limits: must be untouched
		if with.Err != "" {
			return "C14/within-limit/response-broken", "the response could not be read: " + with.Err
		}
		if len(with.Interim) != len(without.Interim) {
			return "C14/within-limit/interim-response-lost", fmt.Sprintf("the handler's %d interim response(s) arrive as %d through size_limit", len(without.Interim), len(with.Interim))
		}
		// (the status is the origin program's, not only what the same chain without size_limit
		// makes of it: a defect in a plugin both chains share would cancel out)
		if origin := map[bool]int{true: 200, false: c.Status}[c.Status == 0]; !strings.HasPrefix(c.Position, "proxy-") && with.Status != origin && without.Status != origin {
			return "C14/within-limit/status-differs-from-the-origins", fmt.Sprintf("the handler answered %d; the client received %d through the chain (and %d through the same chain without size_limit)", origin, with.Status, without.Status)
		}
		if with.Status != without.Status {
			bodyless := "with-body"
			if !wantBody || total == 0 {
				bodyless = "bodiless"
			}
			return "C14/within-limit/status-changed/" + bodyless, fmt.Sprintf("status %d became %d", without.Status, with.Status)
		}
		if !bytes.Equal(with.Body, without.Body) {
			return "C14/within-limit/body-changed", fmt.Sprintf("body %q became %q", without.Body, with.Body)
		}
		a, b := wire.EndToEnd(without.Header, "date"), wire.EndToEnd(with.Header, "date")
		if !reflect.DeepEqual(a, b) {
			add, del := diff(a, b)
			return "C14/within-limit/headers-changed", fmt.Sprintf("headers added %v missing %v", add, del)
		}
		if fmt.Sprint(with.Trailer) != fmt.Sprint(without.Trailer) {
			return "C14/within-limit/trailer-changed", fmt.Sprintf("trailer %v became %v", without.Trailer, with.Trailer)
		}
		return "", ""
	}
	// over the limit
	if len(with.Body) > c.L && with.Status != 413 {
		return "C14/over-limit/client-received-more-than-limit", fmt.Sprintf("client received %d body bytes with limit %d", len(with.Body), c.L)
	}
	first := 0
	if len(c.Comp) > 0 {
		first = c.Comp[0]
	}
	// (behind the reverse proxy a response of undeclared length has its header flushed by the
	// proxy before the first body byte: the status is already sent when the excess shows)
	streamedByProxy := strings.HasPrefix(c.Position, "proxy-") && !c.Declare
	if strings.HasPrefix(c.Position, "proxy-") && first > 32*1024 {
		first = 32 * 1024 // the proxy hands the body on in pieces of its 32 KiB copy buffer
	}
	// (a zero-length first write commits the header like any other write)
	if wantBody && first > c.L && c.Flush != "first" && c.Flush != "slow" && !c.Empty && !streamedByProxy && with.Status != 413 {
		return "C14/over-limit/not-413-although-nothing-was-sent", fmt.Sprintf("the first write alone (%d bytes) exceeds the limit %d before anything was sent, but the client got status %d", first, c.L, with.Status)
	}
	// a declared length gives the excess away before anything is sent, whenever the header goes
	// out: with the first write, with an earlier flush of the handler, or with the flush by
	// which the reverse proxy hands on the head of a response that is slow to produce its body
	if wantBody && c.Declare && with.Status != 413 {
		return "C14/over-limit/declared-length-not-413", fmt.Sprintf("the response declares Content-Length %d against the limit %d (flush policy %q), but the client got status %d and %d body bytes", total, c.L, c.Flush, with.Status, len(with.Body))
	}
	if with.Status == 413 && with.Err != "" {
		return "C14/over-limit/413-response-broken", "the 413 response is malformed for a real client: " + with.Err
	}
	return "", ""
}

func TestVerifC14(t *testing.T) {
	r := vres.Open("C14", "W")
	defer func() {
		if err := r.Close(); err != nil {
			t.Fatal(err)
		}
	}()
	th := vres.Thorough()
	maxL := 3
	if th {
		maxL = 10
	}
	shard, shards := shardOf()
	start := time.Now()
	var evals int64
	var outs vres.Outcomes
	var sample interface{}
	const dl = 15 * time.Second
	idx := 0
	for L := 1; L <= maxL; L++ {
		for _, pos := range []string{"alone", "outermost", "innermost"} {
			idx++
			if idx%shards != shard {
				continue
			}
			psWith, err := newProgServer(c14Positions[pos](sizeLimitCfg(L, L), true))
			if err != nil {
				t.Fatal(err)
			}
			psWithout, err := newProgServer(c14Positions[pos](sizeLimitCfg(L, L), false))
			if err != nil {
				t.Fatal(err)
			}
			ew, eo := &exch{addr: psWith.addr}, &exch{addr: psWithout.addr}
			run := func(c c14Case) {
				p := c.prog()
				req := &wire.Request{Method: c.Method, Target: "/p", Header: []wire.HeaderLine{{"Host", "x.test"}}, NoBody: true}
				if c.AskUp {
					req.Header = append(req.Header, wire.HeaderLine{"Connection", "Upgrade"}, wire.HeaderLine{"Upgrade", "h2c"})
				}
				psWith.set(p)
				rw := ew.do(req, dl)
				psWithout.set(p)
				ro := eo.do(req, dl)
				evals++
				key, what := c14JudgeResponse(c, rw, ro)
				if key == "tool" {
					t.Fatalf("%s: %s", c, what)
				}
				outs.Add(fmt.Sprintf("%d->%d/%s/%v", c.Status, rw.Status, c.Flush, key == ""))
				if sample == nil && c.Status == 404 && len(c.Comp) == 2 {
					sample = map[string]interface{}{"case": c.String(), "status_received": rw.Status, "body_received": string(rw.Body)}
				}
				if key != "" {
					r.Violate(key, fmt.Sprintf("%s: %s", c, what), c14Total(c.Comp)*10+len(c.Comp), map[string]interface{}{"engine": "W", "test": "TestVerifC14", "mount": "chain", "case": c})
				}
			}
			for _, method := range []string{"GET", "HEAD"} {
				for _, status := range []int{0, 200, 201, 204, 301, 304, 404, 500} {
					sizes := []int{0, L - 1, L, L + 1, L + 3}
					if status == 204 || status == 304 {
						sizes = []int{0}
					}
					seen := map[int]bool{}
					for _, n := range sizes {
						if n < 0 || seen[n] {
							continue
						}
						seen[n] = true
						for _, comp := range compositions(n) {
							for _, fl := range []string{"none", "first", "each", "after-first"} {
								if n == 0 && fl == "each" || len(comp) < 2 && fl == "after-first" {
									continue
								}
								for _, decl := range []bool{false, true} {
									if decl && (len(comp) > 2 || fl != "none" && n <= L) {
										continue
									}
									run(c14Case{L: L, Position: pos, Method: method, Status: status, Comp: comp, Flush: fl, Declare: decl})
								}
							}
						}
					}
				}
			}
			// interim (1xx) responses before the final one
			for _, method := range []string{"GET", "HEAD"} {
				for _, status := range []int{0, 200, 204, 302, 404, 500} {
					for _, n := range []int{0, 1, L} {
						if status == 204 && n != 0 {
							continue
						}
						comp := []int{}
						if n > 0 {
							comp = []int{n}
						}
						for _, ic := range []int{103, 100, 102, 199} {
							if ic != 103 && (method == "HEAD" || status == 0 || status == 302) {
								continue
							}
							run(c14Case{L: L, Position: pos, Method: method, Status: status, Comp: comp, Flush: "none", Interim: ic})
						}
					}
				}
			}
			// a superfluous second WriteHeader: the first one counts
			for _, st := range [][2]int{{404, 200}, {200, 500}, {204, 200}, {301, 404}} {
				for _, n := range []int{0, 1, L, L + 1} {
					if st[0] == 204 && n != 0 {
						continue
					}
					comp := []int{}
					if n > 0 {
						comp = []int{n}
					}
					run(c14Case{L: L, Position: pos, Method: "GET", Status: st[0], Status2: st[1], Comp: comp, Flush: "none"})
				}
			}
			// a request that asks for a protocol upgrade which is declined: an ordinary exchange, the
			// limits apply
			for _, st := range []int{200, 404} {
				for _, n := range []int{0, L, L + 1, L + 3} {
					comp := []int{}
					if n > 0 {
						comp = []int{n}
					}
					for _, decl := range []bool{false, true} {
						run(c14Case{L: L, Position: pos, Method: "GET", Status: st, Comp: comp, Flush: "none", Declare: decl, AskUp: true})
					}
				}
			}
			// bodies handed over with io.Copy, other content types, handlers that abort mid-body
			for _, n := range []int{L, L + 1, L + 3} {
				for _, st := range []int{0, 200, 404} {
					run(c14Case{L: L, Position: pos, Method: "GET", Status: st, Comp: []int{n}, Flush: "none", Copy: true})
				}
				for _, ct := range []string{"text/event-stream", "application/octet-stream", "application/json", "-"} {
					for _, fl := range []string{"none", "each"} {
						run(c14Case{L: L, Position: pos, Method: "GET", Status: 200, Comp: []int{n}, Flush: fl, CType: ct})
					}
				}
			}
			for _, comp := range [][]int{{1, 1}, {L, 1}, {1, L + 2}} {
				for _, fl := range []string{"none", "each"} {
					for _, decl := range []bool{false, true} {
						run(c14Case{L: L, Position: pos, Method: "GET", Status: 200, Comp: comp, Flush: fl, Declare: decl, Abort: true})
					}
				}
			}
			// header map changed after WriteHeader: not part of the response
			for _, st := range []int{200, 404, 204} {
				for _, n := range []int{0, 1, L} {
					if st == 204 && n != 0 {
						continue
					}
					comp := []int{}
					if n > 0 {
						comp = []int{n}
					}
					for _, fl := range []string{"none", "first"} {
						run(c14Case{L: L, Position: pos, Method: "GET", Status: st, Comp: comp, Flush: fl, Late: true})
						// ... and after the body, with the status left implicit
						if st == 200 {
							run(c14Case{L: L, Position: pos, Method: "GET", Status: 0, Comp: comp, Flush: fl, After: true})
						}
					}
				}
			}
			// response trailers and a zero-length first write
			for _, st := range []int{0, 200, 404} {
				for _, n := range []int{0, 1, L, L + 1} {
					comp := []int{}
					if n > 0 {
						comp = []int{n}
					}
					for _, fl := range []string{"none", "first"} {
						if n > 0 {
							// (a trailer needs a body to travel behind: without one net/http itself drops it)
							run(c14Case{L: L, Position: pos, Method: "GET", Status: st, Comp: comp, Flush: fl, Trailer: true})
							if st != 0 {
								run(c14Case{L: L, Position: pos, Method: "GET", Status: st, Comp: comp, Flush: fl, Trailer: true, TrEarly: true})
							}
						}
						run(c14Case{L: L, Position: pos, Method: "GET", Status: st, Comp: comp, Flush: fl, Empty: true})
						run(c14Case{L: L, Position: pos, Method: "GET", Status: st, Comp: comp, Flush: fl, Empty: true, EmptyTh: 404})
						run(c14Case{L: L, Position: pos, Method: "GET", Status: st, Comp: comp, Flush: fl, Empty: true, EmptyTh: 204})
					}
				}
			}
			// bodiless responses that declare the length of the entity they stand for (what every
			// real HEAD / 304 answer does): no body byte travels, so they are within any limit
			for _, ms := range []struct {
				m string
				s int
			}{{"HEAD", 200}, {"HEAD", 0}, {"HEAD", 404}, {"GET", 304}, {"HEAD", 304}} {
				for _, n := range []int{L, L + 1, 100 * L} {
					for _, fl := range []string{"none", "first"} {
						run(c14Case{L: L, Position: pos, Method: ms.m, Status: ms.s, Comp: []int{}, Flush: fl, Entity: n})
					}
				}
			}
			// a handler that writes a body behind a status that has none (204, 304): net/http refuses
			// those writes, nothing travels - an exchange within any limit, whatever is "written"
			for _, st := range []int{204, 304} {
				for _, n := range []int{1, L, L + 1, 3 * L} {
					run(c14Case{L: L, Position: pos, Method: "GET", Status: st, Comp: []int{n}, Flush: "none"})
				}
			}
			// request direction
			for _, n := range []int{0, L - 1, L, L + 1, 4 * L} {
				for _, chunked := range []bool{false, true} {
					for _, method := range []string{"POST", "PUT", "PATCH", "DELETE", "GET", "OPTIONS", "PURGE"} {
						if method != "POST" && (n == 0 || n == L-1) {
							continue
						}
						body := pattern(n, 9)
						req := &wire.Request{Method: method, Target: "/u", Header: []wire.HeaderLine{{"Host", "x.test"}}, Body: body, Chunked: chunked, ChunkSz: 2}
						if n == 4*L {
							// the far-too-large upload also asks for an upgrade (declined): still bounded
							req.Header = append(req.Header, wire.HeaderLine{"Connection", "Upgrade"}, wire.HeaderLine{"Upgrade", "h2c"})
						}
						psWith.set(&hprog{Status: 200, Parts: [][]byte{[]byte("k")}})
						rw := ew.do(req, dl)
						calls, read, rerr := psWith.stats()
						evals++
						desc := fmt.Sprintf("L=%d pos=%s %s %d bytes chunked=%v", L, pos, method, n, chunked)
						outs.Add(fmt.Sprintf("upload/%v/%d", n > L, rw.Status))
						switch {
						case read > L:
							r.Violate("C14/request/backend-read-more-than-limit", fmt.Sprintf("%s: the handler behind size_limit read %d bytes", desc, read), n, nil)
						case n > L && !chunked && (rw.Status != 413 || calls != 0):
							r.Violate("C14/request/declared-oversize-not-rejected-up-front", fmt.Sprintf("%s: status %d, handler invoked %d times", desc, rw.Status, calls), n, nil)
						case n <= L && (rw.Status != 200 || read != n || rerr != "" || string(rw.Body) != "k"):
							r.Violate("C14/request/within-limit-upload-disturbed", fmt.Sprintf("%s: status %d, handler read %d bytes (err %q), body %q", desc, rw.Status, read, rerr, rw.Body), n, nil)
						}
					}
				}
			}
			ew.close()
			eo.close()
			psWith.srv.Close()
			psWithout.srv.Close()
		}
	}
	// different limits for the two directions (each way round), and limits left to their
	// documented defaults (10 MiB up, 50 MiB down): a slip that uses one direction's limit for
	// the other is invisible while both are equal
	for _, lim := range [][2]int{{3, 15}, {15, 3}} {
		idx++
		if idx%shards != shard {
			continue
		}
		rq, rs := lim[0], lim[1]
		ps, err := newProgServer([]config.PluginConfig{sizeLimitCfg(rq, rs)})
		if err != nil {
			t.Fatal(err)
		}
		e := &exch{addr: ps.addr}
		for _, n := range []int{3, 4, 15, 16} {
			for _, chunked := range []bool{false, true} {
				ps.set(&hprog{Status: 200, Parts: [][]byte{[]byte("k")}})
				rw := e.do(&wire.Request{Method: "POST", Target: "/u", Header: []wire.HeaderLine{{"Host", "x.test"}}, Body: pattern(n, 9), Chunked: chunked, ChunkSz: 2}, dl)
				calls, read, _ := ps.stats()
				evals++
				desc := fmt.Sprintf("max_request_body=%d max_response_body=%d POST %d bytes chunked=%v", rq, rs, n, chunked)
				outs.Add(fmt.Sprintf("asym-upload/%v/%d", n > rq, rw.Status))
				switch {
				case read > rq:
					r.Violate("C14/request/backend-read-more-than-limit", fmt.Sprintf("%s: the handler behind size_limit read %d bytes", desc, read), n, nil)
				case n > rq && !chunked && (rw.Status != 413 || calls != 0):
					r.Violate("C14/request/declared-oversize-not-rejected-up-front", fmt.Sprintf("%s: status %d, handler invoked %d times", desc, rw.Status, calls), n, nil)
				case n <= rq && (rw.Status != 200 || read != n):
					r.Violate("C14/request/within-limit-upload-disturbed", fmt.Sprintf("%s: status %d, handler read %d bytes", desc, rw.Status, read), n, nil)
				}
			}
			ps.set(&hprog{Status: 200, Header: []wire.HeaderLine{{"Content-Type", "text/plain"}}, Parts: [][]byte{pattern(n, 5)}})
			rw := e.do(&wire.Request{Method: "GET", Target: "/p", Header: []wire.HeaderLine{{"Host", "x.test"}}, NoBody: true}, dl)
			evals++
			desc := fmt.Sprintf("max_request_body=%d max_response_body=%d response of %d bytes", rq, rs, n)
			outs.Add(fmt.Sprintf("asym-response/%v/%d", n > rs, rw.Status))
			if n <= rs && (rw.Status != 200 || len(rw.Body) != n) {
				r.Violate("C14/within-limit/response-disturbed", fmt.Sprintf("%s: status %d, %d body bytes", desc, rw.Status, len(rw.Body)), n, nil)
			}
			if n > rs && rw.Status != 413 {
				r.Violate("C14/over-limit/not-413-although-nothing-was-sent", fmt.Sprintf("%s (one write): status %d, %d body bytes", desc, rw.Status, len(rw.Body)), n, nil)
			}
		}
		e.close()
		ps.srv.Close()
	}
	for _, which := range []string{"request-default", "response-default"} {
		idx++
		if idx%shards != shard {
			continue
		}
		pc := config.PluginConfig{Name: "size_limit", Config: map[string]interface{}{"max_response_body": 1024}}
		if which == "response-default" {
			pc = config.PluginConfig{Name: "size_limit", Config: map[string]interface{}{"max_request_body": 1024}}
		}
		ps, err := newProgServer([]config.PluginConfig{pc})
		if err != nil {
			r.Violate("C14/valid-configuration-rejected", fmt.Sprintf("size_limit with only one of its two keys set (%s): %v", which, err), 1, nil)
			continue
		}
		declared := func(n int) (int, int) {
			ps.set(&hprog{Status: 200, Parts: [][]byte{[]byte("k")}})
			c, err := net.DialTimeout("tcp", ps.addr, 5*time.Second)
			if err != nil {
				return 0, 0
			}
			defer c.Close()
			c.SetDeadline(time.Now().Add(10 * time.Second))
			// the declared length is all that matters: the body is never sent
			fmt.Fprintf(c, "POST /u HTTP/1.1\r\nHost: x.test\r\nContent-Length: %d\r\nConnection: close\r\nExpect: 100-continue\r\n\r\n", n)
			br := bufio.NewReader(c)
			line, _ := br.ReadString('\n')
			st := 0
			if len(line) >= 12 {
				fmt.Sscanf(line[9:12], "%d", &st)
			}
			calls, _, _ := ps.stats()
			return st, calls
		}
		if which == "request-default" {
			const mib = 1 << 20
			for _, n := range []int{10*mib + 1, 11 * mib} {
				st, calls := declared(n)
				evals++
				outs.Add(fmt.Sprintf("default-upload/%d", st))
				if st != 413 || calls != 0 {
					r.Violate("C14/request/declared-oversize-not-rejected-up-front/default-limit", fmt.Sprintf("max_request_body left to its documented default (10 MiB): a POST declaring %d bytes got status %d, handler invoked %d times", n, st, calls), 1, nil)
				}
			}
			if st, _ := declared(10 * mib); st == 413 {
				r.Violate("C14/request/within-limit-upload-disturbed/default-limit", "max_request_body left to its documented default (10 MiB): a POST declaring exactly 10 MiB was rejected", 1, nil)
			}
		}
		ps.srv.Close()
	}
	// several size_limit instances in one process - coexisting chains, two entries in one chain,
	// an instance that leaves a limit to its default built after one that set it: every
	// instance enforces its own limits whatever was built before or after it
	idx++
	if idx%shards == shard {
		type inst struct {
			name   string
			chain  []config.PluginConfig
			rq, rs int // effective limits; 0 = documented default (far above every body used here)
			ps     *progServer
		}
		hdrs := config.PluginConfig{Name: "headers", Config: map[string]interface{}{"set": map[string]interface{}{"X-App": "Helios"}}}
		only := func(key string, v int) config.PluginConfig {
			return config.PluginConfig{Name: "size_limit", Config: map[string]interface{}{key: v}}
		}
		insts := []*inst{
			{name: "A(4/4)", chain: []config.PluginConfig{sizeLimitCfg(4, 4)}, rq: 4, rs: 4},
			{name: "B(20/30)", chain: []config.PluginConfig{sizeLimitCfg(20, 30)}, rq: 20, rs: 30},
			{name: "C(response 8 only)", chain: []config.PluginConfig{only("max_response_body", 8)}, rs: 8},
			{name: "D(request 6 only)", chain: []config.PluginConfig{only("max_request_body", 6)}, rq: 6},
			{name: "E(40/40 outside 10/12)", chain: []config.PluginConfig{sizeLimitCfg(40, 40), hdrs, sizeLimitCfg(10, 12)}, rq: 10, rs: 12},
			{name: "F(9/11 outside 50/50)", chain: []config.PluginConfig{sizeLimitCfg(9, 11), hdrs, sizeLimitCfg(50, 50)}, rq: 9, rs: 11},
			{name: "G(no limits given)", chain: []config.PluginConfig{{Name: "size_limit", Config: map[string]interface{}{}}}},
		}
		// all of them exist before the first exchange, and are then used in both orders
		for _, in := range insts {
			ps, err := newProgServer(in.chain)
			if err != nil {
				t.Fatal(err)
			}
			in.ps = ps
		}
		order := append([]*inst{}, insts...)
		for i := len(insts) - 1; i >= 0; i-- {
			order = append(order, insts[i])
		}
		for _, in := range order {
			e := &exch{addr: in.ps.addr}
			upl := []int{3, 4, 5, 6, 7, 9, 10, 11, 20, 21, 60}
			for _, n := range upl {
				for _, chunked := range []bool{false, true} {
					in.ps.set(&hprog{Status: 200, Parts: [][]byte{[]byte("k")}})
					rw := e.do(&wire.Request{Method: "POST", Target: "/u", Header: []wire.HeaderLine{{"Host", "x.test"}}, Body: pattern(n, 9), Chunked: chunked, ChunkSz: 3}, dl)
					calls, read, _ := in.ps.stats()
					evals++
					over := in.rq > 0 && n > in.rq
					desc := fmt.Sprintf("instance %s among %d coexisting size_limit instances: POST %d bytes chunked=%v", in.name, len(insts), n, chunked)
					outs.Add(fmt.Sprintf("multi-upload/%v/%d", over, rw.Status))
					switch {
					case over && read > in.rq:
						r.Violate("C14/instances/request/backend-read-more-than-limit", fmt.Sprintf("%s: the handler read %d bytes against max_request_body %d", desc, read, in.rq), n, nil)
					case over && !chunked && (rw.Status != 413 || calls != 0):
						r.Violate("C14/instances/request/declared-oversize-not-rejected-up-front", fmt.Sprintf("%s: status %d, handler invoked %d times (max_request_body %d)", desc, rw.Status, calls, in.rq), n, nil)
					case !over && (rw.Status != 200 || read != n || string(rw.Body) != "k"):
						r.Violate("C14/instances/request/within-limit-upload-disturbed", fmt.Sprintf("%s: status %d, handler read %d bytes, body %q (its own max_request_body: %d, 0 = default 10 MiB)", desc, rw.Status, read, rw.Body, in.rq), n, nil)
					}
				}
			}
			for _, n := range []int{4, 5, 8, 9, 11, 12, 13, 30, 31, 60} {
				in.ps.set(&hprog{Status: 200, Header: []wire.HeaderLine{{"Content-Type", "text/plain"}}, Parts: [][]byte{pattern(n, 5)}})
				rw := e.do(&wire.Request{Method: "GET", Target: "/p", Header: []wire.HeaderLine{{"Host", "x.test"}}, NoBody: true}, dl)
				evals++
				over := in.rs > 0 && n > in.rs
				desc := fmt.Sprintf("instance %s among %d coexisting size_limit instances: response of %d bytes in one write", in.name, len(insts), n)
				outs.Add(fmt.Sprintf("multi-response/%v/%d", over, rw.Status))
				if !over && (rw.Status != 200 || len(rw.Body) != n) {
					r.Violate("C14/instances/within-limit/response-disturbed", fmt.Sprintf("%s: status %d, %d body bytes (its own max_response_body: %d, 0 = default 50 MiB)", desc, rw.Status, len(rw.Body), in.rs), n, nil)
				}
				if over && rw.Status != 413 {
					r.Violate("C14/instances/over-limit/not-413-although-nothing-was-sent", fmt.Sprintf("%s: status %d, %d body bytes (max_response_body %d)", desc, rw.Status, len(rw.Body), in.rs), n, nil)
				}
			}
			e.close()
		}
		for _, in := range insts {
			in.ps.srv.Close()
		}
	}
	// mounting (a): the program is the backend behind the real balancer and ReverseProxy
	seqNo := 0
	// small limits exhaustively; two large ones around the proxy's 32 KiB copy buffer, where a
	// body crosses buffer boundaries before it crosses the limit
	var proxyLs []int
	for L := 1; L <= maxL; L++ {
		proxyLs = append(proxyLs, L)
	}
	proxyLs = append(proxyLs, 32*1024, 64*1024+1)
	for _, L := range proxyLs {
		idx++
		if idx%shards != shard {
			continue
		}
		for _, pos := range []string{"alone", "innermost", "gzip-outside", "gzip-inside"} {
			be := wire.NewBackend("b0")
			var offer []wire.HeaderLine
			if strings.HasPrefix(pos, "gzip-") {
				if L > 64 {
					continue
				}
				offer = []wire.HeaderLine{{"Accept-Encoding", "gzip"}}
			}
			mk := func(with bool) *helios {
				cfg := baseConfig("round_robin", be.URL())
				cfg.Plugins = config.PluginsConfig{Enabled: true, Chain: c14Positions[pos](sizeLimitCfg(L, L), with)}
				if len(cfg.Plugins.Chain) == 0 {
					cfg.Plugins.Enabled = false
				}
				h, err := startHelios(cfg)
				if err != nil {
					t.Fatal(err)
				}
				return h
			}
			hw, ho := mk(true), mk(false)
			ew, eo := &exch{addr: hw.addr}, &exch{addr: ho.addr}
			// ("head", "Head": method names are case-sensitive tokens; these are extension methods,
			// not HEAD, and their answers carry a body like any other)
			for _, method := range []string{"GET", "HEAD", "head", "Head"} {
				for _, status := range []int{200, 204, 301, 304, 404, 500} {
					sizes := []int{0, L - 1, L, L + 1, L + 3}
					if status == 204 || status == 304 {
						sizes = []int{0}
					}
					seen := map[int]bool{}
					for _, n := range sizes {
						if n < 0 || seen[n] {
							continue
						}
						seen[n] = true
						for _, fr := range []string{"length", "flush"} {
							if n == 0 && fr == "flush" {
								continue
							}
							comp := []int{}
							if n > 0 {
								comp = []int{n}
							}
							sc := &wire.Script{Status: status, Header: []wire.HeaderLine{{"Content-Type", "text/plain"}}, Parts: partsOf(comp, 5), DeclareLen: fr == "length", FlushEach: fr == "flush"}
							if n <= 1 && fr == "length" {
								sc.Interim = 103 // the short cases also with an interim response first
							}
							if status == 301 {
								sc.Header = append(sc.Header, wire.HeaderLine{"Location", "/elsewhere"})
							}
							req := &wire.Request{Method: method, Target: "/p", Header: append([]wire.HeaderLine{{"Host", "x.test"}}, offer...), NoBody: true}
							be.Next(sc)
							rw := ew.do(req, dl)
							be.Next(sc)
							ro := eo.do(req, dl)
							be.Next(nil)
							evals++
							c := c14Case{L: L, Position: "proxy-" + pos, Method: method, Status: status, Comp: comp, Flush: fr, Declare: fr == "length"}
							if offer != nil && n <= L {
								// (what gzip makes of a body within the limit is C15's business: with the plugin
								// outside, size_limit sees the plain bytes; inside, the compressed ones)
								continue
							}
							key, what := c14JudgeResponse(c, rw, ro)
							if key == "tool" {
								t.Fatalf("%s: %s", c, what)
							}
							outs.Add(fmt.Sprintf("proxy/%d->%d/%s/%v", status, rw.Status, fr, key == ""))
							if key != "" {
								r.Violate(strings.Replace(key, "C14/", "C14/proxied/", 1), fmt.Sprintf("%s: %s", c, what), n*10+1, map[string]interface{}{"engine": "W", "test": "TestVerifC14", "mount": "proxy", "case": c})
							}
						}
					}
				}
			}
			// responses that declare their length and are slow to produce their body: the proxy
			// hands the head on (a flush through the chain) before the first body byte arrives
			for _, status := range []int{200, 404} {
				for _, n := range []int{1, L, L + 1, L + 3} {
					sc := &wire.Script{Status: status, Header: []wire.HeaderLine{{"Content-Type", "text/plain"}}, Parts: partsOf([]int{n}, 5), DeclareLen: true, FlushFirst: true, HeadDelay: 250 * time.Millisecond}
					req := &wire.Request{Method: "GET", Target: "/p", Header: []wire.HeaderLine{{"Host", "x.test"}}, NoBody: true}
					be.Next(sc)
					rw := ew.do(req, dl)
					be.Next(sc)
					ro := eo.do(req, dl)
					be.Next(nil)
					evals++
					c := c14Case{L: L, Position: "proxy-" + pos, Method: "GET", Status: status, Comp: []int{n}, Flush: "slow", Declare: true}
					key, what := c14JudgeResponse(c, rw, ro)
					if key == "tool" {
						t.Fatalf("%s: %s", c, what)
					}
					outs.Add(fmt.Sprintf("proxy-slow/%d->%d/%v", status, rw.Status, key == ""))
					if key != "" {
						r.Violate(strings.Replace(key, "C14/", "C14/proxied/", 1), fmt.Sprintf("%s: %s", c, what), n*10+2, map[string]interface{}{"engine": "W", "test": "TestVerifC14", "mount": "proxy", "case": c})
					}
				}
			}
			// requests that ask for an upgrade the backend declines, through the proxy
			for _, n := range []int{L, L + 1, L + 3} {
				sc := &wire.Script{Status: 200, Header: []wire.HeaderLine{{"Content-Type", "text/plain"}}, Parts: partsOf([]int{n}, 5), DeclareLen: true}
				req := &wire.Request{Method: "GET", Target: "/p", Header: []wire.HeaderLine{{"Host", "x.test"}, {"Connection", "Upgrade"}, {"Upgrade", "h2c"}}, NoBody: true}
				be.Next(sc)
				rw := ew.do(req, dl)
				be.Next(sc)
				ro := eo.do(req, dl)
				be.Next(nil)
				evals++
				c := c14Case{L: L, Position: "proxy-" + pos, Method: "GET", Status: 200, Comp: []int{n}, Flush: "length", Declare: true, AskUp: true}
				key, what := c14JudgeResponse(c, rw, ro)
				if key == "tool" {
					t.Fatalf("%s: %s", c, what)
				}
				outs.Add(fmt.Sprintf("proxy-askup/%d/%v", rw.Status, key == ""))
				if key != "" {
					r.Violate(strings.Replace(key, "C14/", "C14/proxied/", 1), fmt.Sprintf("%s: %s", c, what), n*10+1, map[string]interface{}{"engine": "W", "test": "TestVerifC14", "mount": "proxy", "case": c})
				}
			}
			// HEAD / 304 answers declaring the entity's length, through the proxy
			for _, ms := range []struct {
				m string
				s int
			}{{"HEAD", 200}, {"HEAD", 404}, {"GET", 304}} {
				for _, n := range []int{L, L + 1, 100 * L} {
					sc := &wire.Script{Status: ms.s, Header: []wire.HeaderLine{{"Content-Type", "text/plain"}, {"Content-Length", fmt.Sprint(n)}}}
					req := &wire.Request{Method: ms.m, Target: "/p", Header: []wire.HeaderLine{{"Host", "x.test"}}, NoBody: true}
					be.Next(sc)
					rw := ew.do(req, dl)
					be.Next(sc)
					ro := eo.do(req, dl)
					be.Next(nil)
					evals++
					c := c14Case{L: L, Position: "proxy-" + pos, Method: ms.m, Status: ms.s, Comp: []int{}, Flush: "none", Entity: n}
					key, what := c14JudgeResponse(c, rw, ro)
					if key == "tool" {
						t.Fatalf("%s: %s", c, what)
					}
					outs.Add(fmt.Sprintf("proxy-entity/%d->%d/%v", ms.s, rw.Status, key == ""))
					if key != "" {
						r.Violate(strings.Replace(key, "C14/", "C14/proxied/", 1), fmt.Sprintf("%s: %s", c, what), 1, map[string]interface{}{"engine": "W", "test": "TestVerifC14", "mount": "proxy", "case": c})
					}
				}
			}
			// uploads through the proxy
			for _, n := range []int{L - 1, L, L + 1, 4 * L} {
				for _, chunked := range []bool{false, true} {
					if n < 0 {
						continue
					}
					// requests are tagged so that late accounting of an earlier (aborted) upload is not
					// attributed to this one
					seqNo++
					tag := fmt.Sprint(seqNo)
					req := &wire.Request{Method: "POST", Target: "/u", Header: []wire.HeaderLine{{"Host", "x.test"}, {"X-Verif-Seq", tag}}, Body: pattern(n, 9), Chunked: chunked, ChunkSz: 2}
					be.Next(&wire.Script{Status: 200, Parts: [][]byte{[]byte("k")}, DeclareLen: true})
					rw := ew.do(req, dl)
					be.WaitIdle()
					time.Sleep(5 * time.Millisecond)
					be.WaitIdle()
					evals++
					desc := fmt.Sprintf("L=%d pos=proxy-%s POST %d bytes chunked=%v", L, pos, n, chunked)
					got, contacted := 0, 0
					for _, s := range be.TakeSeen() {
						if s.Header.Get("X-Verif-Seq") == tag {
							got += len(s.Body)
							contacted++
						}
					}
					outs.Add(fmt.Sprintf("proxy-upload/%v/%d", n > L, rw.Status))
					switch {
					case got > L:
						r.Violate("C14/proxied/request/backend-received-more-than-limit", fmt.Sprintf("%s: the backend received %d body bytes", desc, got), n, nil)
					case n > L && !chunked && (rw.Status != 413 || contacted != 0):
						r.Violate("C14/proxied/request/declared-oversize-not-rejected-up-front", fmt.Sprintf("%s: status %d, backend contacted %d times", desc, rw.Status, contacted), n, nil)
					case n <= L && (rw.Status != 200 || got != n):
						r.Violate("C14/proxied/request/within-limit-upload-disturbed", fmt.Sprintf("%s: status %d, backend received %d bytes", desc, rw.Status, got), n, nil)
					}
				}
			}
			ew.close()
			eo.close()
			hw.stop()
			ho.stop()
			be.Close()
		}
	}
	r.AddScenario(vres.Scenario{Name: "size-limit-programs", Engine: "W", Evaluations: evals, Distinct: int64(outs.N()), Outcomes: outs.N(),
		Rule:       "each handler program / upload is one evaluation (exchanged with and without size_limit over real connections); distinct = distinct (status sent, status received, flush policy, verdict) classes",
		Bound:      fmt.Sprintf("limits 1..%d x 3 chain positions x GET/HEAD x 8 status modes x every write partition of bodies L-1,L,L+1,L+3 x 3 flush policies x declared length; uploads L-1,L,L+1,4L x 2 framings; both mountings", maxL),
		Exhaustive: true, Sample: sample, Extra: map[string]interface{}{"wall_s": time.Since(start).Seconds()}})
}

// C14 from non-initial states: the same bodiless / short programs, but after the chain has
// already served exchanges of other kinds (an Upgrade that hijacks the connection, an
// oversized response, an oversized upload, HEAD). A wrapper or buffer that survives an
// exchange must not leak state into the next one. Runs with GOMAXPROCS=1 so that object
// reuse (e.g. through a sync.Pool) is deterministic.
func TestVerifC14Hist(t *testing.T) {
	r := vres.Open("C14", "Hist")
	defer func() {
		if err := r.Close(); err != nil {
			t.Fatal(err)
		}
	}()
	shard, shards := shardOf()
	start := time.Now()
	var evals int64
	var outs vres.Outcomes
	const dl = 15 * time.Second
	const L = 3
	preludes := []string{"upgrade", "oversize-response", "oversize-upload", "head", "plain"}
	idx := 0
	for _, pos := range []string{"alone", "outermost", "innermost"} {
		for _, pre := range preludes {
			idx++
			if idx%shards != shard {
				continue
			}
			psWith, err := newProgServer(c14Positions[pos](sizeLimitCfg(L, L), true))
			if err != nil {
				t.Fatal(err)
			}
			psWithout, err := newProgServer(c14Positions[pos](sizeLimitCfg(L, L), false))
			if err != nil {
				t.Fatal(err)
			}
			prelude := func(ps *progServer) {
				for k := 0; k < 3; k++ {
					e := &exch{addr: ps.addr}
					switch pre {
					case "upgrade":
						ps.set(&hprog{Hijack: true})
						c, err := net.DialTimeout("tcp", ps.addr, 5*time.Second)
						if err == nil {
							c.SetDeadline(time.Now().Add(5 * time.Second))
							fmt.Fprintf(c, "GET /ws HTTP/1.1\r\nHost: x\r\nConnection: Upgrade\r\nUpgrade: websocket\r\n\r\n")
							io.ReadAll(c)
							c.Close()
						}
					case "oversize-response":
						ps.set(&hprog{Status: 200, Parts: [][]byte{pattern(L+5, 1)}})
						e.do(&wire.Request{Method: "GET", Target: "/p", Header: []wire.HeaderLine{{"Host", "x"}}, NoBody: true}, dl)
					case "oversize-upload":
						ps.set(&hprog{Status: 200, Parts: [][]byte{[]byte("k")}})
						e.do(&wire.Request{Method: "POST", Target: "/u", Header: []wire.HeaderLine{{"Host", "x"}}, Body: pattern(4*L, 2), Chunked: true, ChunkSz: 2}, dl)
					case "head":
						ps.set(&hprog{Status: 404, Parts: [][]byte{[]byte("nf")}})
						e.do(&wire.Request{Method: "HEAD", Target: "/p", Header: []wire.HeaderLine{{"Host", "x"}}, NoBody: true}, dl)
					default:
						ps.set(&hprog{Status: 200, Parts: [][]byte{[]byte("ok")}})
						e.do(&wire.Request{Method: "GET", Target: "/p", Header: []wire.HeaderLine{{"Host", "x"}}, NoBody: true}, dl)
					}
					e.close()
				}
			}
			for _, method := range []string{"GET", "HEAD"} {
				for _, status := range []int{0, 201, 204, 301, 304, 404, 500} {
					for _, n := range []int{0, 1, L} {
						if (status == 204 || status == 304) && n != 0 {
							continue
						}
						for _, fl := range []string{"none", "first"} {
							comp := []int{}
							if n > 0 {
								comp = []int{n}
							}
							c := c14Case{L: L, Position: pos + "/after-" + pre, Method: method, Status: status, Comp: comp, Flush: fl}
							// fresh connections: the prelude's state must be found through the chain, not through the connection
							prelude(psWith)
							prelude(psWithout)
							req := &wire.Request{Method: method, Target: "/p", Header: []wire.HeaderLine{{"Host", "x.test"}}, NoBody: true}
							ew, eo := &exch{addr: psWith.addr}, &exch{addr: psWithout.addr}
							psWith.set(c.prog())
							rw := ew.do(req, dl)
							psWithout.set(c.prog())
							ro := eo.do(req, dl)
							ew.close()
							eo.close()
							evals++
							key, what := c14JudgeResponse(c, rw, ro)
							if key == "tool" {
								t.Fatalf("%s: %s", c, what)
							}
							outs.Add(fmt.Sprintf("%s/%d->%d/%v", pre, status, rw.Status, key == ""))
							if key != "" {
								r.Violate(strings.Replace(key, "C14/", "C14/after-"+pre+"/", 1), fmt.Sprintf("%s: %s", c, what), n*10+len(pre), map[string]interface{}{"engine": "W", "test": "TestVerifC14Hist", "case": c, "prelude": pre})
							}
						}
					}
				}
			}
			psWith.srv.Close()
			psWithout.srv.Close()
		}
	}
	r.AddScenario(vres.Scenario{Name: "size-limit-after-other-exchanges", Engine: "W", Evaluations: evals, Distinct: int64(outs.N()), Outcomes: outs.N(),
		Rule:  "bodiless and short handler programs exchanged with and without size_limit right after three exchanges of another kind on the same chain (Upgrade/hijack, oversized response, oversized chunked upload, HEAD, plain); GOMAXPROCS=1; distinct = (prelude, status sent, status received, verdict) classes",
		Bound: "3 chain positions x 5 preludes x GET/HEAD x 7 status modes x bodies {0,1,L} x 2 flush policies", Exhaustive: true,
		Sample: map[string]interface{}{"prelude": "upgrade", "then": "GET status=204 writes=[]"}, Extra: map[string]interface{}{"wall_s": time.Since(start).Seconds()}})
}
