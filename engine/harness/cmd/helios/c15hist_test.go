package main

import (
	"fmt"
	"io"
	"net"
	"testing"
	"time"

	"github.com/0xReLogic/Helios/internal/zzverif/vres"
	"github.com/0xReLogic/Helios/internal/zzverif/wire"
)

// C15 from non-initial states: ordinary gzip-offered exchanges right after three exchanges of
// another kind on the same chain (an Upgrade that hijacks the connection, an aborted response,
// an over-cap response, a flushed stream, HEAD). A writer, buffer or flag that survives an
// exchange (pools, package-level state) only shows on the NEXT one. GOMAXPROCS=1 makes pool
// reuse deterministic.
func TestVerifC15Hist(t *testing.T) {
	r := vres.Open("C15", "Hist")
	defer func() {
		if err := r.Close(); err != nil {
			t.Fatal(err)
		}
	}()
	shard, shards := shardOf()
	start := time.Now()
	var evals int64
	var outs vres.Outcomes
	const dl = 20 * time.Second
	preludes := []string{"upgrade", "abort", "flushed-stream", "head", "already-encoded", "over-cap"}
	if !vres.Thorough() {
		preludes = preludes[:5]
	}
	idx := 0
	for _, pos := range []string{"gzip", "logging,gzip", "size_limit,gzip"} {
		for _, pre := range preludes {
			idx++
			if idx%shards != shard {
				continue
			}
			g := gzipCfg(5, 64, "text/")
			psWith, err := newProgServer(c15Positions[pos](g, true))
			if err != nil {
				t.Fatal(err)
			}
			psWithout, err := newProgServer(c15Positions[pos](g, false))
			if err != nil {
				t.Fatal(err)
			}
			get := func(ae bool) *wire.Request {
				rq := &wire.Request{Method: "GET", Target: "/p", Header: []wire.HeaderLine{{"Host", "x"}}, NoBody: true}
				if ae {
					rq.Header = append(rq.Header, wire.HeaderLine{"Accept-Encoding", "gzip"})
				}
				return rq
			}
			prelude := func(ps *progServer) {
				for k := 0; k < 3; k++ {
					e := &exch{addr: ps.addr}
					switch pre {
					case "upgrade":
						ps.set(&hprog{Hijack: true})
						c, err := net.DialTimeout("tcp", ps.addr, 5*time.Second)
						if err == nil {
							c.SetDeadline(time.Now().Add(5 * time.Second))
							fmt.Fprintf(c, "GET /ws HTTP/1.1\r\nHost: x\r\nConnection: Upgrade\r\nUpgrade: websocket\r\nAccept-Encoding: gzip\r\n\r\n")
							io.ReadAll(c)
							c.Close()
						}
					case "abort":
						ps.set(&hprog{Status: 200, Header: []wire.HeaderLine{{"Content-Type", "text/html"}}, Parts: [][]byte{c15Payload("text", 3000), c15Payload("text", 3000)}, AbortAfter: 1})
						e.do(get(true), dl)
					case "flushed-stream":
						ps.set(&hprog{Status: 200, Header: []wire.HeaderLine{{"Content-Type", "text/html"}}, Parts: [][]byte{c15Payload("text", 300), c15Payload("text", 300)}, FlushEach: true})
						e.do(get(true), dl)
					case "head":
						ps.set(&hprog{Status: 404, Header: []wire.HeaderLine{{"Content-Type", "text/html"}}, Parts: [][]byte{c15Payload("text", 500)}})
						rq := get(true)
						rq.Method = "HEAD"
						e.do(rq, dl)
					case "already-encoded":
						ps.set(&hprog{Status: 200, Header: []wire.HeaderLine{{"Content-Type", "text/html"}, {"Content-Encoding", "br"}}, Parts: [][]byte{c15Payload("text", 500)}})
						e.do(get(true), dl)
					case "over-cap":
						ps.set(&hprog{Status: 200, Header: []wire.HeaderLine{{"Content-Type", "text/html"}}, Parts: [][]byte{c15Payload("text", gzipCap+1)}})
						e.do(get(true), dl)
					}
					e.close()
				}
			}
			for _, st := range []int{0, 201, 404, 204} {
				for _, sz := range []int{0, 10, 70, 5000} {
					if st == 204 && sz != 0 {
						continue
					}
					for _, ae := range []string{"gzip", "-"} {
						for _, decl := range []bool{false, true} {
							c := c15Case{Pos: pos + "/after-" + pre, Level: 5, Min: 64, AE: ae, CType: "text/html", Size: sz, Payload: "text", Status: st, Declare: decl, Method: "GET", Writes: 1}
							prelude(psWith)
							prelude(psWithout)
							p, plain, pe := c.origin()
							req := get(ae == "gzip")
							ew, eo := &exch{addr: psWith.addr}, &exch{addr: psWithout.addr}
							psWith.set(p)
							rw := ew.do(req, dl)
							psWithout.set(p)
							ro := eo.do(req, dl)
							ew.close()
							eo.close()
							evals++
							key, what := c15Judge(c, rw, ro, plain, pe)
							if key == "tool" {
								t.Fatalf("%s: %s", c, what)
							}
							outs.Add(fmt.Sprintf("%s/%d->%d/enc=%s/%v", pre, st, rw.Status, rw.Get("Content-Encoding"), key == ""))
							if key != "" {
								r.Violate("C15/after-"+pre+"/"+key[len("C15/"):], fmt.Sprintf("%s: %s", c, what), sz/10+len(pre), map[string]interface{}{"engine": "W", "test": "TestVerifC15Hist", "case": c, "prelude": pre})
							}
						}
					}
				}
			}
			psWith.srv.Close()
			psWithout.srv.Close()
		}
	}
	r.AddScenario(vres.Scenario{Name: "gzip-after-other-exchanges", Engine: "W", Evaluations: evals, Distinct: int64(outs.N()), Outcomes: outs.N(),
		Rule:  "ordinary exchanges (4 statuses x 4 sizes x gzip offered or not x declared length or not) with and without the gzip plugin right after three exchanges of another kind on the same chain (Upgrade/hijack, aborted response, flushed stream, HEAD, already-encoded response; thorough: over-cap response); GOMAXPROCS=1; distinct = (prelude, status sent, status received, coding, verdict) classes",
		Bound: fmt.Sprintf("3 chain positions x %d preludes x 4 statuses x 4 sizes x 2 x 2", len(preludes)), Exhaustive: true,
		Sample: map[string]interface{}{"prelude": "upgrade", "then": "GET status=201 size=5000 gzip offered"}, Extra: map[string]interface{}{"wall_s": time.Since(start).Seconds()}})
}
