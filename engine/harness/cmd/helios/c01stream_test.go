package main

import (
	"bufio"
	"fmt"
	"io"
	"net"
	"strconv"
	"strings"
	"testing"
	"time"

	"github.com/0xReLogic/Helios/internal/config"
	"github.com/0xReLogic/Helios/internal/zzverif/vres"
	"github.com/0xReLogic/Helios/internal/zzverif/wire"
)

// Lock-step streaming: the backend writes part k, flushes and then blocks until the
// harness confirms that the client has read part k through Helios. A part that has not
// arrived 10 s after its flush, while the backend is still blocked, was held back.
func streamOnce(h *helios, be *wire.Backend, ctype string, parts int, partSize int, declared bool) (string, string) {
	ack := make(chan int, 1)
	sc := &wire.Script{Status: 200, Header: []wire.HeaderLine{{"Content-Type", ctype}, {"Cache-Control", "no-cache"}}, FlushEach: true, WaitFlushAck: ack, DeclareLen: declared}
	var want [][]byte
	for k := 0; k < parts; k++ {
		p := []byte(fmt.Sprintf("data: part-%d-%s\n\n", k, strings.Repeat("x", partSize)))
		sc.Parts = append(sc.Parts, p)
		want = append(want, p)
	}
	be.Next(sc)
	defer be.Next(nil)
	c, err := net.DialTimeout("tcp", h.addr, 5*time.Second)
	if err != nil {
		return "tool", err.Error()
	}
	defer c.Close()
	fmt.Fprintf(c, "GET /stream HTTP/1.1\r\nHost: origin.test\r\nAccept: %s\r\n\r\n", ctype)
	br := bufio.NewReader(c)
	c.SetReadDeadline(time.Now().Add(10 * time.Second))
	status, err := br.ReadString('\n')
	if err != nil {
		return "stream/headers-held-back", fmt.Sprintf("%s, %d parts: no response head within 10s of the backend's first flush (%v)", ctype, parts, err)
	}
	chunked := false
	for {
		l, err := br.ReadString('\n')
		if err != nil {
			return "stream/headers-held-back", "reading headers: " + err.Error()
		}
		if strings.HasPrefix(strings.ToLower(l), "transfer-encoding:") && strings.Contains(strings.ToLower(l), "chunked") {
			chunked = true
		}
		if l == "\r\n" {
			break
		}
	}
	if !strings.Contains(status, " 200 ") {
		return "stream/status", "status line " + strings.TrimSpace(status)
	}
	if !chunked && !declared {
		return "stream/not-chunked", "a streamed response without declared length arrived without chunked framing"
	}
	for k := 0; k < parts && declared; k++ {
		// declared length: the parts arrive unframed, each as soon as the backend has flushed it
		got := make([]byte, len(want[k]))
		c.SetReadDeadline(time.Now().Add(10 * time.Second))
		if n, err := io.ReadFull(br, got); err != nil {
			return "stream/part-held-back/declared-length", fmt.Sprintf("%s, Content-Length declared: part %d of %d (%d bytes) flushed by the backend did not reach the client within 10s while the backend was still waiting (%v; got %d bytes of it)", ctype, k+1, parts, len(want[k]), err, n)
		}
		if string(got) != string(want[k]) {
			return "stream/part-altered", fmt.Sprintf("part %d arrived as %q", k+1, got)
		}
		ack <- k
	}
	for k := 0; k < parts && !declared; k++ {
		got := []byte{}
		for len(got) < len(want[k]) {
			c.SetReadDeadline(time.Now().Add(10 * time.Second))
			l, err := br.ReadString('\n')
			if err != nil {
				return "stream/part-held-back", fmt.Sprintf("%s: part %d of %d (%d bytes) flushed by the backend did not reach the client within 10s while the backend was still waiting (%v; got %d bytes of it)", ctype, k+1, parts, len(want[k]), err, len(got))
			}
			n, err := strconv.ParseInt(strings.TrimSpace(l), 16, 64)
			if err != nil {
				return "stream/framing", fmt.Sprintf("malformed chunk size %q", l)
			}
			buf := make([]byte, n+2)
			if _, err := io.ReadFull(br, buf); err != nil {
				return "stream/part-held-back", fmt.Sprintf("part %d: chunk announced but not delivered: %v", k+1, err)
			}
			got = append(got, buf[:n]...)
		}
		if string(got) != string(want[k]) {
			return "stream/part-altered", fmt.Sprintf("part %d arrived as %q", k+1, got)
		}
		ack <- k
	}
	return "", ""
}

func TestVerifC01Stream(t *testing.T) {
	r := vres.Open("C01", "Stream")
	defer func() {
		if err := r.Close(); err != nil {
			t.Fatal(err)
		}
	}()
	start := time.Now()
	var evals int64
	var outs vres.Outcomes
	shard, shards := shardOf()
	i := 0
	for _, inst := range []string{"plain", "ids", "features", "plugins", "timeouts"} {
		ids := inst == "ids"
		be := wire.NewBackend("b0")
		cfg := baseConfig("round_robin", be.URL())
		cfg.Logging.RequestID = config.RequestIDConfig{Enabled: ids}
		cfg.Logging.Trace = config.TraceConfig{Enabled: ids}
		switch inst {
		case "features":
			cfg.CircuitBreaker = config.CircuitBreakerConfig{Enabled: true, MaxRequests: 1, IntervalSeconds: 60, TimeoutSeconds: 60, FailureThreshold: 1000000, SuccessThreshold: 1}
			cfg.RateLimit = config.RateLimitConfig{Enabled: true, MaxTokens: 1000000, RefillRate: 1}
			cfg.HealthChecks.Passive = config.PassiveHealthCheckConfig{Enabled: true, UnhealthyThreshold: 1000000, UnhealthyTimeout: 1}
		case "plugins":
			cfg.Plugins = config.PluginsConfig{Enabled: true, Chain: []config.PluginConfig{{Name: "logging"}, sizeLimitCfg(1<<30, 1<<30)}}
		case "timeouts":
			cfg.Server.Timeouts = config.TimeoutConfig{Read: 30, Write: 30, Idle: 30, Handler: 30, Shutdown: 5, BackendDial: 5, BackendRead: 30, BackendIdle: 30}
		}
		h, err := startHelios(cfg)
		if err != nil {
			t.Fatal(err)
		}
		for _, ct := range []string{"text/event-stream", "application/octet-stream", "text/plain"} {
			for parts := 1; parts <= 3; parts++ {
				for _, sz := range []int{1, 5000} {
					for _, declared := range []bool{false, true} {
						if inst != "plain" && (sz == 1 && parts == 2 || declared && parts == 3) {
							continue // fewer shapes on the configured instances
						}
						i++
						if i%shards != shard {
							continue
						}
						key, what := streamOnce(h, be, ct, parts, sz, declared)
						evals++
						outs.Add(fmt.Sprintf("%s/%s/%d/%v/%v", inst, ct, parts, declared, key == ""))
						if key == "tool" {
							t.Fatal(what)
						}
						if key != "" {
							r.Violate("C01/"+key, fmt.Sprintf("instance %s: %s", inst, what), parts, map[string]interface{}{"engine": "W", "test": "TestVerifC01Stream", "content_type": ct, "parts": parts, "size": sz, "instance": inst, "declared": declared})
						}
					}
				}
			}
		}
		h.stop()
		be.Close()
	}
	r.AddScenario(vres.Scenario{Name: "lock-step-streaming", Engine: "W", Evaluations: evals, Distinct: int64(outs.N()), Outcomes: outs.N(),
		Rule:  "5 instances (plain, ID middleware, every non-transforming feature on, non-transforming plugins, every timeout configured) x content type x 1..3 parts x part size x length declared or not; the backend blocks after each flush until the client has read that part through Helios",
		Bound: "all lock-step scripts of the product (fewer shapes on the configured instances)", Exhaustive: true, Sample: map[string]interface{}{"content_type": "text/event-stream", "parts": 3},
		Extra: map[string]interface{}{"wall_s": time.Since(start).Seconds()}})
}

// Truncated responses: the backend breaks off in a way a client can tell (missing final chunk,
// short chunk, fewer bytes than Content-Length). Through Helios the client must still be able
// to tell: a broken-off response must not arrive as a complete, well-formed one.
func TestVerifC01Truncated(t *testing.T) {
	r := vres.Open("C01", "Truncated")
	defer func() {
		if err := r.Close(); err != nil {
			t.Fatal(err)
		}
	}()
	shard, _ := shardOf()
	if shard != 0 {
		return
	}
	start := time.Now()
	behaviours := map[string]string{
		"chunked-no-terminator":    "HTTP/1.1 200 OK\r\nContent-Type: text/plain\r\nTransfer-Encoding: chunked\r\n\r\n5\r\nhello\r\n",
		"chunked-short-chunk":      "HTTP/1.1 200 OK\r\nContent-Type: text/plain\r\nTransfer-Encoding: chunked\r\n\r\n64\r\nonly-ten-b",
		"chunked-two-then-cut":     "HTTP/1.1 200 OK\r\nContent-Type: text/event-stream\r\nTransfer-Encoding: chunked\r\n\r\n3\r\nabc\r\n3\r\ndef\r\n",
		"length-short-body":        "HTTP/1.1 200 OK\r\nContent-Type: text/plain\r\nContent-Length: 1000\r\n\r\n0123456789",
		"length-short-body-404":    "HTTP/1.1 404 Not Found\r\nContent-Type: text/plain\r\nContent-Length: 50\r\n\r\nnope",
		"chunked-complete-control": "HTTP/1.1 200 OK\r\nContent-Type: text/plain\r\nTransfer-Encoding: chunked\r\n\r\n5\r\nhello\r\n0\r\n\r\n",
	}
	var evals int64
	var outs vres.Outcomes
	for _, breaker := range []bool{false, true} {
		rb := wire.NewRawBackend()
		cfg := baseConfig("round_robin", rb.URL())
		if breaker {
			cfg.CircuitBreaker = config.CircuitBreakerConfig{Enabled: true, MaxRequests: 1, IntervalSeconds: 60, TimeoutSeconds: 60, FailureThreshold: 100, SuccessThreshold: 1}
		}
		h, err := startHelios(cfg)
		if err != nil {
			t.Fatal(err)
		}
		for name, raw := range behaviours {
			raw := raw
			rb.Set(func(c net.Conn, n int) {
				defer c.Close()
				wire.ReadRequestHead(c)
				c.Write([]byte(raw))
			})
			get := func(addr string) wire.Response {
				c, err := wire.Dial(addr)
				if err != nil {
					return wire.Response{Err: "dial: " + err.Error()}
				}
				defer c.Close()
				return c.Do(&wire.Request{Method: "GET", Target: "/t", Header: []wire.HeaderLine{{"Host", "x.test"}}, NoBody: true}, 10*time.Second)
			}
			direct := get(rb.Addr())
			via := get(h.addr)
			evals++
			outs.Add(fmt.Sprintf("%s/direct-broken=%v/via-broken=%v", name, direct.Err != "", via.Err != ""))
			desc := fmt.Sprintf("breaker=%v %s", breaker, name)
			switch {
			case direct.Err != "" && via.Err == "":
				r.Violate("C01/truncated/broken-off-response-delivered-as-complete", fmt.Sprintf("%s: directly the client sees %q; through Helios it receives a complete, well-formed %d response with %d body bytes", desc, direct.Err, via.Status, len(via.Body)), len(name), map[string]interface{}{"engine": "W", "test": "TestVerifC01Truncated", "behaviour": name, "breaker": breaker})
			case direct.Err == "" && via.Err != "":
				r.Violate("C01/truncated/complete-response-broken", fmt.Sprintf("%s: a complete response arrives broken through Helios: %s", desc, via.Err), len(name), nil)
			case via.Status != 0 && direct.Status != via.Status:
				r.Violate("C01/truncated/status-changed", fmt.Sprintf("%s: status %d became %d", desc, direct.Status, via.Status), len(name), nil)
			case !strings.HasPrefix(string(direct.Body), string(via.Body)) && !strings.HasPrefix(string(via.Body), string(direct.Body)):
				r.Violate("C01/truncated/body-prefix-altered", fmt.Sprintf("%s: direct body %q, through Helios %q", desc, direct.Body, via.Body), len(name), nil)
			}
		}
		h.stop()
		rb.Close()
	}
	r.AddScenario(vres.Scenario{Name: "truncated-responses", Engine: "W", Evaluations: evals, Distinct: int64(outs.N()), Outcomes: outs.N(),
		Rule:  "raw backend answers that break off detectably (and one complete control), exchanged directly and through Helios with and without the breaker: detectably incomplete must stay detectably incomplete",
		Bound: "6 behaviours x breaker on/off", Exhaustive: true, Sample: outs.Map(), Extra: map[string]interface{}{"wall_s": time.Since(start).Seconds()}})
}
