package main

import (
	"bytes"
	"compress/gzip"
	"fmt"
	"io"
	"log"
	"net"
	"net/http"
	"strconv"
	"strings"
	"sync"
	"testing"
	"time"

	"github.com/0xReLogic/Helios/internal/config"
	"github.com/0xReLogic/Helios/internal/plugins"
	"github.com/0xReLogic/Helios/internal/zzverif/vh"
	"github.com/0xReLogic/Helios/internal/zzverif/vres"
	"github.com/0xReLogic/Helios/internal/zzverif/vrt"
	"github.com/0xReLogic/Helios/internal/zzverif/wire"
)

// C15 gzip: the raw client decodes what it received strictly by the Content-Encoding and
// the framing it received; the result must be the backend's body with the backend's status.
// Compression is permitted only under the stated conditions; otherwise the exchange must be
// byte-identical to the same exchange without the plugin.

const gzipCap = 10 * 1024 * 1024

func gzipCfg(level, minSize int, types ...string) config.PluginConfig {
	var ts []interface{}
	for _, t := range types {
		ts = append(ts, t)
	}
	return config.PluginConfig{Name: "gzip", Config: map[string]interface{}{"level": float64(level), "min_size": float64(minSize), "content_types": ts}}
}

var c15Positions = map[string]func(g config.PluginConfig, with bool) []config.PluginConfig{
	"gzip": func(g config.PluginConfig, with bool) []config.PluginConfig {
		if with {
			return []config.PluginConfig{g}
		}
		return nil
	},
	"logging,gzip": func(g config.PluginConfig, with bool) []config.PluginConfig {
		if with {
			return []config.PluginConfig{{Name: "logging"}, g}
		}
		return []config.PluginConfig{{Name: "logging"}}
	},
	"gzip,headers": func(g config.PluginConfig, with bool) []config.PluginConfig {
		h := config.PluginConfig{Name: "headers", Config: map[string]interface{}{"set": map[string]interface{}{"X-App": "Helios"}}}
		if with {
			return []config.PluginConfig{g, h}
		}
		return []config.PluginConfig{h}
	},
	"gzip,logging": func(g config.PluginConfig, with bool) []config.PluginConfig {
		if with {
			return []config.PluginConfig{g, {Name: "logging"}}
		}
		return []config.PluginConfig{{Name: "logging"}}
	},
	// the order of the shipped configuration
	"logging,size_limit,gzip,headers": func(g config.PluginConfig, with bool) []config.PluginConfig {
		h := config.PluginConfig{Name: "headers", Config: map[string]interface{}{"set": map[string]interface{}{"X-App": "Helios"}}}
		sl := sizeLimitCfg(64<<20, 64<<20)
		if with {
			return []config.PluginConfig{{Name: "logging"}, sl, g, h}
		}
		return []config.PluginConfig{{Name: "logging"}, sl, h}
	},
	"size_limit,gzip": func(g config.PluginConfig, with bool) []config.PluginConfig {
		sl := sizeLimitCfg(64<<20, 64<<20)
		if with {
			return []config.PluginConfig{sl, g}
		}
		return []config.PluginConfig{sl}
	},
}

func gzipBytes(b []byte) []byte {
	var buf bytes.Buffer
	w := gzip.NewWriter(&buf)
	w.Write(b)
	w.Close()
	return buf.Bytes()
}

func lcg(n int) []byte {
	b := make([]byte, n)
	x := uint32(12345)
	for i := range b {
		x = x*1664525 + 1013904223
		b[i] = byte(x >> 24)
	}
	return b
}

// content codings an origin may already have applied (besides gzip)
var c15Codings = map[string]string{"pre-br": "br", "pre-zstd": "zstd", "pre-br+gzip": "br, gzip", "pre-deflate": "deflate", "pre-custom": "x-custom", "pre-GZIP": "GZIP",
	// the coding is named on a second header line, after one with an empty value (list syntax
	// allows empty elements): "\x00" separates the lines
	"pre-br-on-second-line": "\x00br"}

func c15Payload(kind string, n int) []byte {
	switch kind {
	case "zeros":
		return make([]byte, n)
	case "text":
		return []byte(strings.Repeat("the quick brown fox jumps over the lazy dog. ", n/45+1)[:n])
	default:
		return lcg(n)
	}
}

type c15Case struct {
	Pos      string
	Level    int
	Min      int
	AE       string // "-" = header absent
	CType    string
	Size     int
	Payload  string // zeros, text, random, pre-gzipped, pre-<coding> (see c15Codings)
	Status   int    // 0 = implicit
	Declare  bool
	Method   string
	Writes   int // number of writes the body is split into
	FlushMid bool
	Interim  int  // interim (1xx) response sent first
	Abort    bool // the origin breaks the response off after the first of its writes
	FlushOne bool // flush once, after the first write only
	Status2  int  // second, superfluous WriteHeader
	Trailer  bool // the origin announces and sends a trailer
	TrEarly  bool // ... and sets its value right after WriteHeader, before the first write
	After    bool // header changes and a WriteHeader(500) after the body (implicit status)
	Empty    bool // zero-length first write
	Late     bool // header map changed after WriteHeader
}

func (c c15Case) String() string {
	return fmt.Sprintf("pos=%s level=%d min=%d AE=%q type=%q size=%d payload=%s status=%d declare=%v %s writes=%d flushmid=%v interim=%d abort=%v flushone=%v status2=%d trailer=%v%s emptywrite=%v late-header=%v%s", c.Pos, c.Level, c.Min, c.AE, c.CType, c.Size, c.Payload, c.Status, c.Declare, c.Method, c.Writes, c.FlushMid, c.Interim, c.Abort, c.FlushOne, c.Status2, c.Trailer, map[bool]string{true: "(early)"}[c.TrEarly], c.Empty, c.Late, map[bool]string{true: " changes-after-the-body"}[c.After])
}

// origin returns the handler program and the entity the origin serves (body as the origin
// means it, i.e. before any content coding of its own).
func (c c15Case) origin() (*hprog, []byte, bool) {
	plain := c15Payload(c.Payload, c.Size)
	wireBody := plain
	p := &hprog{Status: c.Status, DeclareLen: c.Declare, Interim: c.Interim}
	if c.CType != "" {
		p.Header = append(p.Header, wire.HeaderLine{"Content-Type", c.CType})
	}
	pre := strings.HasPrefix(c.Payload, "pre-")
	if c.Payload == "pre-gzipped" {
		plain = c15Payload("text", c.Size)
		wireBody = gzipBytes(plain)
		p.Header = append(p.Header, wire.HeaderLine{"Content-Encoding", "gzip"})
	} else if pre {
		// a coding the proxy cannot undo: the (compressible) bytes are opaque and must arrive as sent
		plain = c15Payload("text", c.Size)
		wireBody = plain
		for _, v := range strings.Split(c15Codings[c.Payload], "\x00") {
			p.Header = append(p.Header, wire.HeaderLine{"Content-Encoding", v})
		}
	}
	w := c.Writes
	if w < 1 {
		w = 1
	}
	if len(wireBody) > 0 {
		step := (len(wireBody) + w - 1) / w
		for off := 0; off < len(wireBody); off += step {
			end := off + step
			if end > len(wireBody) {
				end = len(wireBody)
			}
			p.Parts = append(p.Parts, wireBody[off:end])
		}
	}
	p.FlushEach = c.FlushMid
	if c.Abort {
		p.AbortAfter = 1
	}
	if c.FlushOne {
		p.FlushAfter = 1
	}
	p.Status2 = c.Status2
	p.Trailer, p.TrailerEarly, p.EmptyWrite, p.LateHeader, p.AfterBody = c.Trailer, c.TrEarly, c.Empty, c.Late, c.After
	return p, plain, pre
}

// decode interprets a response the way a strict client does.
func c15Decode(r wire.Response) ([]byte, string) {
	if r.Err != "" {
		return nil, "unreadable: " + r.Err
	}
	enc := strings.ToLower(strings.TrimSpace(r.Get("Content-Encoding")))
	switch enc {
	case "", "identity":
		return r.Body, ""
	case "gzip":
		if len(r.Body) == 0 {
			return nil, ""
		}
		zr, err := gzip.NewReader(bytes.NewReader(r.Body))
		if err != nil {
			return nil, "labelled gzip but not a gzip stream: " + err.Error()
		}
		b, err := io.ReadAll(zr)
		if err != nil {
			return nil, "gzip stream broken: " + err.Error()
		}
		return b, ""
	}
	return nil, "unknown content-encoding " + enc
}

func maxInt(a, b int) int {
	if a > b {
		return a
	}
	return b
}

// aeOffersGzip is the reference reading of Accept-Encoding (RFC 9110 12.4.2 / 12.5.3): the
// header lists gzip if one of its members names the coding gzip (case-insensitive) with a
// weight other than zero. The weight parameter is "q" in either case, optional whitespace
// around ";" and "="; a weight of 0, 0.0, 0.00 or 0.000 means "not acceptable".
func aeOffersGzip(ae string) bool {
	for _, part := range strings.Split(ae, ",") {
		params := strings.Split(part, ";")
		if !strings.EqualFold(strings.TrimSpace(params[0]), "gzip") {
			continue
		}
		refused := false
		for _, prm := range params[1:] {
			kv := strings.SplitN(prm, "=", 2)
			if len(kv) == 2 && strings.EqualFold(strings.TrimSpace(kv[0]), "q") {
				if v, err := strconv.ParseFloat(strings.TrimSpace(kv[1]), 64); err == nil && v == 0 {
					refused = true
				}
			}
		}
		if !refused {
			return true
		}
	}
	return false
}

func c15Judge(c c15Case, with, without wire.Response, plain []byte, pre bool) (string, string) {
	if c.Abort {
		// the origin broke off mid-body: whatever reaches the client must not look like a complete
		// response with different content
		if with.Err != "" {
			return "", ""
		}
		got, derr := c15Decode(with)
		if derr == "" && bytes.Equal(got, plain) {
			return "", ""
		}
		return "C15/truncated-origin-delivered-as-complete", fmt.Sprintf("the origin aborted after %d of %d bytes; the client received a well-formed complete response (status %d, Content-Encoding %q, Content-Length %q) that decodes to %d bytes (%s)", len(plain)/maxInt(c.Writes, 1), len(plain), with.Status, with.Get("Content-Encoding"), with.Get("Content-Length"), len(got), derr)
	}
	if without.Err != "" {
		return "tool", "reference exchange failed: " + without.Err
	}
	wantStatus := without.Status
	// the backend's status is what the origin program said, not only what the same chain without
	// gzip makes of it (a defect in a plugin both chains share would cancel out)
	if origin := map[bool]int{true: 200, false: c.Status}[c.Status == 0]; without.Status != origin && with.Status != origin {
		return "C15/status-differs-from-the-origins", fmt.Sprintf("the origin answered %d; the client received %d through the chain (and %d through the same chain without gzip)", origin, with.Status, without.Status)
	}
	if with.Err != "" {
		return "C15/response-unreadable", "a strict client cannot read the response: " + with.Err
	}
	if with.Status != wantStatus {
		return "C15/status-changed", fmt.Sprintf("status %d became %d", wantStatus, with.Status)
	}
	if len(with.Interim) != len(without.Interim) {
		return "C15/interim-response-lost", fmt.Sprintf("the origin's %d interim response(s) arrive as %d", len(without.Interim), len(with.Interim))
	}
	bodyExpected := c.Method != "HEAD" && wantStatus != 204 && wantStatus != 304
	if pre && c.Payload != "pre-gzipped" {
		// already encoded with a coding this check does not undo: must be delivered byte-identical
		if with.Get("Content-Encoding") != without.Get("Content-Encoding") || !bytes.Equal(with.Body, without.Body) {
			return "C15/compressed-although-already-encoded", fmt.Sprintf("the origin's response carried Content-Encoding: %s; the client receives Content-Encoding %q and %d bytes where the origin sent %d", c15Codings[c.Payload], with.Get("Content-Encoding"), len(with.Body), len(without.Body))
		}
		a, b := wire.EndToEnd(without.Header, "date"), wire.EndToEnd(with.Header, "date")
		if fmt.Sprint(a) != fmt.Sprint(b) {
			add, del := diff(a, b)
			return "C15/passthrough-headers-changed", fmt.Sprintf("response not compressed but headers added %v missing %v", add, del)
		}
		return "", ""
	}
	// what the origin's entity is after undoing the origin's own coding
	refDecoded, _ := c15Decode(without)
	got, derr := c15Decode(with)
	if derr != "" {
		return "C15/undecodable", derr
	}
	if bodyExpected && !bytes.Equal(got, refDecoded) {
		how := "identity"
		if strings.EqualFold(with.Get("Content-Encoding"), "gzip") {
			how = "gzip"
		}
		return "C15/decoded-body-differs/labelled-" + how, fmt.Sprintf("decoding the %d received bytes as labelled (%s, Content-Length %q) gives %d bytes, the origin's entity has %d (equal prefix %d)", len(with.Body), how, with.Get("Content-Length"), len(got), len(refDecoded), commonPrefix(got, refDecoded))
	}
	if !bodyExpected && len(with.Body) != 0 {
		return "C15/body-on-bodiless-response", fmt.Sprintf("%d body bytes on a response that has none", len(with.Body))
	}
	if fmt.Sprint(with.Trailer) != fmt.Sprint(without.Trailer) {
		return "C15/trailer-changed", fmt.Sprintf("the origin's trailer %v arrives as %v", without.Trailer, with.Trailer)
	}
	recoded := with.Get("Content-Encoding") != without.Get("Content-Encoding") || !bytes.Equal(with.Body, without.Body)
	if recoded {
		typeOK := false
		for _, t := range []string{"text/", "application/json"} {
			if strings.HasPrefix(c.CType, t) {
				typeOK = true
			}
		}
		size := len(plain)
		if pre {
			size = len(without.Body)
		}
		switch {
		case c.AE == "-" || !aeOffersGzip(c.AE):
			return "C15/compressed-although-not-offered", fmt.Sprintf("Accept-Encoding %q does not list gzip but the response was re-coded", c.AE)
		case !typeOK:
			return "C15/compressed-although-type-does-not-match", fmt.Sprintf("content type %q matches no configured prefix", c.CType)
		case size < c.Min:
			return "C15/compressed-below-min-size", fmt.Sprintf("%d bytes < min_size %d", size, c.Min)
		case size > gzipCap:
			return "C15/compressed-above-buffer-cap", fmt.Sprintf("%d bytes > cap", size)
		case pre:
			return "C15/compressed-although-already-encoded", "the origin's response already carried Content-Encoding: gzip and was encoded again"
		}
		return "", ""
	}
	// not re-coded: headers must be untouched as well
	a, b := wire.EndToEnd(without.Header, "date"), wire.EndToEnd(with.Header, "date")
	if fmt.Sprint(a) != fmt.Sprint(b) {
		add, del := diff(a, b)
		return "C15/passthrough-headers-changed", fmt.Sprintf("response not compressed but headers added %v missing %v", add, del)
	}
	if with.Framing != without.Framing && bodyExpected {
		return "C15/passthrough-framing-changed", fmt.Sprintf("framing %s became %s", without.Framing, with.Framing)
	}
	return "", ""
}

var c15AEs = []string{"-", "gzip", "gzip, br", "br,gzip", "GZIP", "gzip;q=0", "gzip;q=1", "identity", "*", "x-gzip", " gzip ",
	// weights in every legal spelling: the parameter name in either case, optional whitespace, up to three decimals
	"gzip;Q=0", "gzip; q=0", "gzip ; q = 0", "gzip;q=0.000", "identity, gzip;Q=0.000", "GZIP ; Q=0", "gzip;q=0.5", "gzip;q=0.001", "br;q=1, gzip;q=0", "gzip;q=0, br", "deflate, gzip;q=0.0;x=1", "gzipx", "notgzip, identity"}
var c15Types = []string{"text/html", "application/json; charset=utf-8", "image/png", ""}

func c15Cases(th bool) []c15Case {
	var out []c15Case
	// core product at one plugin configuration
	min := 64
	sizes := []int{0, min - 1, min, min + 1, 4 * min, 100 * 1024}
	payloads := []string{"zeros", "text", "random", "pre-gzipped", "pre-br", "pre-br+gzip", "pre-zstd", "pre-deflate", "pre-custom", "pre-GZIP", "pre-br-on-second-line"}
	statuses := []int{0, 200, 201, 404, 204, 304}
	for _, ae := range c15AEs {
		for _, ct := range c15Types {
			for _, sz := range sizes {
				for _, pl := range payloads {
					for _, st := range statuses {
						if (st == 204 || st == 304) && sz != 0 {
							continue
						}
						if !th && (pl == "zeros" || (st == 201) || (sz == 4*min)) {
							continue
						}
						if c15Codings[pl] != "" {
							// foreign codings: where compression could apply at all, fewer shapes in the quick tier
							if sz < min || (!th && (pl == "pre-zstd" || pl == "pre-deflate" || pl == "pre-GZIP" || st == 404 || ct == "" || !aeOffersGzip(ae))) {
								continue
							}
						}
						for _, decl := range []bool{false, true} {
							for _, m := range []string{"GET", "HEAD"} {
								if m == "HEAD" && !(sz == min+1 || sz == 0) {
									continue
								}
								out = append(out, c15Case{Pos: "gzip", Level: 5, Min: min, AE: ae, CType: ct, Size: sz, Payload: pl, Status: st, Declare: decl, Method: m, Writes: 1})
							}
						}
					}
				}
			}
		}
	}
	// origins that break off mid-body (large enough for the compressed prefix to leave the
	// server's write buffer)
	for _, pl := range []string{"random", "text"} {
		for _, ae := range []string{"gzip", "-"} {
			for _, decl := range []bool{false, true} {
				for _, st := range []int{200, 0, 404} {
					for _, w := range []int{2, 4} {
						out = append(out, c15Case{Pos: "gzip", Level: 5, Min: min, AE: ae, CType: "text/html", Size: 400 * 1024, Payload: pl, Status: st, Declare: decl, Method: "GET", Writes: w, Abort: true})
					}
				}
			}
		}
	}
	// crossed: levels x positions x min sizes, multi-write and flushing programs
	levels := []int{-1, 0, 5, 9}
	if th {
		levels = []int{-1, 0, 1, 2, 3, 4, 5, 6, 7, 8, 9}
	}
	for _, lv := range levels {
		for _, pos := range []string{"gzip", "logging,gzip", "gzip,headers", "size_limit,gzip"} {
			for _, mn := range []int{1, 64, 1024} {
				for _, sz := range []int{0, mn - 1, mn, mn + 1, 4 * mn} {
					for _, pl := range []string{"text", "random", "pre-gzipped"} {
						for _, ae := range []string{"gzip", "-"} {
							for _, st := range []int{0, 200} {
								out = append(out, c15Case{Pos: pos, Level: lv, Min: mn, AE: ae, CType: "text/html", Size: sz, Payload: pl, Status: st, Method: "GET", Writes: 1})
							}
						}
					}
				}
			}
		}
	}
	for _, w := range []int{2, 3} {
		for _, fm := range []bool{false, true} {
			for _, sz := range []int{65, 3000, 100 * 1024} {
				for _, st := range []int{0, 200, 404} {
					for _, ae := range []string{"gzip", "-"} {
						out = append(out, c15Case{Pos: "gzip", Level: 5, Min: 64, AE: ae, CType: "text/html", Size: sz, Payload: "text", Status: st, Method: "GET", Writes: w, FlushMid: fm})
					}
				}
			}
		}
	}
	// one flush after the first write only: what follows the flush must not be buffered and
	// compressed behind a header that is already out; tiny first parts included
	for _, mn := range []int{1, 64} {
		for _, sz := range []int{2, 3, 130, 3000, 100 * 1024} {
			for _, w := range []int{2, 3} {
				for _, st := range []int{0, 200, 404} {
					for _, ae := range []string{"gzip", "-"} {
						out = append(out, c15Case{Pos: "gzip", Level: 5, Min: mn, AE: ae, CType: "text/html", Size: sz, Payload: "text", Status: st, Method: "GET", Writes: w, FlushOne: true})
					}
				}
			}
		}
	}
	// min_size 0 is a valid configuration: empty and bodiless answers stay empty
	for _, st := range []int{0, 200, 204, 304, 404} {
		for _, m := range []string{"GET", "HEAD"} {
			for _, sz := range []int{0, 1, 70} {
				if (st == 204 || st == 304) && sz != 0 {
					continue
				}
				for _, decl := range []bool{false, true} {
					out = append(out, c15Case{Pos: "gzip", Level: 5, Min: 0, AE: "gzip", CType: "text/html", Size: sz, Payload: "text", Status: st, Declare: decl, Method: m, Writes: 1})
				}
			}
		}
	}
	// a superfluous second WriteHeader: the first one counts
	for _, st := range [][2]int{{404, 200}, {200, 500}, {204, 200}} {
		for _, sz := range []int{0, 70} {
			if st[0] == 204 && sz != 0 {
				continue
			}
			for _, ae := range []string{"gzip", "-"} {
				out = append(out, c15Case{Pos: "gzip", Level: 5, Min: 64, AE: ae, CType: "text/html", Size: sz, Payload: "text", Status: st[0], Status2: st[1], Method: "GET", Writes: 1})
			}
		}
	}
	// header map changed after WriteHeader: not part of the response
	for _, sz := range []int{0, 10, 70, 5000} {
		for _, st := range []int{200, 404} {
			for _, ae := range []string{"gzip", "-"} {
				out = append(out, c15Case{Pos: "gzip", Level: 5, Min: 64, AE: ae, CType: "text/html", Size: sz, Payload: "text", Status: st, Method: "GET", Writes: 1, Late: true})
			}
		}
	}
	// header map changed and WriteHeader(500) called after the body, the status left implicit:
	// the response is what stood when the first byte was written
	for _, sz := range []int{10, 70, 5000} {
		for _, ae := range []string{"gzip", "-"} {
			for _, w := range []int{1, 2} {
				out = append(out, c15Case{Pos: "gzip", Level: 5, Min: 64, AE: ae, CType: "text/html", Size: sz, Payload: "text", Status: 0, Method: "GET", Writes: w, After: true})
			}
		}
	}
	// response trailers and a zero-length first write
	for _, sz := range []int{0, 10, 70, 5000} {
		for _, st := range []int{0, 200, 404} {
			for _, ae := range []string{"gzip", "-"} {
				for _, fo := range []bool{false, true} {
					if fo && sz < 70 {
						continue
					}
					w := 1
					if fo {
						w = 2
					}
					if sz > 0 { // a trailer needs a body to travel behind
						out = append(out, c15Case{Pos: "gzip", Level: 5, Min: 64, AE: ae, CType: "text/html", Size: sz, Payload: "text", Status: st, Method: "GET", Writes: w, FlushOne: fo, Trailer: true})
						if st != 0 {
							out = append(out, c15Case{Pos: "gzip", Level: 5, Min: 64, AE: ae, CType: "text/html", Size: sz, Payload: "text", Status: st, Method: "GET", Writes: w, FlushOne: fo, Trailer: true, TrEarly: true})
						}
					}
					out = append(out, c15Case{Pos: "gzip", Level: 5, Min: 64, AE: ae, CType: "text/html", Size: sz, Payload: "text", Status: st, Method: "GET", Writes: w, FlushOne: fo, Empty: true})
				}
			}
		}
	}
	// an interim (1xx) response before the final one
	for _, pos := range []string{"gzip", "logging,gzip", "size_limit,gzip", "gzip,headers", "gzip,logging", "logging,size_limit,gzip,headers"} {
		for _, sz := range []int{0, 65, 5000} {
			for _, st := range []int{0, 200, 404, 204} {
				if st == 204 && sz != 0 {
					continue
				}
				for _, ae := range []string{"gzip", "-"} {
					for _, ic := range []int{103, 100, 102, 199} {
						if ic != 103 && (pos != "gzip" || st == 0) {
							continue
						}
						out = append(out, c15Case{Pos: pos, Level: 5, Min: 64, AE: ae, CType: "text/html", Size: sz, Payload: "text", Status: st, Method: "GET", Writes: 1, Interim: ic})
					}
				}
			}
		}
	}
	// around the 10 MiB buffering cap
	for _, sz := range []int{gzipCap - 1, gzipCap, gzipCap + 1} {
		for _, w := range []int{1, 5} {
			if !th && w == 5 && sz != gzipCap+1 {
				continue
			}
			out = append(out, c15Case{Pos: "gzip", Level: 1, Min: 64, AE: "gzip", CType: "text/html", Size: sz, Payload: "text", Status: 200, Method: "GET", Writes: w})
		}
	}
	// over the cap with other statuses: buffering is given up on the first write (alone over the
	// cap) or on a later one; the recorded status must still be the one that goes out
	for _, st := range []int{404, 201, 0} {
		for _, w := range []int{1, 2} {
			out = append(out, c15Case{Pos: "gzip", Level: 1, Min: 64, AE: "gzip", CType: "text/html", Size: gzipCap + 1, Payload: "text", Status: st, Method: "GET", Writes: w})
		}
	}
	return out
}

func TestVerifC15(t *testing.T) {
	r := vres.Open("C15", "W")
	defer func() {
		if err := r.Close(); err != nil {
			t.Fatal(err)
		}
	}()
	th := vres.Thorough()
	shard, shards := shardOf()
	start := time.Now()
	cases := c15Cases(th)
	type srvKey struct {
		pos        string
		level, min int
	}
	type pair struct {
		with, without *progServer
		ew, eo        *exch
	}
	srvs := map[srvKey]*pair{}
	get := func(k srvKey) *pair {
		if p, ok := srvs[k]; ok {
			return p
		}
		g := gzipCfg(k.level, k.min, "text/", "application/json")
		w, err := newProgServer(c15Positions[k.pos](g, true))
		if err != nil {
			t.Fatal(err)
		}
		o, err := newProgServer(c15Positions[k.pos](g, false))
		if err != nil {
			t.Fatal(err)
		}
		p := &pair{w, o, &exch{addr: w.addr}, &exch{addr: o.addr}}
		srvs[k] = p
		return p
	}
	defer func() {
		for _, p := range srvs {
			p.ew.close()
			p.eo.close()
			p.with.srv.Close()
			p.without.srv.Close()
		}
	}()
	var evals int64
	var outs vres.Outcomes
	var sample interface{}
	const dl = 30 * time.Second
	runCase := func(c c15Case, mount string, doWith, doWithout func(*wire.Request, *hprog) wire.Response) {
		p, plain, pre := c.origin()
		req := &wire.Request{Method: c.Method, Target: "/g", Header: []wire.HeaderLine{{"Host", "x.test"}}, NoBody: true}
		if c.AE != "-" {
			req.Header = append(req.Header, wire.HeaderLine{"Accept-Encoding", c.AE})
		}
		rw := doWith(req, p)
		ro := doWithout(req, p)
		evals++
		key, what := c15Judge(c, rw, ro, plain, pre)
		if key == "tool" {
			t.Fatalf("%s: %s", c, what)
		}
		outs.Add(fmt.Sprintf("%s/%s/enc=%s/%v", mount, c.Payload, rw.Get("Content-Encoding"), key == ""))
		if sample == nil && c.Size == 4*64 && c.AE == "gzip" {
			sample = map[string]interface{}{"case": c.String(), "received_content_encoding": rw.Get("Content-Encoding"), "received_bytes": len(rw.Body)}
		}
		if key != "" {
			if mount != "chain" {
				key = strings.Replace(key, "C15/", "C15/proxied/", 1)
			}
			r.Violate(key, fmt.Sprintf("[%s] %s: %s", mount, c, what), len(c.String())+c.Size/1000, map[string]interface{}{"engine": "W", "test": "TestVerifC15", "mount": mount, "case": c})
		}
	}
	for i, c := range cases {
		if i%shards != shard {
			continue
		}
		pr := get(srvKey{c.Pos, c.Level, c.Min})
		runCase(c, "chain",
			func(req *wire.Request, p *hprog) wire.Response { pr.with.set(p); return pr.ew.do(req, dl) },
			func(req *wire.Request, p *hprog) wire.Response { pr.without.set(p); return pr.eo.do(req, dl) })
	}
	// several gzip instances coexisting in one process, each with its own content types, minimum
	// size and level: each decides by its own configuration, in both orders of use
	if shard == 1%shards {
		type ginst struct {
			name  string
			types []string
			min   int
			ps    *progServer
		}
		insts := []*ginst{
			{name: "html-only/min10", types: []string{"text/html"}, min: 10},
			{name: "json-only/min10", types: []string{"application/json"}, min: 10},
			{name: "text-any/min500", types: []string{"text/"}, min: 500},
			{name: "image-only/min10", types: []string{"image/svg"}, min: 10},
		}
		for i, in := range insts {
			ps, err := newProgServer([]config.PluginConfig{gzipCfg(1+2*i, in.min, in.types...)})
			if err != nil {
				t.Fatal(err)
			}
			in.ps = ps
		}
		order := append([]*ginst{}, insts...)
		for i := len(insts) - 1; i >= 0; i-- {
			order = append(order, insts[i])
		}
		for _, in := range order {
			e := &exch{addr: in.ps.addr}
			for _, ct := range []string{"text/html", "application/json", "text/plain", "image/svg+xml"} {
				for _, n := range []int{100, 2000} {
					body := c15Payload("text", n)
					in.ps.set(&hprog{Status: 200, Header: []wire.HeaderLine{{"Content-Type", ct}}, Parts: [][]byte{body}})
					resp := e.do(&wire.Request{Method: "GET", Target: "/g", Header: []wire.HeaderLine{{"Host", "x.test"}, {"Accept-Encoding", "gzip"}}, NoBody: true}, dl)
					evals++
					desc := fmt.Sprintf("gzip instance %s among %d coexisting instances: %d bytes of %s", in.name, len(insts), n, ct)
					compressed := resp.Get("Content-Encoding") != ""
					allowed := n >= in.min
					if allowed {
						allowed = false
						for _, pfx := range in.types {
							if strings.HasPrefix(ct, pfx) {
								allowed = true
							}
						}
					}
					outs.Add(fmt.Sprintf("instances/%s/%v/%v", in.name, allowed, compressed))
					got, derr := c15Decode(resp)
					switch {
					case resp.Err != "" || resp.Status != 200:
						r.Violate("C15/instances/exchange-failed", fmt.Sprintf("%s: status %d %s", desc, resp.Status, resp.Err), n, nil)
					case derr != "" || !bytes.Equal(got, body):
						r.Violate("C15/instances/decoded-body-differs", fmt.Sprintf("%s: decoding as labelled gives %d bytes (%s), the origin sent %d", desc, len(got), derr, len(body)), n, nil)
					case compressed && !allowed:
						r.Violate("C15/instances/compressed-against-own-configuration", fmt.Sprintf("%s: compressed although this instance is configured with content_types %v and min_size %d", desc, in.types, in.min), n, nil)
					}
				}
			}
			e.close()
		}
		for _, in := range insts {
			in.ps.srv.Close()
		}
	}
	// content types in sequence on one instance: whether a response is compressed depends on its
	// own content type and the configured prefixes, not on the types served before it. The
	// configured prefixes include one with a parameter; every ordered pair of types of the
	// alphabet is served by a fresh instance.
	if shard == 2%shards {
		// (and lists of other lengths: an empty list configures no prefix at all, so nothing is
		// compressed; a list of one)
		for _, prefixes := range [][]string{{"text/plain; charset=utf-8", "application/json", "text/h"}, {}, {"application/json"}} {
			types := []string{"text/plain; charset=utf-8", "text/plain; charset=iso-8859-1", "text/plain", "text/plain;charset=utf-8", "TEXT/PLAIN; charset=utf-8",
				"application/json", "application/json; charset=utf-8", "application/jsonx", "text/html", "text/css", "text/plain; charset=utf-8; format=flowed", ""}
			allowedType := func(ct string) bool {
				for _, pfx := range prefixes {
					if strings.HasPrefix(ct, pfx) {
						return true
					}
				}
				return false
			}
			body := c15Payload("text", 4000)
			for _, t1 := range types {
				for _, t2 := range types {
					ps, err := newProgServer([]config.PluginConfig{gzipCfg(5, 10, prefixes...)})
					if err != nil {
						t.Fatal(err)
					}
					e := &exch{addr: ps.addr}
					for k, ct := range []string{t1, t2, t1} {
						hdr := []wire.HeaderLine{}
						if ct != "" {
							hdr = append(hdr, wire.HeaderLine{"Content-Type", ct})
						}
						ps.set(&hprog{Status: 200, Header: hdr, Parts: [][]byte{body}})
						resp := e.do(&wire.Request{Method: "GET", Target: "/g", Header: []wire.HeaderLine{{"Host", "x.test"}, {"Accept-Encoding", "gzip"}}, NoBody: true}, dl)
						evals++
						compressed := resp.Get("Content-Encoding") != ""
						outs.Add(fmt.Sprintf("type-sequence/%v/%v", allowedType(ct), compressed))
						desc := fmt.Sprintf("content_types %q, responses of types %q, %q, %q in this order on one gzip instance: response %d (%q)", prefixes, t1, t2, t1, k+1, ct)
						got, derr := c15Decode(resp)
						switch {
						case resp.Err != "" || resp.Status != 200:
							r.Violate("C15/type-sequence/exchange-failed", fmt.Sprintf("%s: status %d %s", desc, resp.Status, resp.Err), k, nil)
						case derr != "" || !bytes.Equal(got, body):
							r.Violate("C15/type-sequence/decoded-body-differs", fmt.Sprintf("%s: decoding as labelled gives %d bytes (%s), the origin sent %d", desc, len(got), derr, len(body)), k, nil)
						case compressed && !allowedType(ct):
							r.Violate("C15/type-sequence/compressed-although-type-matches-no-prefix", fmt.Sprintf("%s was compressed although its content type starts with none of the configured prefixes", desc), k, map[string]interface{}{"engine": "W", "test": "TestVerifC15", "types": []string{t1, t2, t1}})
						}
					}
					e.close()
					ps.srv.Close()
				}
			}
		}
	}
	// mounting (a): the origin is a backend behind the real balancer and reverse proxy
	if shard == 0 || shards == 1 {
		be := wire.NewBackend("b0")
		mk := func(with bool) *helios {
			cfg := baseConfig("round_robin", be.URL())
			cfg.Plugins = config.PluginsConfig{Enabled: true, Chain: c15Positions["logging,gzip"](gzipCfg(5, 64, "text/", "application/json"), with)}
			h, err := startHelios(cfg)
			if err != nil {
				t.Fatal(err)
			}
			return h
		}
		hw, ho := mk(true), mk(false)
		ew, eo := &exch{addr: hw.addr}, &exch{addr: ho.addr}
		toScript := func(p *hprog) *wire.Script {
			return &wire.Script{Status: p.Status, Header: p.Header, Parts: p.Parts, DeclareLen: p.DeclareLen, FlushEach: p.FlushEach}
		}
		for _, ae := range []string{"-", "gzip", "br,gzip", "gzip;q=0"} {
			for _, ct := range []string{"text/html", "image/png"} {
				for _, sz := range []int{0, 63, 64, 65, 5000} {
					for _, pl := range []string{"text", "random", "pre-gzipped"} {
						for _, st := range []int{200, 404, 204} {
							if st == 204 && sz != 0 {
								continue
							}
							for _, decl := range []bool{true, false} {
								for _, m := range []string{"GET", "HEAD"} {
									c := c15Case{Pos: "logging,gzip", Level: 5, Min: 64, AE: ae, CType: ct, Size: sz, Payload: pl, Status: st, Declare: decl, Method: m, Writes: 1, FlushMid: !decl && sz > 0}
									runCase(c, "proxy",
										func(req *wire.Request, p *hprog) wire.Response { be.Next(toScript(p)); return ew.do(req, dl) },
										func(req *wire.Request, p *hprog) wire.Response { be.Next(toScript(p)); return eo.do(req, dl) })
								}
							}
						}
					}
				}
			}
		}
		ew.close()
		eo.close()
		hw.stop()
		ho.stop()
		be.Close()
	}
	r.AddScenario(vres.Scenario{Name: "gzip-exchanges", Engine: "W", Evaluations: evals, Distinct: int64(outs.N()), Outcomes: outs.N(),
		Rule:       "each case is one evaluation (exchanged with and without the gzip plugin over real connections, decoded as labelled); distinct = distinct (mounting, payload kind, received Content-Encoding, verdict) classes",
		Bound:      fmt.Sprintf("%d enumerated cases: core product (11 Accept-Encoding spellings x 4 content types x sizes around min_size x payloads x statuses x declared length x GET/HEAD) + levels x positions x min sizes + multi-write/flush programs + buffer-cap cases; plus the proxied mounting", len(cases)),
		Exhaustive: true, Sample: sample, Extra: map[string]interface{}{"wall_s": time.Since(start).Seconds()}})
}

// C15 under concurrency: several clients fetch different compressible bodies at the same time,
// each exchange on a fresh connection (its own server goroutine). Every client must decode
// exactly its own body; in a -race build state shared between concurrent responses (pooled
// buffers, scratch space) shows up as a data race.
func TestVerifC15Conc(t *testing.T) {
	part := "Conc"
	if vrt.RaceBuild {
		part = "Conc-Race"
	}
	r := vres.Open("C15", part)
	defer func() {
		if err := r.Close(); err != nil {
			t.Fatal(err)
		}
	}()
	shard, _ := shardOf()
	if shard != 0 {
		return
	}
	start := time.Now()
	var evals int64
	var outs vres.Outcomes
	var mu sync.Mutex
	for _, pos := range []string{"gzip", "logging,gzip", "size_limit,gzip"} {
		var h http.Handler = http.HandlerFunc(func(w http.ResponseWriter, req *http.Request) {
			// the origin serves a body determined by the request path: /<client>/<size>
			var client, size int
			fmt.Sscanf(req.URL.Path, "/%d/%d", &client, &size)
			w.Header().Set("Content-Type", "text/html")
			w.Write(c15ConcBody(client, size))
		})
		h, err := plugins.BuildChain(config.PluginsConfig{Enabled: true, Chain: c15Positions[pos](gzipCfg(5, 64, "text/"), true)}, h)
		if err != nil {
			t.Fatal(err)
		}
		l, err := net.Listen("tcp", "127.0.0.1:0")
		if err != nil {
			t.Fatal(err)
		}
		srv := &http.Server{Handler: h, ErrorLog: log.New(io.Discard, "", 0)}
		go srv.Serve(l)
		sizes := []int{65, 700, 3000, 40000, 100 * 1024}
		var wg sync.WaitGroup
		for c := 0; c < 8; c++ {
			wg.Add(1)
			go func(c int) {
				defer wg.Done()
				for round := 0; round < 6; round++ {
					size := sizes[(c+round)%len(sizes)]
					e := &exch{addr: l.Addr().String()}
					resp := e.do(&wire.Request{Method: "GET", Target: fmt.Sprintf("/%d/%d", c, size), Header: []wire.HeaderLine{{"Host", "x.test"}, {"Accept-Encoding", "gzip"}, {"Connection", "close"}}, NoBody: true}, 30*time.Second)
					e.close()
					got, derr := c15Decode(resp)
					want := c15ConcBody(c, size)
					mu.Lock()
					evals++
					switch {
					case derr != "":
						r.Violate("C15/concurrent/undecodable", fmt.Sprintf("pos=%s client %d size %d among 8 concurrent clients: %s", pos, c, size, derr), 1, nil)
						outs.Add("undecodable")
					case !bytes.Equal(got, want):
						r.Violate("C15/concurrent/decoded-body-is-not-the-clients-own", fmt.Sprintf("pos=%s client %d size %d among 8 concurrent clients: decoded %d bytes differing from its own body (equal prefix %d)", pos, c, size, len(got), commonPrefix(got, want)), 1, nil)
						outs.Add("foreign-body")
					default:
						outs.Add(fmt.Sprintf("ok/%s/enc=%s", pos, resp.Get("Content-Encoding")))
					}
					mu.Unlock()
				}
			}(c)
		}
		wg.Wait()
		srv.Close()
	}
	nr := vh.CollectRaces(func(key, what string) { r.Violate(key, what, 1, nil) }, "C15/concurrent")
	r.AddScenario(vres.Scenario{Name: "gzip-concurrent-clients", Engine: "W", Evaluations: evals, Distinct: int64(outs.N()) + 1, Outcomes: outs.N(),
		Rule:  "8 concurrent clients x 6 rounds x 3 chain positions, bodies of 65 B to 100 KiB marked per client, each exchange on a fresh connection; every client decodes its own body; in the -race build the detector judges the run",
		Bound: "144 exchanges per build", Exhaustive: true, Sample: map[string]interface{}{"race_reports": nr, "outcomes": outs.Map()},
		Extra: map[string]interface{}{"wall_s": time.Since(start).Seconds(), "note": "this part complements the enumerated product with real parallelism; its interleavings are those the Go runtime produces (stated in DESIGN.md section 3)"}})
}

func c15ConcBody(client, size int) []byte {
	line := fmt.Sprintf("<p>client-%d says hello in a rather compressible way</p>\n", client)
	return []byte(strings.Repeat(line, size/len(line)+1)[:size])
}
