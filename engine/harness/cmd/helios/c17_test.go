package main

import (
	"bytes"
	"fmt"
	"io"
	"net"
	"net/http"
	"net/http/httptest"
	"os"
	"os/exec"
	"path/filepath"
	"strings"
	"testing"
	"time"

	"github.com/0xReLogic/Helios/internal/config"
	"github.com/0xReLogic/Helios/internal/plugins"
	"github.com/0xReLogic/Helios/internal/zzverif/vres"
	"github.com/0xReLogic/Helios/internal/zzverif/wire"
)

// C17 plugin chain: order, gating, fail-closed start-up.

var c17Trace []string

func init() {
	// tracing probe registered through the public registration API
	plugins.RegisterBuiltin("zzprobe", func(name string, cfg map[string]interface{}) (plugins.Middleware, error) {
		id, _ := cfg["id"].(string)
		return func(next http.Handler) http.Handler {
			return http.HandlerFunc(func(w http.ResponseWriter, r *http.Request) {
				c17Trace = append(c17Trace, "enter:"+id)
				next.ServeHTTP(w, r)
				c17Trace = append(c17Trace, "exit:"+id)
			})
		}, nil
	})
}

var c17Valid = map[string]config.PluginConfig{
	"logging":     {Name: "logging"},
	"size_limit":  {Name: "size_limit", Config: map[string]interface{}{"max_request_body": 8, "max_response_body": 1 << 20}},
	"gzip":        {Name: "gzip", Config: map[string]interface{}{"level": float64(5), "min_size": float64(64), "content_types": []interface{}{"text/"}}},
	"headers":     {Name: "headers", Config: map[string]interface{}{"set": map[string]interface{}{"X-App": "Helios"}, "request_set": map[string]interface{}{"X-From": "LB"}}},
	"custom-auth": {Name: "custom-auth", Config: map[string]interface{}{"apiKey": "sesame"}},
	"request-id":  {Name: "request-id"},
}

var c17Names = []string{"logging", "size_limit", "gzip", "headers", "custom-auth", "request-id"}

func probe(i int) config.PluginConfig {
	return config.PluginConfig{Name: "zzprobe", Config: map[string]interface{}{"id": fmt.Sprint(i)}}
}

type c17Req struct {
	name   string
	key    bool
	body   int
	reject string // plugin kind that must reject it ("" = none)
	keyVal string // X-API-Key value when key is set ("" = the configured one)
	method string // "" = POST
}

// undeclared: the body is sent without a declared length (chunked): size_limit cannot refuse
// it up front, it has to cut it off where the limit is reached
func (rq c17Req) undeclared() bool { return strings.Contains(rq.name, "undeclared-length") }

// accept: what the request says about the answers it takes (a rejection may be worded for it;
// it stays a rejection)
func (rq c17Req) accept() string {
	switch {
	case strings.Contains(rq.name, "accept-json-q"):
		return "text/html;q=0.5, Application/JSON;q=0.9"
	case strings.Contains(rq.name, "accept-json"):
		return "application/json"
	case strings.Contains(rq.name, "accept-any"):
		return "*/*"
	case strings.Contains(rq.name, "accept-xml"):
		return "application/xml, text/xml"
	}
	return ""
}

// requests on both sides of each rejecting plugin's decision, including near misses
var c17Reqs = []c17Req{{"no-api-key-accept-json", false, 4, "custom-auth", "", ""}, {"wrong-key-accept-json-q", true, 4, "custom-auth", "sesam", ""}, {"no-api-key-accept-any", false, 4, "custom-auth", "", ""},
	{"no-api-key-accept-xml", false, 4, "custom-auth", "", "GET"}, {"oversized-body-accept-json", true, 64, "size_limit", "", ""}, {"accepted-accept-json", true, 4, "", "", ""},
	{"oversized-body-undeclared-length", true, 64, "", "", ""}, {"body-at-limit-undeclared-length", true, 8, "", "", ""}, {"accepted", true, 4, "", "", ""}, {"no-api-key", false, 4, "custom-auth", "", ""}, {"oversized-body", true, 64, "size_limit", "", ""},
	{"body-at-limit", true, 8, "", "", ""}, {"body-one-over-limit", true, 9, "size_limit", "", ""},
	{"key-other-case", true, 4, "custom-auth", "SESAME", ""}, {"key-capitalised", true, 4, "custom-auth", "Sesame", ""},
	{"key-prefix", true, 4, "custom-auth", "sesam", ""}, {"key-extended", true, 4, "custom-auth", "sesame1", ""},
	{"key-in-list", true, 4, "custom-auth", "sesame, sesame", ""}, {"key-quoted", true, 4, "custom-auth", "\"sesame\"", ""},
	// a rejection does not depend on the method: bodies on methods that usually carry none,
	// missing credentials on read-only methods
	{"oversized-body-GET", true, 64, "size_limit", "", "GET"}, {"oversized-body-PUT", true, 64, "size_limit", "", "PUT"},
	{"oversized-body-DELETE", true, 9, "size_limit", "", "DELETE"}, {"oversized-body-OPTIONS", true, 64, "size_limit", "", "OPTIONS"},
	{"oversized-body-PATCH", true, 9, "size_limit", "", "PATCH"}, {"body-at-limit-GET", true, 8, "", "", "GET"},
	{"no-api-key-GET", false, 0, "custom-auth", "", "GET"}, {"no-api-key-HEAD", false, 0, "custom-auth", "", "HEAD"}, {"no-api-key-OPTIONS", false, 4, "custom-auth", "", "OPTIONS"}}

func c17Order(r *vres.Report, maxLen int) {
	start := time.Now()
	var chains, evals int64
	var outs vres.Outcomes
	var sample interface{}
	shard, shards := shardOf()
	seq := make([]int, 0, maxLen)
	var rec func()
	idx := 0
	rec = func() {
		idx++
		if idx%shards == shard {
			chains++
			// P0 X1 P1 X2 P2 ... Xk Pk
			var chain []config.PluginConfig
			chain = append(chain, probe(0))
			for i, s := range seq {
				chain = append(chain, c17Valid[c17Names[s]], probe(i+1))
			}
			baseHits, baseRead := 0, int64(0)
			h, err := plugins.BuildChain(config.PluginsConfig{Enabled: true, Chain: chain}, http.HandlerFunc(func(w http.ResponseWriter, r *http.Request) {
				baseHits++
				baseRead, _ = io.Copy(io.Discard, r.Body)
				c17Trace = append(c17Trace, "base")
				w.Header().Set("Content-Type", "text/plain")
				w.Write([]byte("ok"))
			}))
			names := make([]string, len(seq))
			for i, s := range seq {
				names[i] = c17Names[s]
			}
			if err != nil {
				r.Violate("C17/valid-chain-rejected", fmt.Sprintf("chain %v with valid configurations: %v", names, err), len(seq), map[string]interface{}{"chain": names})
				return
			}
			for _, rq := range c17Reqs {
				c17Trace = nil
				baseHits, baseRead = 0, 0
				method := rq.method
				if method == "" {
					method = "POST"
				}
				req := httptest.NewRequest(method, "http://x.test/p", bytes.NewReader(pattern(rq.body, 1)))
				if rq.key {
					kv := rq.keyVal
					if kv == "" {
						kv = "sesame"
					}
					req.Header.Set("X-API-Key", kv)
				}
				if a := rq.accept(); a != "" {
					req.Header.Set("Accept", a)
				}
				if rq.undeclared() {
					req.ContentLength = -1
					req.TransferEncoding = []string{"chunked"}
				}
				rec := httptest.NewRecorder()
				h.ServeHTTP(rec, req)
				evals++
				// expected: probes 0..cut entered, where cut = index of the first rejecting plugin
				cut := len(seq)
				rejected := false
				for i, n := range names {
					if n == rq.reject {
						cut, rejected = i, true
						break
					}
				}
				var want []string
				for i := 0; i <= cut; i++ {
					want = append(want, fmt.Sprintf("enter:%d", i))
				}
				if !rejected {
					want = append(want, "base")
				}
				for i := cut; i >= 0; i-- {
					want = append(want, fmt.Sprintf("exit:%d", i))
				}
				outs.Add(fmt.Sprintf("len%d/%s/rejected=%v/status=%d", len(seq), rq.name, rejected, rec.Code))
				desc := fmt.Sprintf("chain %v, request %s", names, rq.name)
				if fmt.Sprint(c17Trace) != fmt.Sprint(want) {
					key := "C17/order/probes-not-in-configured-order"
					if rejected {
						key = "C17/gating/plugin-after-rejection-ran"
					}
					r.Violate(key, fmt.Sprintf("%s: trace %v, expected %v", desc, c17Trace, want), len(seq)*10, map[string]interface{}{"chain": names, "request": rq.name})
				}
				if rejected && baseHits != 0 {
					r.Violate("C17/gating/backend-reached-after-rejection", desc+": the base handler ran although "+rq.reject+" rejects the request", len(seq)*10, map[string]interface{}{"chain": names, "request": rq.name})
				}
				if rq.undeclared() {
					// what is over the upload limit never gets past size_limit, declared or not
					for _, n := range names {
						if n == "size_limit" && baseRead > 8 {
							r.Violate("C17/gating/oversized-upload-passed-size-limit", fmt.Sprintf("%s: the handler behind size_limit (max_request_body 8) read %d bytes of a %d-byte upload sent without a declared length", desc, baseRead, rq.body), len(seq)*10, map[string]interface{}{"chain": names, "request": rq.name})
							break
						}
					}
				}
				if rejected && (rec.Code < 400) {
					r.Violate("C17/gating/rejection-not-an-error-status", fmt.Sprintf("%s: status %d", desc, rec.Code), len(seq)*10, nil)
				}
				if sample == nil && len(seq) == 3 && rejected {
					sample = map[string]interface{}{"chain": names, "request": rq.name, "trace": append([]string(nil), c17Trace...), "status": rec.Code}
				}
			}
		}
		if len(seq) == maxLen {
			return
		}
		for s := range c17Names {
			seq = append(seq, s)
			rec()
			seq = seq[:len(seq)-1]
		}
	}
	rec()
	r.AddScenario(vres.Scenario{Name: "chain-order-and-gating", Engine: "W", Evaluations: evals, Distinct: int64(outs.N()), Outcomes: outs.N(),
		Rule:  "every sequence of built-in plugins up to the length, tracing probes at every position, twenty requests each (accepted; bodies at and one over the upload limit and far over it, on POST and on GET/PUT/DELETE/OPTIONS/PATCH; no API key on POST/GET/HEAD/OPTIONS and six near-miss keys); distinct = (length, request, rejected, status) classes",
		Bound: fmt.Sprintf("all %d-ary sequences of length <= %d (this shard: %d chains)", len(c17Names), maxLen, chains), Exhaustive: true, Sample: sample,
		Extra: map[string]interface{}{"wall_s": time.Since(start).Seconds()}})
}

type c17Bad struct {
	label string
	pc    config.PluginConfig
}

func c17Invalid() []c17Bad {
	m := func(kv ...interface{}) map[string]interface{} {
		out := map[string]interface{}{}
		for i := 0; i+1 < len(kv); i += 2 {
			out[kv[i].(string)] = kv[i+1]
		}
		return out
	}
	list := []interface{}{"text/"}
	return []c17Bad{
		{"unknown-plugin", config.PluginConfig{Name: "no-such-plugin"}},
		{"empty-name", config.PluginConfig{Name: ""}},
		{"misspelt-name", config.PluginConfig{Name: "size-limit", Config: m("max_request_body", 8)}},
		{"size_limit:request-string", config.PluginConfig{Name: "size_limit", Config: m("max_request_body", "10MB")}},
		{"size_limit:request-zero", config.PluginConfig{Name: "size_limit", Config: m("max_request_body", 0)}},
		{"size_limit:request-negative", config.PluginConfig{Name: "size_limit", Config: m("max_request_body", -5)}},
		{"size_limit:response-list", config.PluginConfig{Name: "size_limit", Config: m("max_response_body", []interface{}{1})}},
		{"size_limit:response-zero", config.PluginConfig{Name: "size_limit", Config: m("max_response_body", 0.0)}},
		{"gzip:no-config", config.PluginConfig{Name: "gzip"}},
		{"gzip:level-string", config.PluginConfig{Name: "gzip", Config: m("level", "5", "min_size", 64.0, "content_types", list)}},
		{"gzip:level-10", config.PluginConfig{Name: "gzip", Config: m("level", 10.0, "min_size", 64.0, "content_types", list)}},
		{"gzip:level-minus-2", config.PluginConfig{Name: "gzip", Config: m("level", -2.0, "min_size", 64.0, "content_types", list)}},
		{"gzip:min_size-missing", config.PluginConfig{Name: "gzip", Config: m("level", 5.0, "content_types", list)}},
		{"gzip:min_size-string", config.PluginConfig{Name: "gzip", Config: m("level", 5.0, "min_size", "1k", "content_types", list)}},
		{"gzip:types-missing", config.PluginConfig{Name: "gzip", Config: m("level", 5.0, "min_size", 64.0)}},
		{"gzip:types-scalar", config.PluginConfig{Name: "gzip", Config: m("level", 5.0, "min_size", 64.0, "content_types", "text/html")}},
		{"gzip:types-numbers", config.PluginConfig{Name: "gzip", Config: m("level", 5.0, "min_size", 64.0, "content_types", []interface{}{1, 2})}},
		{"headers:set-scalar", config.PluginConfig{Name: "headers", Config: m("set", "X-App: Helios")}},
		{"headers:set-number-value", config.PluginConfig{Name: "headers", Config: m("set", map[string]interface{}{"X-N": 5})}},
		{"headers:request_set-list", config.PluginConfig{Name: "headers", Config: m("request_set", []interface{}{"a"})}},
		// a header name that is not a token, a value that would end the header line: net/http
		// drops such a response header silently and refuses to send such a request header
		{"headers:set-name-with-spaces", config.PluginConfig{Name: "headers", Config: m("set", map[string]interface{}{"X Frame Options": "DENY"})}},
		{"headers:set-empty-name", config.PluginConfig{Name: "headers", Config: m("set", map[string]interface{}{"": "v"})}},
		{"headers:set-value-with-line-break", config.PluginConfig{Name: "headers", Config: m("set", map[string]interface{}{"X-App": "a\r\nX-Injected: 1"})}},
		{"headers:request_set-name-with-colon", config.PluginConfig{Name: "headers", Config: m("request_set", map[string]interface{}{"X-From:": "LB"})}},
		// an option the plugin does not know (a misspelt one: the limit / the key the operator
		// meant is then not in force)
		{"size_limit:misspelt-option", config.PluginConfig{Name: "size_limit", Config: m("max_request_size", 8)}},
		{"size_limit:extra-option", config.PluginConfig{Name: "size_limit", Config: m("max_request_body", 8, "max_reponse_body", 8)}},
		{"custom-auth:misspelt-option", config.PluginConfig{Name: "custom-auth", Config: m("apiKey", "sesame", "api_key", "other")}},
		{"gzip:extra-option", config.PluginConfig{Name: "gzip", Config: m("level", 5.0, "min_size", 64.0, "content_types", list, "min-size", 1.0)}},
		{"logging:unknown-option", config.PluginConfig{Name: "logging", Config: m("level", "debug")}},
		{"custom-auth:no-key", config.PluginConfig{Name: "custom-auth"}},
		{"custom-auth:empty-key", config.PluginConfig{Name: "custom-auth", Config: m("apiKey", "")}},
		{"custom-auth:number-key", config.PluginConfig{Name: "custom-auth", Config: m("apiKey", 12345)}},
	}
}

func c17FailClosed(r *vres.Report, maxLen int) {
	start := time.Now()
	var evals int64
	var outs vres.Outcomes
	shard, shards := shardOf()
	be := wire.NewBackend("b0")
	defer be.Close()
	base := http.HandlerFunc(func(w http.ResponseWriter, r *http.Request) {})
	bad := c17Invalid()
	var ctxs [][]int
	var gen func(cur []int)
	gen = func(cur []int) {
		ctxs = append(ctxs, append([]int(nil), cur...))
		if len(cur) == maxLen-1 {
			return
		}
		for s := range c17Names {
			gen(append(cur, s))
		}
	}
	gen(nil)
	idx := 0
	for _, ctx := range ctxs {
		for pos := 0; pos <= len(ctx); pos++ {
			for _, b := range bad {
				idx++
				if idx%shards != shard {
					continue
				}
				var chain []config.PluginConfig
				var names []string
				for i, s := range ctx {
					if i == pos {
						chain = append(chain, b.pc)
						names = append(names, "<"+b.label+">")
					}
					chain = append(chain, c17Valid[c17Names[s]])
					names = append(names, c17Names[s])
				}
				if pos == len(ctx) {
					chain = append(chain, b.pc)
					names = append(names, "<"+b.label+">")
				}
				pc := config.PluginsConfig{Enabled: true, Chain: chain}
				_, err := plugins.BuildChain(pc, base)
				evals++
				outs.Add(fmt.Sprintf("%s/err=%v", b.label, err != nil))
				if err == nil {
					r.Violate("C17/fail-closed/invalid-plugin-config-accepted/"+b.label, fmt.Sprintf("BuildChain accepted chain %v", names), len(ctx), map[string]interface{}{"chain": names})
					continue
				}
				if len(ctx) <= 1 {
					// the start-up path proper
					cfg := baseConfig("round_robin", be.URL())
					cfg.Plugins = pc
					if _, err := startHelios(cfg); err == nil {
						r.Violate("C17/fail-closed/handler-built-with-invalid-chain/"+b.label, fmt.Sprintf("buildHandler succeeded for chain %v", names), len(ctx), nil)
					}
					evals++
				}
			}
		}
	}
	r.AddScenario(vres.Scenario{Name: "fail-closed-construction", Engine: "W", Evaluations: evals, Distinct: int64(outs.N()), Outcomes: outs.N(),
		Rule:  fmt.Sprintf("each of %d invalid plugin entries (unknown / empty / misspelt name; missing, wrong-typed, zero, negative, out-of-range options) at every position of every chain of up to %d valid plugins; BuildChain (and buildHandler for contexts <= 1) must return an error", len(bad), maxLen-1),
		Bound: "full product", Exhaustive: true, Sample: map[string]interface{}{"invalid_entry": bad[5].label, "config": bad[5].pc.Config},
		Extra: map[string]interface{}{"wall_s": time.Since(start).Seconds()}})
}

func freePort() int {
	l, err := net.Listen("tcp", "127.0.0.1:0")
	if err != nil {
		panic(err)
	}
	p := l.Addr().(*net.TCPAddr).Port
	l.Close()
	return p
}

// engine P: the real binary must exit non-zero and never accept on the proxy port
func c17Binary(t *testing.T, r *vres.Report) {
	bin := os.Getenv("VERIF_HELIOS_BIN")
	if bin == "" {
		r.Note("engine P skipped: VERIF_HELIOS_BIN not set")
		return
	}
	shard, _ := shardOf()
	if shard != 0 {
		return
	}
	start := time.Now()
	be := wire.NewBackend("b0")
	defer be.Close()
	chains := map[string]string{
		"unknown-plugin":      "    - name: no-such-plugin\n",
		"gzip-level-string":   "    - name: gzip\n      config:\n        level: \"fast\"\n        min_size: 64\n        content_types: [\"text/\"]\n",
		"size_limit-negative": "    - name: logging\n    - name: size_limit\n      config:\n        max_request_body: -1\n",
		"custom-auth-no-key":  "    - name: custom-auth\n",
		"headers-scalar":      "    - name: headers\n      config:\n        set: nope\n",
		// the keys of a chain entry themselves: "config" misspelt, capitalised, or an option
		// written one level too high - the options the operator gave are then not in force
		"misspelt-config-key":     "    - name: size_limit\n      confg:\n        max_request_body: 100\n",
		"capitalised-config-key":  "    - name: size_limit\n      Config:\n        max_request_body: 100\n",
		"option-at-entry-level":   "    - name: size_limit\n      max_request_body: 100\n",
		"auth-key-at-entry-level": "    - name: custom-auth\n      config:\n        apiKey: sesame\n      enabled: false\n",
		// and of the plugins section: a chain under a misspelt key is no chain at all
		"@misspelt-chain-key":   "plugins:\n  enabled: true\n  chains:\n    - name: custom-auth\n      config:\n        apiKey: sesame\n",
		"@misspelt-enabled-key": "plugins:\n  enable: true\n  chain:\n    - name: custom-auth\n      config:\n        apiKey: sesame\n",
		// the same misspelt keys arriving through YAML's own means of sharing settings: flow
		// style, an aliased entry, a merge key with one alias and with a list of aliases (the
		// decoder merges the keys in and drops the ones the structure does not have)
		"flow-style-misspelt":            "    - {name: size_limit, confg: {max_request_body: 100}}\n",
		"@alias-entry-misspelt":          "x-entries:\n  - &sl\n    name: size_limit\n    confg:\n      max_request_body: 100\nplugins:\n  enabled: true\n  chain:\n    - *sl\n",
		"@merge-single-misspelt":         "x-a: &a\n  confg:\n    max_request_body: 100\nplugins:\n  enabled: true\n  chain:\n    - name: size_limit\n      <<: *a\n",
		"@merge-list-misspelt":           "x-a: &a\n  name: size_limit\nx-b: &b\n  confg:\n    max_request_body: 100\nplugins:\n  enabled: true\n  chain:\n    - <<: [*a, *b]\n",
		"@merge-list-misspelt-second":    "x-a: &a\n  confg:\n    max_request_body: 100\nx-b: &b\n  name: size_limit\nplugins:\n  enabled: true\n  chain:\n    - <<: [*b, *a]\n",
		"@plugins-merge-list-misspelt":   "x-p: &p\n  enable: true\nx-q: &q\n  chain:\n    - name: custom-auth\n      config:\n        apiKey: sesame\nplugins:\n  <<: [*q, *p]\n",
		"@plugins-merge-single-misspelt": "x-p: &p\n  enable: true\n  chain:\n    - name: custom-auth\n      config:\n        apiKey: sesame\nplugins:\n  <<: *p\n",
	}
	dir := t.TempDir()
	var evals int64
	var outs vres.Outcomes
	for label, chain := range chains {
		port := freePort()
		yaml := fmt.Sprintf("server:\n  port: %d\nbackends:\n  - name: b0\n    address: %q\nload_balancer:\n  strategy: round_robin\nplugins:\n  enabled: true\n  chain:\n%slogging:\n  level: error\n  format: json\n", port, be.URL(), chain)
		if strings.HasPrefix(label, "@") {
			yaml = fmt.Sprintf("server:\n  port: %d\nbackends:\n  - name: b0\n    address: %q\nload_balancer:\n  strategy: round_robin\n%slogging:\n  level: error\n  format: json\n", port, be.URL(), chain)
		}
		path := filepath.Join(dir, label+".yaml")
		os.WriteFile(path, []byte(yaml), 0o644)
		cmd := exec.Command(bin, "-config", path)
		var out bytes.Buffer
		cmd.Stdout, cmd.Stderr = &out, &out
		if err := cmd.Start(); err != nil {
			t.Fatal(err)
		}
		done := make(chan error, 1)
		go func() { done <- cmd.Wait() }()
		accepted := false
		exited := false
		var werr error
		deadline := time.After(15 * time.Second)
	loop:
		for {
			select {
			case werr = <-done:
				exited = true
				break loop
			case <-deadline:
				break loop
			case <-time.After(20 * time.Millisecond):
				if c, err := net.DialTimeout("tcp", fmt.Sprintf("127.0.0.1:%d", port), 200*time.Millisecond); err == nil {
					accepted = true
					c.Close()
				}
			}
		}
		if !exited {
			cmd.Process.Kill()
			<-done
		}
		evals++
		outs.Add(fmt.Sprintf("%s/exited=%v/accepted=%v", label, exited, accepted))
		switch {
		case accepted:
			r.Violate("C17/fail-closed/binary-served-with-invalid-chain/"+label, "the real binary accepted a connection on the proxy port with an invalid plugin chain", 1, map[string]interface{}{"yaml": yaml})
		case !exited:
			r.Violate("C17/fail-closed/binary-did-not-exit/"+label, "the real binary neither served nor exited within 15s", 1, map[string]interface{}{"yaml": yaml})
		case werr == nil:
			r.Violate("C17/fail-closed/binary-exit-status-zero/"+label, "the real binary exited with status 0 for an invalid plugin chain: "+strings.TrimSpace(out.String()), 1, map[string]interface{}{"yaml": yaml})
		}
	}
	r.AddScenario(vres.Scenario{Name: "fail-closed-binary", Engine: "P", Evaluations: evals, Distinct: int64(outs.N()), Outcomes: outs.N(),
		Rule: "the real binary is started on generated YAML with one invalid chain per plugin; it must exit non-zero without ever accepting a connection on the proxy port", Bound: fmt.Sprintf("%d configurations (invalid options per plugin; misspelt keys of a chain entry and of the plugins section, written out and arriving through flow style, aliases and merge keys)", len(chains)),
		Exhaustive: true, Sample: map[string]interface{}{"chain": "custom-auth without apiKey"}, Extra: map[string]interface{}{"wall_s": time.Since(start).Seconds()}})
}

func TestVerifC17(t *testing.T) {
	r := vres.Open("C17", "W")
	defer func() {
		if err := r.Close(); err != nil {
			t.Fatal(err)
		}
	}()
	maxLen, ctxLen := 4, 3
	if vres.Thorough() {
		maxLen, ctxLen = 6, 4
	}
	c17Order(r, maxLen)
	c17FailClosed(r, ctxLen)
	c17OddKeys(r)
	c17Wired(t, r)
	c17Binary(t, r)
}

// c17Wired: the gating clause through the handler that main() wires up (buildHandler +
// createHTTPServer) rather than through BuildChain alone, on instances with the documented
// server options set or left out (timeouts incl. the handler timeout, ID middleware), for
// ordinary requests and for requests that ask for a protocol upgrade: a rejection by
// custom-auth or size_limit keeps the request from the backend whatever the wiring adds.
func c17Wired(t *testing.T, r *vres.Report) {
	shard, _ := shardOf()
	if shard != 0 {
		return
	}
	start := time.Now()
	var evals int64
	var outs vres.Outcomes
	for _, wiring := range []string{"defaults", "all-timeouts-5s", "handler-timeout-only", "ids-on"} {
		for _, chainName := range []string{"custom-auth", "size_limit", "logging,custom-auth,size_limit,gzip"} {
			be := wire.NewBackend("b0")
			cfg := baseConfig("round_robin", be.URL())
			switch wiring {
			case "all-timeouts-5s":
				cfg.Server.Timeouts = config.TimeoutConfig{Read: 5, Write: 5, Idle: 5, Handler: 5, Shutdown: 5, BackendDial: 5, BackendRead: 5, BackendIdle: 5}
			case "handler-timeout-only":
				cfg.Server.Timeouts = config.TimeoutConfig{Handler: 30}
			case "ids-on":
				cfg.Logging.RequestID = config.RequestIDConfig{Enabled: true}
				cfg.Logging.Trace = config.TraceConfig{Enabled: true}
			}
			cfg.Plugins.Enabled = true
			for _, n := range strings.Split(chainName, ",") {
				pc := c17Valid[n]
				if n == "size_limit" {
					pc = sizeLimitCfg(8, 1<<20)
				}
				cfg.Plugins.Chain = append(cfg.Plugins.Chain, pc)
			}
			h, err := startHelios(cfg)
			if err != nil {
				r.Violate("C17/valid-chain-rejected/wired", fmt.Sprintf("wiring %s, chain %s: %v", wiring, chainName, err), 1, nil)
				be.Close()
				continue
			}
			e := &exch{addr: h.addr}
			hasAuth, hasLimit := strings.Contains(chainName, "custom-auth"), strings.Contains(chainName, "size_limit")
			for _, kind := range []string{"plain", "upgrade-websocket", "upgrade-h2c", "upgrade-in-list"} {
				for _, rq := range []struct {
					name    string
					key     bool
					body    int
					rejects bool
				}{{"accepted", true, 4, false}, {"no-api-key", false, 4, hasAuth}, {"oversized-body", true, 64, hasLimit}, {"no-key-and-oversized", false, 64, hasAuth || hasLimit}} {
					req := &wire.Request{Method: "POST", Target: "/w", Header: []wire.HeaderLine{{"Host", "x.test"}}, Body: pattern(rq.body, 3)}
					if rq.key {
						req.Header = append(req.Header, wire.HeaderLine{"X-API-Key", "sesame"})
					}
					switch kind {
					case "upgrade-websocket":
						req.Header = append(req.Header, wire.HeaderLine{"Connection", "Upgrade"}, wire.HeaderLine{"Upgrade", "websocket"})
					case "upgrade-h2c":
						req.Header = append(req.Header, wire.HeaderLine{"Connection", "Upgrade, HTTP2-Settings"}, wire.HeaderLine{"Upgrade", "h2c"}, wire.HeaderLine{"HTTP2-Settings", "AAMAAABkAAQAAP__"})
					case "upgrade-in-list":
						req.Header = append(req.Header, wire.HeaderLine{"Connection", "keep-alive, upgrade"}, wire.HeaderLine{"Upgrade", "websocket"})
					}
					be.TakeSeen()
					be.Next(&wire.Script{Status: 200, Parts: [][]byte{[]byte("ok")}, DeclareLen: true})
					resp := e.do(req, 15*time.Second)
					be.WaitIdle()
					seen := be.TakeSeen()
					evals++
					desc := fmt.Sprintf("wiring %s, chain [%s], %s request, %s", wiring, chainName, kind, rq.name)
					outs.Add(fmt.Sprintf("%s/%s/%v/%d", wiring, kind, rq.rejects, resp.Status))
					switch {
					case rq.rejects && len(seen) > 0:
						r.Violate("C17/gating/backend-reached-after-rejection/wired", fmt.Sprintf("%s: the backend received the request (status %d)", desc, resp.Status), 10, map[string]interface{}{"engine": "W", "test": "TestVerifC17", "wiring": wiring, "chain": chainName, "kind": kind, "request": rq.name})
					case rq.rejects && (resp.Err != "" || resp.Status < 400):
						r.Violate("C17/gating/rejection-not-an-error-status/wired", fmt.Sprintf("%s: status %d %s", desc, resp.Status, resp.Err), 10, nil)
					case !rq.rejects && (resp.Err != "" || resp.Status != 200 || len(seen) != 1):
						r.Violate("C17/accepted-request-not-served/wired", fmt.Sprintf("%s: status %d %s, backend contacted %d times", desc, resp.Status, resp.Err, len(seen)), 10, nil)
					}
					be.Next(nil)
				}
			}
			e.close()
			h.stop()
			be.Close()
		}
	}
	r.AddScenario(vres.Scenario{Name: "gating-through-the-wired-handler", Engine: "W", Evaluations: evals, Distinct: int64(outs.N()), Outcomes: outs.N(),
		Rule:  "one evaluation = one request through buildHandler + createHTTPServer in front of a scripted backend; distinct = (wiring, request kind, must be rejected, status) classes",
		Bound: "4 wirings (defaults, every timeout set, handler timeout only, ID middleware) x 3 chains x 4 request kinds (plain, three upgrade-asking spellings) x 4 requests", Exhaustive: true,
		Extra: map[string]interface{}{"wall_s": time.Since(start).Seconds()}})
}

// c17OddKeys: unusual but non-empty apiKey payloads. Whatever the factory makes of them (it may
// refuse them: fail closed), a chain that does start must still reject a request that carries no
// credential, an empty one, or a blank one.
func c17OddKeys(r *vres.Report) {
	shard, _ := shardOf()
	if shard != 0 {
		return
	}
	var evals int64
	var outs vres.Outcomes
	for _, key := range []string{" ", "\t", " \n", "  sesame  ", "sesame ", "a b", "0", "false", "null"} {
		for _, pos := range []int{0, 1} {
			chain := []config.PluginConfig{probe(0), {Name: "custom-auth", Config: map[string]interface{}{"apiKey": key}}, probe(1)}
			if pos == 1 {
				chain = append([]config.PluginConfig{{Name: "logging"}}, chain...)
			}
			base := 0
			h, err := plugins.BuildChain(config.PluginsConfig{Enabled: true, Chain: chain}, http.HandlerFunc(func(w http.ResponseWriter, r *http.Request) {
				base++
				w.Write([]byte("ok"))
			}))
			if err != nil {
				outs.Add("refused-at-startup")
				continue
			}
			for _, cred := range []struct {
				label string
				set   bool
				val   string
			}{{"no-header", false, ""}, {"empty-header", true, ""}, {"blank-header", true, " "}, {"wrong", true, "nope"}} {
				if cred.set && cred.val == key {
					continue // that is the configured credential
				}
				c17Trace = nil
				base = 0
				req := httptest.NewRequest("GET", "http://x.test/p", nil)
				if cred.set {
					req.Header["X-Api-Key"] = []string{cred.val}
				}
				rec := httptest.NewRecorder()
				h.ServeHTTP(rec, req)
				evals++
				outs.Add(fmt.Sprintf("%s/%d", cred.label, rec.Code))
				if base != 0 || rec.Code < 400 {
					r.Violate("C17/gating/request-without-credential-admitted", fmt.Sprintf("custom-auth configured with apiKey %q: a request with %s got status %d and reached the backend %d time(s)", key, cred.label, rec.Code, base), 1,
						map[string]interface{}{"apiKey": key, "request": cred.label})
				}
			}
		}
	}
	r.AddScenario(vres.Scenario{Name: "odd-api-keys", Engine: "W", Evaluations: evals, Distinct: int64(outs.N()), Outcomes: outs.N(),
		Rule:  "custom-auth built with nine unusual non-empty apiKey payloads (blank, padded, with inner space, scalars that look like other YAML types) at two chain positions; requests with no, an empty, a blank and a wrong credential must all be rejected before the backend (or the chain must refuse to start)",
		Bound: "full product", Exhaustive: true})
}
