package main

import (
	"bytes"
	"fmt"
	"net"
	"os"
	"os/exec"
	"path/filepath"
	"strings"
	"testing"
	"time"

	"github.com/0xReLogic/Helios/internal/config"
	"github.com/0xReLogic/Helios/internal/zzverif/vres"
	"github.com/0xReLogic/Helios/internal/zzverif/wire"
	"gopkg.in/yaml.v3"
)

// C10, engine P: the Admin API as the real binary mounts it. The wire part drives
// adminapi.NewMux behind a listener that can forge peer addresses; how main() wires that
// handler (which configuration it is given, on which port it listens, what the other two
// listeners serve) is only visible through the process. For every combination of {token unset /
// set} x allow list {none, loopback, a network that does not contain loopback} x deny list {none,
// loopback/32} the binary is started from a YAML file with all three listeners enabled and asked,
// from loopback, every endpoint of the wire part's menu with no / a wrong / the exact credential.
// Reference: the wire part's ipVerdict for peer 127.0.0.1 and the token rule. Mutating requests
// are only sent where the reference refuses them; afterwards the backend list must be what the
// file said. The proxy port and the metrics port must not answer Admin API paths themselves.

func TestVerifC10P(t *testing.T) {
	r := vres.Open("C10", "P")
	defer func() {
		if err := r.Close(); err != nil {
			t.Fatal(err)
		}
	}()
	bin := os.Getenv("VERIF_HELIOS_BIN")
	if bin == "" {
		r.Note("engine P skipped: VERIF_HELIOS_BIN not set")
		return
	}
	repo := os.Getenv("VERIF_REPO")
	if repo == "" {
		repo = "/repo"
	}
	dir, err := os.MkdirTemp("", "verif-c10p-")
	if err != nil {
		t.Fatal(err)
	}
	defer os.RemoveAll(dir)
	start := time.Now()
	shard, shards := shardOf()
	var evals int64
	var outs vres.Outcomes
	const token = "s3cr3t-token"
	auths := []struct {
		label string
		line  string
		exact bool
	}{{"absent", "", false}, {"wrong", "Bearer nope", false}, {"exact", "Bearer " + token, true}}
	idx := 0
	for _, tok := range []string{"", token} {
		for _, allow := range [][]string{nil, {"127.0.0.1"}, {"10.0.0.0/8"}} {
			for _, deny := range [][]string{nil, {"127.0.0.1/32"}} {
				idx++
				if idx%shards != shard {
					continue
				}
				pp, ap, mp := freePort(), freePort(), freePort()
				cfg := baseConfig("round_robin", "http://127.0.0.1:9")
				cfg.Server.Port = pp
				cfg.Backends[0].Name = "secretbackend"
				cfg.AdminAPI = config.AdminAPIConfig{Enabled: true, Port: ap, AuthToken: tok, IPAllowList: allow, IPDenyList: deny}
				cfg.Metrics = config.MetricsConfig{Enabled: true, Port: mp, Path: "/metrics"}
				y, err := yaml.Marshal(cfg)
				if err != nil {
					t.Fatal(err)
				}
				path := filepath.Join(dir, fmt.Sprintf("c10p-%d.yaml", idx))
				os.WriteFile(path, y, 0o644)
				if _, err := config.LoadConfig(path); err != nil {
					t.Fatalf("the harness configuration does not load: %v", err)
				}
				cmd := exec.Command(bin, "-config", path)
				cmd.Dir = repo
				var out bytes.Buffer
				cmd.Stdout, cmd.Stderr = &out, &out
				if err := cmd.Start(); err != nil {
					t.Fatal(err)
				}
				done := make(chan error, 1)
				go func() { done <- cmd.Wait() }()
				stop := func() {
					cmd.Process.Kill()
					<-done
				}
				desc0 := fmt.Sprintf("token=%v allow=%v deny=%v", tok != "", allow, deny)
				// wait for the three listeners
				up := func(port int) bool {
					deadline := time.Now().Add(20 * time.Second)
					for time.Now().Before(deadline) {
						select {
						case err := <-done:
							done <- err
							return false
						default:
						}
						c, err := net.DialTimeout("tcp", fmt.Sprintf("127.0.0.1:%d", port), 300*time.Millisecond)
						if err == nil {
							c.Close()
							return true
						}
						time.Sleep(30 * time.Millisecond)
					}
					return false
				}
				if !up(pp) || !up(ap) || !up(mp) {
					stop()
					t.Fatalf("%s: the binary did not open its three listeners: %s", desc0, lastLines(out.String(), 3))
				}
				ask := func(port int, req *wire.Request) wire.Response {
					c, err := wire.Dial(fmt.Sprintf("127.0.0.1:%d", port))
					if err != nil {
						return wire.Response{Err: "dial: " + err.Error()}
					}
					defer c.Close()
					req.Header = append(req.Header, wire.HeaderLine{"Connection", "close"})
					return c.Do(req, 10*time.Second)
				}
				ipw := ipVerdict("127.0.0.1", allow, deny)
				for _, au := range auths {
					for _, ep := range c10Endpoints {
						needAuth := tok != "" && ep.protected
						authOK := !needAuth || au.exact
						if ep.mutates && ipw == "serve" && authOK {
							continue // would be carried out
						}
						var hdr []wire.HeaderLine
						if au.line != "" {
							hdr = append(hdr, wire.HeaderLine{"Authorization", au.line})
						}
						resp := ask(ap, ep.request(hdr...))
						evals++
						served := resp.Err == "" && resp.Status != 401 && resp.Status != 403
						desc := fmt.Sprintf("%s authorization=%s %s %s (real binary, from loopback)", desc0, au.label, ep.method, ep.path)
						outs.Add(fmt.Sprintf("%s/%v/%v/%v", ipw, needAuth, authOK, served))
						ctx := map[string]interface{}{"engine": "P", "test": "TestVerifC10P", "token": tok != "", "allow": allow, "deny": deny, "authorization": au.label, "endpoint": ep.method + " " + ep.path}
						switch {
						case resp.Err != "":
							r.Violate("C10/binary/admin-response-broken", desc+": "+resp.Err, 5, ctx)
						case ipw == "refuse" && served:
							r.Violate("C10/binary/served-a-peer-the-policy-refuses", fmt.Sprintf("%s: status %d", desc, resp.Status), 4, ctx)
						case ipw == "serve" && !authOK && served:
							r.Violate("C10/binary/served-without-exact-bearer-token/"+au.label, fmt.Sprintf("%s: status %d", desc, resp.Status), 3, ctx)
						case ipw == "serve" && authOK && !served:
							r.Violate("C10/binary/refused-although-authorised/"+au.label, fmt.Sprintf("%s: status %d", desc, resp.Status), 3, ctx)
						}
						if (!served || !authOK) && strings.Contains(string(resp.Body), "secretbackend") {
							r.Violate("C10/binary/refused-request-discloses-backends", desc+": the refusal body names a backend", 3, ctx)
						}
					}
				}
				// the refused mutations changed nothing
				if ipw == "serve" {
					resp := ask(ap, c10Endpoints[1].request(wire.HeaderLine{"Authorization", "Bearer " + token}))
					evals++
					if resp.Status != 200 || !strings.Contains(string(resp.Body), "secretbackend") || strings.Contains(string(resp.Body), "evil") {
						r.Violate("C10/binary/refused-request-changed-state", fmt.Sprintf("%s: after the refused add / remove / strategy requests the listing is %d %.200q", desc0, resp.Status, resp.Body), 3, nil)
					}
				}
				// the other two listeners do not answer Admin API paths themselves
				for _, other := range []struct {
					what string
					port int
				}{{"proxy", pp}, {"metrics", mp}} {
					for _, ep := range []c10Endpoint{c10Endpoints[1], c10Endpoints[2], c10Endpoints[7]} {
						resp := ask(other.port, ep.request(wire.HeaderLine{"Authorization", "Bearer " + token}))
						evals++
						outs.Add(fmt.Sprintf("other/%s/%v", other.what, resp.Status == 200))
						if strings.Contains(string(resp.Body), "secretbackend") || (resp.Status == 200 && other.what == "metrics") {
							r.Violate("C10/binary/admin-endpoint-on-another-listener/"+other.what, fmt.Sprintf("%s: %s %s asked on the %s port was answered %d %.120q", desc0, ep.method, ep.path, other.what, resp.Status, resp.Body), 3, nil)
						}
					}
				}
				stop()
			}
		}
	}
	r.AddScenario(vres.Scenario{Name: "admin-api-as-the-binary-mounts-it", Engine: "P", Evaluations: evals, Distinct: int64(outs.N()), Outcomes: outs.N(),
		Rule:       "one evaluation = one request from loopback to a listener of the real binary started from a YAML file (Admin API, metrics and proxy listeners on); reference: the wire part's ipVerdict for 127.0.0.1 and the token rule; mutating requests only where the reference refuses them; distinct = (ip verdict, needs token, credential exact, served) classes",
		Bound:      fmt.Sprintf("{token unset, set} x allow {none, loopback, 10.0.0.0/8} x deny {none, 127.0.0.1/32} x %d endpoints x {no, wrong, exact credential} + Admin API paths asked on the proxy and metrics ports", len(c10Endpoints)),
		Exhaustive: true, Extra: map[string]interface{}{"wall_s": time.Since(start).Seconds()}})
}
