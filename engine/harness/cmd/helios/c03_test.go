package main

import (
	"bytes"
	"fmt"
	"io"
	"log"
	"net"
	"strings"
	"sync"
	"testing"
	"time"

	"github.com/0xReLogic/Helios/internal/config"
	"github.com/0xReLogic/Helios/internal/zzverif/vres"
	"github.com/0xReLogic/Helios/internal/zzverif/wire"
)

// C03 (wire part): every fault sequence of the alphabet against the real handler chain behind
// the real server (all configured timeouts 1 s) in front of two misbehaving raw backends.
// Oracle: each faulted request ends (response or closed connection) within 10x the configured
// timeout; no handler panic other than ErrAbortHandler; after the faults are switched off and
// windows / breaker timeout have elapsed, the last three of five probes succeed; gauges are 0.

var c03Faults = []string{"refuse", "hang", "reset", "short", "garbage", "500", "slow", "client-abort-upload", "client-abort-download", "status099", "status000",
	// the backend accepts the connection and never reads: an upload larger than the socket
	// buffers gets stuck on its way to it
	"deaf-to-upload",
	// a response of unknown length that breaks off: the client must be able to tell
	"short-chunked",
	// the first backend is an https:// one whose listener accepts the connection and never
	// speaks: the TLS handshake hangs (the second backend, plain http, hangs before its headers)
	"tls-hang"}

type c03Cfg struct {
	Strategy                           string
	Breaker, Passive, Limiter, Plugins bool
	// SplitTimeouts: client-facing timeouts of 30 s next to backend timeouts of 1 s, so that a
	// backend fault bounded by the wrong one of the two shows (false: every timeout is 1 s)
	SplitTimeouts bool
}

func (c c03Cfg) String() string {
	s := fmt.Sprintf("%s breaker=%v passive=%v limiter=%v plugins=%v", c.Strategy, c.Breaker, c.Passive, c.Limiter, c.Plugins)
	if c.SplitTimeouts {
		s += " timeouts: server 30s / backend 1s"
	}
	return s
}

type syncBuf struct {
	mu sync.Mutex
	b  bytes.Buffer
}

func (s *syncBuf) Write(p []byte) (int, error) { s.mu.Lock(); defer s.mu.Unlock(); return s.b.Write(p) }
func (s *syncBuf) String() string              { s.mu.Lock(); defer s.mu.Unlock(); return s.b.String() }

const c03Limit = 10 * time.Second // 10 x the configured 1 s timeouts

// one faulted request; returns how it ended and how long it took
// the healthy answer: long and compressible enough for the gzip plugin to act on it
var c03Healthy = strings.Repeat("healthy answer. ", 16)

func c03Fault(h *helios, fbs []*wire.FaultBackend, fault string, slowStall time.Duration) (string, time.Duration) {
	mode := fault
	switch fault {
	case "client-abort-upload":
		mode = "healthy"
	case "client-abort-download":
		mode = "big"
	case "deaf-to-upload":
		mode = "deaf"
	case "tls-hang":
		mode = "hang"
	}
	for _, fb := range fbs {
		fb.Stall = slowStall
		fb.SetMode(mode)
	}
	start := time.Now()
	c, err := net.DialTimeout("tcp", h.addr, 5*time.Second)
	if err != nil {
		return "dial-failed: " + err.Error(), time.Since(start)
	}
	defer c.Close()
	c.SetDeadline(time.Now().Add(c03Limit + 5*time.Second))
	switch fault {
	case "client-abort-upload":
		fmt.Fprintf(c, "POST /up HTTP/1.1\r\nHost: x.test\r\nContent-Length: 100000\r\n\r\n%s", strings.Repeat("u", 1000))
		time.Sleep(50 * time.Millisecond)
		return "client-aborted", time.Since(start)
	case "deaf-to-upload":
		const size = 48 << 20
		fmt.Fprintf(c, "POST /up HTTP/1.1\r\nHost: x.test\r\nContent-Type: application/octet-stream\r\nContent-Length: %d\r\nConnection: close\r\n\r\n", size)
		go func() {
			block := []byte(strings.Repeat("u", 64<<10))
			for sent := 0; sent < size; sent += len(block) {
				if _, err := c.Write(block); err != nil {
					return
				}
			}
		}()
		data := make([]byte, 12)
		_, rerr := io.ReadFull(c, data)
		d := time.Since(start)
		if ne, ok := rerr.(net.Error); ok && ne.Timeout() {
			return "hung", d
		}
		if rerr == nil && strings.HasPrefix(string(data), "HTTP/1.1 ") {
			return "status " + string(data[9:12]), d
		}
		return "closed", d
	case "client-abort-download":
		// (Connection: close - when the answer is a short error instead of the big body, the
		// client is not left waiting on a kept-alive connection for bytes that never come)
		fmt.Fprintf(c, "GET /big HTTP/1.1\r\nHost: x.test\r\nAccept-Encoding: gzip\r\nConnection: close\r\n\r\n")
		buf := make([]byte, 1024)
		io.ReadFull(c, buf)
		return "client-aborted", time.Since(start)
	}
	fmt.Fprintf(c, "GET /f HTTP/1.1\r\nHost: x.test\r\nAccept-Encoding: gzip\r\nConnection: close\r\n\r\n")
	data, rerr := io.ReadAll(c)
	d := time.Since(start)
	if ne, ok := rerr.(net.Error); ok && ne.Timeout() {
		return "hung", d
	}
	if fault == "short-chunked" && len(data) >= 12 && strings.HasPrefix(string(data), "HTTP/1.1 200") && strings.HasSuffix(string(data), "\r\n0\r\n\r\n") {
		// the backend's answer broke off, yet what the client holds is a complete, well-formed 200
		return "complete-200", d
	}
	if len(data) >= 12 && strings.HasPrefix(string(data), "HTTP/1.1 ") {
		return "status " + string(data[9:12]), d
	}
	return "closed", d
}

func c03Run(cfgc c03Cfg, seq []string, concurrent bool, longStall bool) (key, what string, outcome string) {
	fbs := []*wire.FaultBackend{wire.NewFaultBackend(), wire.NewFaultBackend()}
	defer func() {
		for _, fb := range fbs {
			fb.Close()
		}
	}()
	for _, fb := range fbs {
		fb.HealthyBody = c03Healthy
	}
	cfg := baseConfig(cfgc.Strategy, fbs[0].URL(), fbs[1].URL())
	httpsBackend := false
	for _, f := range seq {
		if f == "tls-hang" {
			// for the whole job b0 is an https:// backend that cannot complete a handshake
			httpsBackend = true
			cfg.Backends[0].Address = "https://" + fbs[0].Addr()
		}
	}
	cfg.Server.Timeouts = config.TimeoutConfig{Read: 1, Write: 1, Idle: 1, Handler: 1, Shutdown: 1, BackendDial: 1, BackendRead: 1, BackendIdle: 1}
	if cfgc.SplitTimeouts {
		cfg.Server.Timeouts = config.TimeoutConfig{Read: 30, Write: 30, Idle: 30, Handler: 30, Shutdown: 1, BackendDial: 1, BackendRead: 1, BackendIdle: 1}
	}
	if cfgc.Breaker {
		cfg.CircuitBreaker = config.CircuitBreakerConfig{Enabled: true, MaxRequests: 2, IntervalSeconds: 5, TimeoutSeconds: 1, FailureThreshold: 2, SuccessThreshold: 1}
	}
	if cfgc.Passive {
		cfg.HealthChecks.Passive = config.PassiveHealthCheckConfig{Enabled: true, UnhealthyThreshold: 1, UnhealthyTimeout: 1}
	}
	if cfgc.Limiter {
		cfg.RateLimit = config.RateLimitConfig{Enabled: true, MaxTokens: 100, RefillRate: 1}
	}
	if cfgc.Plugins {
		cfg.Plugins = config.PluginsConfig{Enabled: true, Chain: []config.PluginConfig{{Name: "logging"}, sizeLimitCfg(1<<20, 16<<20), gzipCfg(5, 64, "text/")}}
	}
	h, err := startHelios(cfg)
	if err != nil {
		return "tool", err.Error(), ""
	}
	elog := &syncBuf{}
	h.srv.ErrorLog = log.New(elog, "", 0)
	defer h.stop()
	stall := 3 * time.Second
	if longStall {
		stall = 12 * time.Second
	}
	desc := fmt.Sprintf("[%s] faults %v concurrent=%v", cfgc, seq, concurrent)
	type fr struct {
		how string
		d   time.Duration
	}
	results := make([]fr, len(seq))
	if concurrent {
		// all faults of the sequence are of one kind here (doubled faults), so the mode is shared
		var wg sync.WaitGroup
		for i, f := range seq {
			wg.Add(1)
			go func(i int, f string) {
				defer wg.Done()
				how, d := c03Fault(h, fbs, f, stall)
				results[i] = fr{how, d}
			}(i, f)
		}
		wg.Wait()
	} else {
		for i, f := range seq {
			how, d := c03Fault(h, fbs, f, stall)
			results[i] = fr{how, d}
		}
	}
	for i, r := range results {
		outcome += fmt.Sprintf("%s:%s ", seq[i], strings.SplitN(r.how, ":", 2)[0])
		if r.how == "complete-200" {
			return "C03/wire/truncated-response-delivered-as-complete", fmt.Sprintf("%s: the backend's chunked answer broke off after one chunk; the client received a complete, well-formed 200 (terminating chunk and all) instead of an error or a closed connection", desc), outcome
		}
		if r.how == "hung" || r.d > c03Limit {
			k := "C03/wire/faulted-request-not-ended-within-10x-timeout/" + seq[i]
			return k, fmt.Sprintf("%s: the %s request had not ended after %v (all configured timeouts are 1s)", desc, seq[i], r.d.Round(100*time.Millisecond)), outcome
		}
	}
	// recovery. A client that went away has "ended" for the client at once, but its exchange may
	// still be under way in the proxy (up to a backend timeout) and count as a failure when it
	// ends: the faults have stopped when nothing is in flight any more
	for quiet := time.Now().Add(12 * time.Second); time.Now().Before(quiet); time.Sleep(50 * time.Millisecond) {
		busy := false
		for _, bi := range h.lb.ListBackends() {
			if bi.ActiveConnections != 0 {
				busy = true
			}
		}
		if !busy {
			break
		}
	}
	if httpsBackend {
		// a listener that cannot speak TLS does not turn into a healthy https backend: the
		// operator takes it out, the backend that is left must serve normally
		h.lb.RemoveBackend("b0")
	}
	for _, fb := range fbs {
		fb.SetMode("healthy")
		if fb.Lost {
			return "skip", "a backend port released for the refuse behaviour was taken by another process", outcome
		}
	}
	time.Sleep(1500 * time.Millisecond)
	var probes []string
	e := &exch{addr: h.addr}
	defer e.close()
	for i := 0; i < 5; i++ {
		hd := []wire.HeaderLine{{"Host", "x.test"}, {"X-Forwarded-For", fmt.Sprintf("10.7.0.%d", i)}}
		if i%2 == 0 {
			hd = append(hd, wire.HeaderLine{"Accept-Encoding", "gzip"})
		}
		r := e.do(&wire.Request{Method: "GET", Target: "/probe", Header: hd, NoBody: true}, c03Limit)
		if r.Err != "" {
			probes = append(probes, "err")
		} else {
			probes = append(probes, fmt.Sprint(r.Status))
			if vres.ReplayPath() != "" && r.Status != 200 {
				fmt.Printf("REPLAY probe %d: %d %.120q\n", i, r.Status, r.Body)
			}
			// "succeeds normally": a 200 carries the healthy backend's body and nothing else
			if r.Status == 200 {
				if got, derr := c15Decode(r); derr != "" || string(got) != c03Healthy {
					return "C03/wire/healthy-answer-damaged-after-faults", fmt.Sprintf("%s: probe %d after the faults got status 200 but its body (%d bytes after decoding, %s) is not the healthy backend's answer (%d bytes): %.60q", desc, i, len(got), derr, len(c03Healthy), got), outcome
				}
			}
		}
	}
	if probes[2] != "200" || probes[3] != "200" || probes[4] != "200" {
		return "C03/wire/no-recovery-after-faults", fmt.Sprintf("%s: after the faults stopped and window/breaker timeout elapsed, five probes got %v", desc, probes), outcome
	}
	if strings.Contains(elog.String(), "panic serving") {
		return "C03/wire/handler-panic", fmt.Sprintf("%s: the server logged a handler panic: %s", desc, lastLines(elog.String(), 2)), outcome
	}
	// gauges at quiescence (poll: aborted exchanges finish their accounting asynchronously)
	deadline := time.Now().Add(5 * time.Second)
	for {
		busy := ""
		for _, bi := range h.lb.ListBackends() {
			if bi.ActiveConnections != 0 {
				busy = fmt.Sprintf("%s=%d", bi.Name, bi.ActiveConnections)
			}
		}
		for n, bm := range h.lb.GetMetricsCollector().GetMetrics().BackendMetrics {
			if bm.ActiveConnections != 0 {
				busy = fmt.Sprintf("metrics:%s=%d", n, bm.ActiveConnections)
			}
		}
		if busy == "" {
			break
		}
		if time.Now().After(deadline) {
			return "C03/wire/gauge-not-zero-at-quiescence", fmt.Sprintf("%s: 5s after the last exchange %s", desc, busy), outcome
		}
		time.Sleep(50 * time.Millisecond)
	}
	return "", "", outcome
}

func TestVerifC03W(t *testing.T) {
	r := vres.Open("C03", "W")
	defer func() {
		if err := r.Close(); err != nil {
			t.Fatal(err)
		}
	}()
	if vres.ReplayPath() != "" {
		var rp struct {
			Config     c03Cfg   `json:"config"`
			Faults     []string `json:"faults"`
			Concurrent bool     `json:"concurrent"`
			Long       bool     `json:"long_stall"`
		}
		if err := vres.LoadReplay(&rp); err != nil {
			t.Fatal(err)
		}
		for i := 0; i < 3; i++ {
			key, what, outcome := c03Run(rp.Config, rp.Faults, rp.Concurrent, rp.Long)
			fmt.Printf("REPLAY run %d: [%s] faults %v concurrent=%v: how each ended: %s| verdict: %s %s\n", i+1, rp.Config, rp.Faults, rp.Concurrent, outcome, key, what)
		}
		return
	}
	th := vres.Thorough()
	shard, shards := shardOf()
	start := time.Now()
	type job struct {
		cfg        c03Cfg
		seq        []string
		concurrent bool
		long       bool
	}
	var cfgs []c03Cfg
	if th {
		for _, st := range []string{"round_robin", "least_connections"} {
			for m := 0; m < 16; m++ {
				cfgs = append(cfgs, c03Cfg{Strategy: st, Breaker: m&1 != 0, Passive: m&2 != 0, Limiter: m&4 != 0, Plugins: m&8 != 0})
			}
		}
		for _, st := range []string{"weighted_round_robin", "ip_hash", "ip_hash_consistent"} {
			cfgs = append(cfgs, c03Cfg{Strategy: st, Breaker: true, Passive: true, Limiter: true, Plugins: true}, c03Cfg{Strategy: st}, c03Cfg{Strategy: st, Passive: true, SplitTimeouts: true})
		}
	} else {
		cfgs = []c03Cfg{{Strategy: "round_robin"}, {Strategy: "round_robin", Breaker: true, Passive: true, Limiter: true, Plugins: true}, {Strategy: "least_connections", Breaker: true},
			{Strategy: "round_robin", Passive: true, Plugins: true}, {Strategy: "round_robin", SplitTimeouts: true}}
	}
	var jobs []job
	for _, c := range cfgs {
		for _, f := range c03Faults {
			jobs = append(jobs, job{c, []string{f}, false, false})
			jobs = append(jobs, job{c, []string{f, f}, false, false})
			jobs = append(jobs, job{c, []string{f, f}, true, false})
		}
		if th {
			for _, f := range c03Faults {
				for _, g := range c03Faults {
					if f != g {
						jobs = append(jobs, job{c, []string{f, g}, false, false})
					}
				}
			}
			if c.Breaker {
				for _, f := range []string{"reset", "500", "refuse"} {
					jobs = append(jobs, job{c, []string{f, f, f}, false, false}, job{c, []string{f, "short", f}, false, false})
				}
			}
		}
	}
	// the stalled-body case that exceeds 10x every configured timeout
	jobs = append(jobs, job{cfgs[0], []string{"slow"}, false, true})
	if th {
		jobs = append(jobs, job{cfgs[1], []string{"slow"}, false, true})
	}
	var mu sync.Mutex
	var evals int64
	var outs vres.Outcomes
	var sample interface{}
	work := make(chan job)
	var wg sync.WaitGroup
	for w := 0; w < 6; w++ {
		wg.Add(1)
		go func() {
			defer wg.Done()
			for j := range work {
				key, what, outcome := c03Run(j.cfg, j.seq, j.concurrent, j.long)
				if key == "tool" {
					t.Errorf("tool error: %s", what)
					continue
				}
				if key == "skip" {
					mu.Lock()
					r.Note("skipped %v on %s: %s", j.seq, j.cfg, what)
					mu.Unlock()
					continue
				}
				if key != "" {
					// a fault-handling failure must reproduce to count (timing!): re-run up to four more times
					fails := 1
					reruns := 4
					if j.long {
						reruns = 1 // 12 s each; two consistent observations suffice for this one
						fails = 4
					}
					for k := 0; k < reruns; k++ {
						if k2, _, _ := c03Run(j.cfg, j.seq, j.concurrent, j.long); k2 == key {
							fails++
						} else {
							break
						}
					}
					if fails < 5 {
						mu.Lock()
						r.Note("flaky (%d/5): %s %s", fails, key, what)
						mu.Unlock()
						key = ""
					}
				}
				mu.Lock()
				evals++
				outs.Add(outcome)
				if sample == nil && len(j.seq) == 2 && !j.concurrent {
					sample = map[string]interface{}{"config": j.cfg.String(), "faults": j.seq, "how_each_ended": outcome}
				}
				if key != "" {
					r.Violate(key, what, len(j.seq), map[string]interface{}{"engine": "W", "test": "TestVerifC03W", "config": j.cfg, "faults": j.seq, "concurrent": j.concurrent, "long_stall": j.long})
				}
				mu.Unlock()
			}
		}()
	}
	for i, j := range jobs {
		if i%shards == shard {
			work <- j
		}
	}
	close(work)
	wg.Wait()
	r.AddScenario(vres.Scenario{Name: "fault-sequences-over-the-wire", Engine: "W", Evaluations: evals, Distinct: int64(outs.N()), Outcomes: outs.N(),
		Rule:       "one evaluation = one fault sequence against a fresh Helios instance with all timeouts 1s, followed by recovery probes and a gauge audit; distinct = distinct (fault, how it ended) vectors observed",
		Bound:      fmt.Sprintf("%d configurations x {each of %d faults once, twice sequentially, twice concurrently%s} + the 12s stalled-body case", len(cfgs), len(c03Faults), map[bool]string{true: ", every ordered pair of distinct faults, triples for breaker configurations", false: ""}[th]),
		Exhaustive: true, Sample: sample, Extra: map[string]interface{}{"wall_s": time.Since(start).Seconds(), "jobs": len(jobs)}})
}
