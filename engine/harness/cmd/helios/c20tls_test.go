package main

import (
	"crypto/ecdsa"
	"crypto/elliptic"
	"crypto/rand"
	"crypto/tls"
	"crypto/x509"
	"crypto/x509/pkix"
	"encoding/pem"
	"fmt"
	"io"
	"log"
	"math/big"
	"net"
	"os"
	"path/filepath"
	"sync"
	"testing"
	"time"

	"github.com/0xReLogic/Helios/internal/config"
	"github.com/0xReLogic/Helios/internal/loadbalancer"
	"github.com/0xReLogic/Helios/internal/zzverif/vres"
	"github.com/0xReLogic/Helios/internal/zzverif/wire"
)

// C20 (the client side of the tunnel is TLS: wss://). Helios terminates TLS with the server
// createHTTPServer builds (server.tls enabled, a certificate made for the run); the client
// speaks TLS 1.2 or 1.3. Sessions of one to three steps over four sizes, both closers; when the
// client closes after sending, its last bytes and its TLS close alert are either sent as they
// come or held back and sent in ONE write, so that they reach the proxy together (a TLS
// 1.2 connection then delivers the last bytes together with the end of the stream). Every byte
// must still arrive, in order, before the backend sees the end.

// coalesceConn holds back what is written once armed and sends it in one piece on Close.
type coalesceConn struct {
	net.Conn
	mu      sync.Mutex
	armed   bool
	pending []byte
}

func (c *coalesceConn) Write(p []byte) (int, error) {
	c.mu.Lock()
	defer c.mu.Unlock()
	if c.armed {
		c.pending = append(c.pending, p...)
		return len(p), nil
	}
	return c.Conn.Write(p)
}

func (c *coalesceConn) Close() error {
	c.mu.Lock()
	if len(c.pending) > 0 {
		// (tls.Conn.Close leaves the write deadline in the past after sending its alert)
		c.Conn.SetWriteDeadline(time.Now().Add(5 * time.Second))
		c.Conn.Write(c.pending)
		c.pending = nil
	}
	c.mu.Unlock()
	return c.Conn.Close()
}

func c20Certificate(dir string) (certFile, keyFile string, err error) {
	key, err := ecdsa.GenerateKey(elliptic.P256(), rand.Reader)
	if err != nil {
		return "", "", err
	}
	tmpl := &x509.Certificate{SerialNumber: big.NewInt(1), Subject: pkix.Name{CommonName: "helios.test"}, NotBefore: time.Now().Add(-time.Hour), NotAfter: time.Now().Add(24 * time.Hour),
		KeyUsage: x509.KeyUsageDigitalSignature, ExtKeyUsage: []x509.ExtKeyUsage{x509.ExtKeyUsageServerAuth}, DNSNames: []string{"helios.test"}, IPAddresses: []net.IP{net.ParseIP("127.0.0.1")}}
	der, err := x509.CreateCertificate(rand.Reader, tmpl, tmpl, &key.PublicKey, key)
	if err != nil {
		return "", "", err
	}
	kb, err := x509.MarshalECPrivateKey(key)
	if err != nil {
		return "", "", err
	}
	certFile, keyFile = filepath.Join(dir, "cert.pem"), filepath.Join(dir, "key.pem")
	if err := os.WriteFile(certFile, pem.EncodeToMemory(&pem.Block{Type: "CERTIFICATE", Bytes: der}), 0o600); err != nil {
		return "", "", err
	}
	return certFile, keyFile, os.WriteFile(keyFile, pem.EncodeToMemory(&pem.Block{Type: "EC PRIVATE KEY", Bytes: kb}), 0o600)
}

func TestVerifC20TLS(t *testing.T) {
	r := vres.Open("C20", "TLS")
	defer func() {
		if err := r.Close(); err != nil {
			t.Fatal(err)
		}
	}()
	start := time.Now()
	shard, shards := shardOf()
	certFile, keyFile, err := c20Certificate(t.TempDir())
	if err != nil {
		t.Fatal(err)
	}
	be := wire.NewBackend("b0")
	defer be.Close()
	cfg := baseConfig("round_robin", be.URL())
	cfg.Server.TLS = config.TLSConfig{Enabled: true, CertFile: certFile, KeyFile: keyFile}
	if err := cfg.Validate(); err != nil {
		t.Fatal(err)
	}
	lb, err := loadbalancer.NewLoadBalancer(cfg)
	if err != nil {
		t.Fatal(err)
	}
	hd, err := buildHandler(cfg, lb)
	if err != nil {
		t.Fatal(err)
	}
	srv := createHTTPServer(cfg, hd)
	srv.ErrorLog = log.New(io.Discard, "", 0)
	l, err := net.Listen("tcp", "127.0.0.1:0")
	if err != nil {
		t.Fatal(err)
	}
	go srv.ServeTLS(l, certFile, keyFile)
	h := &helios{cfg: cfg, lb: lb, srv: srv, l: l, addr: l.Addr().String()}
	defer h.stop()
	defer func() {
		c20Dial = func(addr string) (net.Conn, error) { return net.DialTimeout("tcp", addr, 5*time.Second) }
		c20BeforeLastWrite = nil
	}()
	sizes := []int{0, 1, 126, 20000}
	var alpha []c20Step
	for _, fc := range []bool{true, false} {
		for _, n := range sizes {
			alpha = append(alpha, c20Step{fc, n, 0})
		}
	}
	scripts := [][]c20Step{}
	cur := [][]c20Step{{}}
	maxLen := 2
	if vres.Thorough() {
		maxLen = 3
	}
	for l := 1; l <= maxLen; l++ {
		var next [][]c20Step
		for _, p := range cur {
			for _, a := range alpha {
				next = append(next, append(append([]c20Step(nil), p...), a))
			}
		}
		scripts = append(scripts, next...)
		cur = next
	}
	var evals int64
	var outs vres.Outcomes
	idx := 0
	for _, ver := range []uint16{tls.VersionTLS12, tls.VersionTLS13} {
		for _, together := range []bool{false, true} {
			var last *coalesceConn
			c20Dial = func(addr string) (net.Conn, error) {
				raw, err := net.DialTimeout("tcp", addr, 5*time.Second)
				if err != nil {
					return nil, err
				}
				last = &coalesceConn{Conn: raw}
				tc := tls.Client(last, &tls.Config{InsecureSkipVerify: true, MinVersion: ver, MaxVersion: ver, NextProtos: []string{"http/1.1"}})
				if err := tc.Handshake(); err != nil {
					raw.Close()
					return nil, err
				}
				return tc, nil
			}
			c20BeforeLastWrite = nil
			if together {
				c20BeforeLastWrite = func() {
					last.mu.Lock()
					last.armed = true
					last.mu.Unlock()
				}
			}
			for _, sc := range scripts {
				for _, serverCloses := range []bool{false, true} {
					if together && (serverCloses || !sc[len(sc)-1].FromClient) {
						continue // only sessions that end with the client sending and closing differ
					}
					idx++
					if idx%shards != shard {
						continue
					}
					res := c20Session(h, be, sc, serverCloses)
					evals++
					vn := map[uint16]string{tls.VersionTLS12: "1.2", tls.VersionTLS13: "1.3"}[ver]
					desc := fmt.Sprintf("client speaks TLS %s, script=%v closer=%s last-bytes-and-close-in-one-write=%v", vn, sc, map[bool]string{true: "server", false: "client"}[serverCloses], together)
					outs.Add(fmt.Sprintf("tls%s/%v/len%d/%v", vn, together, len(sc), res.clientErr == "" && res.serverErr == ""))
					if res.clientErr != "" || res.serverErr != "" {
						r.Violate("C20/tunnel/tls-client/bytes-lost-or-close-not-propagated", fmt.Sprintf("%s: client: %s | server: %s", desc, res.clientErr, res.serverErr), len(sc), map[string]interface{}{"engine": "W", "test": "TestVerifC20TLS", "tls": vn, "script": sc, "server_closes": serverCloses, "together": together})
					}
				}
			}
		}
	}
	r.AddScenario(vres.Scenario{Name: "tunnel-with-tls-client-side", Engine: "W", Evaluations: evals, Distinct: int64(outs.N()), Outcomes: outs.N(),
		Rule:  "one evaluation = one upgraded session through a Helios instance that terminates TLS (server built by createHTTPServer, certificate made for the run); lock-step script, both ends compare every byte; distinct = (TLS version, coalesced close, length, verdict) classes",
		Bound: fmt.Sprintf("TLS 1.2 and 1.3 x every script of length 1..%d over 4 sizes and both directions x both closers, and for sessions the client ends by sending: last bytes and TLS close alert in one write", maxLen), Exhaustive: true,
		Extra: map[string]interface{}{"wall_s": time.Since(start).Seconds()}})
}
