package main

import (
	"bytes"
	"fmt"
	"net"
	"os"
	"os/exec"
	"path/filepath"
	"strings"
	"syscall"
	"testing"
	"time"

	"github.com/0xReLogic/Helios/internal/zzverif/vres"
	"github.com/0xReLogic/Helios/internal/zzverif/wire"
)

// C19 (process part): the real binary, shutdown timeout 2 s, SIGTERM / SIGINT delivered at
// each of {idle, request waiting for backend headers, response mid-body, probe in flight}.
// Oracle: the process exits with status 0 within the shutdown timeout (+ margin), a request
// that was in flight and can finish within the timeout is completed, and no probe reaches the
// backends after the process has exited.

func TestVerifC19P(t *testing.T) {
	r := vres.Open("C19", "P")
	defer func() {
		if err := r.Close(); err != nil {
			t.Fatal(err)
		}
	}()
	bin := os.Getenv("VERIF_HELIOS_BIN")
	if bin == "" {
		r.Note("engine P skipped: VERIF_HELIOS_BIN not set")
		return
	}
	shard, shards := shardOf()
	start := time.Now()
	dir := t.TempDir()
	var evals int64
	var outs vres.Outcomes
	idx := 0
	for _, sig := range []syscall.Signal{syscall.SIGTERM, syscall.SIGINT} {
		for _, place := range []string{"idle", "waiting-for-headers", "mid-body", "probe-in-flight", "probe-hanging",
			"waiting-for-headers+same", "waiting-for-headers+other", "mid-body+same", "mid-body+other",
			// the shutdown timeout left to its documented default (30 s): omitted, or written as 0
			"waiting-for-headers/default", "mid-body/default", "waiting-for-headers/zero", "idle/default",
			// requests that outlast the grace period on the proxy listener AND on the admin listener at
			// the same time: the timeout bounds the shutdown as a whole
			"stuck-on-two-listeners/three",
			// the signal arrives when the process has been up for longer than the shutdown timeout
			// (every other placement signals within a fraction of a second of the start)
			"waiting-for-headers@late", "mid-body@late"} {
			late := strings.HasSuffix(place, "@late")
			place = strings.TrimSuffix(place, "@late")
			shutdownLine := "    shutdown: 2\n"
			if i := strings.Index(place, "/"); i >= 0 {
				shutdownLine = map[string]string{"/default": "    handler: 0\n", "/zero": "    shutdown: 0\n", "/three": "    shutdown: 3\n"}[place[i:]]
				place = place[:i]
			}
			// "+same"/"+other": a second stop signal 150 ms after the first, while the drain is
			// still under way (an impatient operator or a supervisor repeating itself)
			second := syscall.Signal(0)
			if i := strings.Index(place, "+"); i >= 0 {
				second = sig
				if place[i:] == "+other" {
					second = map[syscall.Signal]syscall.Signal{syscall.SIGTERM: syscall.SIGINT, syscall.SIGINT: syscall.SIGTERM}[sig]
				}
				place = place[:i]
			}
			idx++
			if idx%shards != shard {
				continue
			}
			be := wire.NewBackend("b0")
			be.ProbeArrived = make(chan struct{}, 1)
			if place == "probe-in-flight" {
				be.ProbeDelay = 2500 * time.Millisecond // the initial probe is still in flight when the signal arrives
			}
			if place == "probe-hanging" {
				be.ProbeDelay = 6 * time.Second // longer than the shutdown timeout: only cancellation ends it in time
			}
			port := freePort()
			yaml := fmt.Sprintf("server:\n  port: %d\n  timeouts:\n"+shutdownLine+"backends:\n  - name: b0\n    address: %q\nload_balancer:\n  strategy: round_robin\n  websocket_pool:\n    enabled: true\n    max_idle: 2\n    max_active: 4\nhealth_checks:\n  active:\n    enabled: true\n    interval: 9\n    timeout: 8\n    path: %q\nlogging:\n  level: error\n  format: json\n", port, be.URL(), wire.ProbePath)
			adminPort := 0
			if place == "stuck-on-two-listeners" {
				adminPort = freePort()
				yaml += fmt.Sprintf("admin_api:\n  enabled: true\n  port: %d\nmetrics:\n  enabled: true\n  port: %d\n  path: /metrics\n", adminPort, freePort())
			}
			path := filepath.Join(dir, fmt.Sprintf("%s-%d-%d-%d.yaml", place, sig, second, idx))
			os.WriteFile(path, []byte(yaml), 0o644)
			cmd := exec.Command(bin, "-config", path)
			var out bytes.Buffer
			cmd.Stdout, cmd.Stderr = &out, &out
			if err := cmd.Start(); err != nil {
				t.Fatal(err)
			}
			exited := make(chan error, 1)
			go func() { exited <- cmd.Wait() }()
			desc := fmt.Sprintf("%v while %s (%s)", sig, place, strings.TrimSpace(shutdownLine))
			if late {
				desc += ", the process up for 2.6 s by then"
			}
			if second != 0 {
				desc += fmt.Sprintf(", then %v 150ms later", second)
			}
			fail := func(key, what string) {
				r.Violate("C19/process/"+key, desc+": "+what+" | output: "+lastLines(out.String(), 3), 1, map[string]interface{}{"engine": "P", "test": "TestVerifC19P", "signal": sig.String(), "placement": place, "second_signal": int(second)})
			}
			// wait until it serves
			e := &exch{addr: fmt.Sprintf("127.0.0.1:%d", port)}
			up := false
			for i := 0; i < 200 && !up; i++ {
				resp := e.do(&wire.Request{Method: "GET", Target: "/up", Header: []wire.HeaderLine{{"Host", "x"}}, NoBody: true}, 2*time.Second)
				if resp.Err == "" && resp.Status == 200 {
					up = true
				} else {
					time.Sleep(25 * time.Millisecond)
				}
			}
			e.close()
			if !up {
				cmd.Process.Kill()
				<-exited
				be.Close()
				t.Fatalf("binary did not come up: %s", out.String())
			}
			if late {
				time.Sleep(2600 * time.Millisecond)
			}
			type reqRes struct {
				resp wire.Response
			}
			inflight := make(chan reqRes, 1)
			body := strings.Repeat("z", 4000)
			switch place {
			case "waiting-for-headers":
				arrived := make(chan struct{}, 1)
				be.Next(&wire.Script{Status: 200, Parts: [][]byte{[]byte(body)}, Delay: 700 * time.Millisecond, Arrived: arrived})
				go func() {
					c := &exch{addr: e.addr}
					inflight <- reqRes{c.do(&wire.Request{Method: "GET", Target: "/slow", Header: []wire.HeaderLine{{"Host", "x"}}, NoBody: true}, 10*time.Second)}
					c.close()
				}()
				<-arrived
			case "mid-body":
				arrived := make(chan struct{}, 1)
				be.Next(&wire.Script{Status: 200, Parts: [][]byte{[]byte(body[:2000]), []byte(body[2000:])}, FlushEach: true, PartDelay: 700 * time.Millisecond, Arrived: arrived})
				go func() {
					c := &exch{addr: e.addr}
					inflight <- reqRes{c.do(&wire.Request{Method: "GET", Target: "/slow", Header: []wire.HeaderLine{{"Host", "x"}}, NoBody: true}, 10*time.Second)}
					c.close()
				}()
				<-arrived
				time.Sleep(100 * time.Millisecond)
			case "stuck-on-two-listeners":
				arrived := make(chan struct{}, 1)
				be.Next(&wire.Script{Status: 200, Parts: [][]byte{[]byte(body)}, Delay: 20 * time.Second, Arrived: arrived})
				go func() {
					c := &exch{addr: e.addr}
					c.do(&wire.Request{Method: "GET", Target: "/slow", Header: []wire.HeaderLine{{"Host", "x"}}, NoBody: true}, 30*time.Second)
					c.close()
				}()
				<-arrived
				// an admin call whose client stalls in the middle of its body
				if ac, err := net.DialTimeout("tcp", fmt.Sprintf("127.0.0.1:%d", adminPort), 5*time.Second); err == nil {
					defer ac.Close()
					fmt.Fprintf(ac, "POST /v1/backends/add HTTP/1.1\r\nHost: admin\r\nContent-Type: application/json\r\nContent-Length: 200\r\n\r\n{\"name\": \"x\",")
					time.Sleep(200 * time.Millisecond)
				} else {
					fail("admin-api-not-listening", err.Error())
				}
			case "probe-in-flight", "probe-hanging":
				// the initial probe round starts with the process and is still in flight
				select {
				case <-be.ProbeArrived:
				case <-time.After(5 * time.Second):
					if be.ProbeCount() == 0 {
						fail("no-probe-observed", "no active probe arrived within 5s of start-up")
					}
				}
			}
			t0 := time.Now()
			cmd.Process.Signal(sig)
			if second != 0 {
				time.Sleep(150 * time.Millisecond)
				cmd.Process.Signal(second)
			}
			var werr error
			didExit := false
			limit := 2*time.Second + 3*time.Second
			if place == "stuck-on-two-listeners" {
				limit = 3*time.Second + 2500*time.Millisecond
			}
			select {
			case werr = <-exited:
				didExit = true
			case <-time.After(limit):
			}
			took := time.Since(t0)
			evals++
			if !didExit {
				fail("did-not-exit-within-shutdown-timeout", fmt.Sprintf("still running %v after the signal (%s)", took.Round(100*time.Millisecond), strings.TrimSpace(shutdownLine)))
				cmd.Process.Kill()
				<-exited
			} else if werr != nil {
				fail("exit-status-not-zero", fmt.Sprintf("exited with %v", werr))
			}
			if place == "waiting-for-headers" || place == "mid-body" {
				select {
				case rr := <-inflight:
					if rr.resp.Err != "" || rr.resp.Status != 200 || string(rr.resp.Body) != body {
						fail("in-flight-request-not-completed", fmt.Sprintf("the request in flight when the signal arrived (0.7s of work left, far less than the shutdown timeout) ended with status %d, %d of %d body bytes, %s", rr.resp.Status, len(rr.resp.Body), len(body), rr.resp.Err))
					}
				case <-time.After(12 * time.Second):
					fail("in-flight-request-hung", "the in-flight request never ended")
				}
			}
			// probes after exit
			be.WaitIdle()
			before := be.ProbeCount()
			time.Sleep(1500 * time.Millisecond)
			if after := be.ProbeCount(); after != before {
				fail("probe-after-exit", fmt.Sprintf("%d probes reached the backend after the process had exited", after-before))
			}
			outs.Add(fmt.Sprintf("%s/late=%v/%v+%v/exit=%v/%v", place, late, sig, second, didExit, werr == nil))
			be.Close()
		}
	}
	r.AddScenario(vres.Scenario{Name: "signals-at-placements", Engine: "P", Evaluations: evals, Distinct: int64(outs.N()), Outcomes: outs.N(),
		Rule:  "the real binary (shutdown timeout 2s, active probing every 2s, pool enabled) receives SIGTERM or SIGINT at each placement; exit status 0 within the timeout, in-flight request completed, no probe after exit",
		Bound: "2 signals x (5 placements + 2 in-flight placements x 2 repeated signals + 4 placements with the shutdown timeout left to its default + requests stuck on two listeners + 2 in-flight placements with the process up for longer than the shutdown timeout)", Exhaustive: true, Sample: outs.Map(), Extra: map[string]interface{}{"wall_s": time.Since(start).Seconds()}})
}
