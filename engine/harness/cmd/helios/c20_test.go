package main

import (
	"bufio"
	"bytes"
	"fmt"
	"io"
	"net"
	"net/http"
	"strings"
	"testing"
	"time"

	"github.com/0xReLogic/Helios/internal/config"
	"github.com/0xReLogic/Helios/internal/zzverif/vres"
	"github.com/0xReLogic/Helios/internal/zzverif/wire"
)

// C20 (tunnel part): an Upgrade session through every plugin chain; after the 101 both ends
// speak raw bytes following a lock-step script; each end must receive exactly what the other
// sent, in order, and see EOF after the peer closed.

type c20Step struct {
	FromClient bool
	N          int
	PauseMs    int // the sender waits this long before sending (time passing inside a session)
}

var c20Sizes = []int{0, 1, 125, 126, 65536, 100000}

func c20Scripts(maxLen int) [][]c20Step {
	var alpha []c20Step
	for _, fc := range []bool{true, false} {
		for _, n := range c20Sizes {
			alpha = append(alpha, c20Step{fc, n, 0})
		}
	}
	out := [][]c20Step{{}}
	cur := [][]c20Step{{}}
	for l := 1; l <= maxLen; l++ {
		var next [][]c20Step
		for _, p := range cur {
			for _, a := range alpha {
				s := append(append([]c20Step(nil), p...), a)
				next = append(next, s)
			}
		}
		out = append(out, next...)
		cur = next
	}
	return out
}

func c20Data(step, n int) []byte {
	b := make([]byte, n)
	for i := range b {
		b[i] = byte((i*31 + step*7 + 3) % 251)
	}
	return b
}

type c20Result struct {
	serverErr string
	clientErr string
}

// session runs one script through Helios. serverCloses selects who closes at the end.
// legal spellings of the upgrade handshake's Connection / Upgrade headers
var c20Handshakes = []string{
	"Connection: Upgrade\r\nUpgrade: websocket\r\n",
	"Connection: keep-alive, Upgrade\r\nUpgrade: websocket\r\n",
	"Connection: Upgrade, keep-alive\r\nUpgrade: websocket\r\n",
	"Connection: keep-alive\r\nConnection: Upgrade\r\nUpgrade: websocket\r\n",
	"connection: upgrade\r\nupgrade: WebSocket\r\n",
	"Connection: UPGRADE\r\nUpgrade: websocket\r\n",
}

// c20Dial opens the client's connection to the proxy (plain TCP unless a part replaces it);
// c20BeforeLastWrite, if set, runs before the client's final write of a session it closes.
var c20Dial = func(addr string) (net.Conn, error) { return net.DialTimeout("tcp", addr, 5*time.Second) }
var c20BeforeLastWrite func()

func c20Session(h *helios, be *wire.Backend, script []c20Step, serverCloses bool) (res c20Result) {
	return c20SessionHS(h, be, script, serverCloses, 0)
}

func c20SessionHS(h *helios, be *wire.Backend, script []c20Step, serverCloses bool, hs int) (res c20Result) {
	srvDone := make(chan string, 1)
	be.Next(&wire.Script{Hijack: func(c net.Conn, rw *bufio.ReadWriter, r *http.Request) {
		defer c.Close()
		c.SetDeadline(time.Now().Add(30 * time.Second))
		if !strings.EqualFold(r.Header.Get("Upgrade"), "websocket") {
			srvDone <- "backend did not receive the Upgrade header"
			return
		}
		rw.WriteString("HTTP/1.1 101 Switching Protocols\r\nUpgrade: websocket\r\nConnection: Upgrade\r\n\r\n")
		rw.Flush()
		for i, st := range script {
			if st.FromClient {
				buf := make([]byte, st.N)
				if _, err := io.ReadFull(rw, buf); err != nil {
					srvDone <- fmt.Sprintf("step %d: server expected %d bytes from the client: %v", i, st.N, err)
					return
				}
				if !bytes.Equal(buf, c20Data(i, st.N)) {
					srvDone <- fmt.Sprintf("step %d: server received altered bytes", i)
					return
				}
			} else {
				if st.PauseMs > 0 {
					time.Sleep(time.Duration(st.PauseMs) * time.Millisecond)
				}
				if _, err := c.Write(c20Data(i, st.N)); err != nil {
					srvDone <- fmt.Sprintf("step %d: server write: %v", i, err)
					return
				}
			}
		}
		if serverCloses {
			srvDone <- ""
			return
		}
		// the client closes: the server must see EOF and nothing else
		one := make([]byte, 1)
		n, err := rw.Read(one)
		if n != 0 || err == nil {
			srvDone <- "server received extra bytes instead of EOF after the client closed"
			return
		}
		if ne, ok := err.(net.Error); ok && ne.Timeout() {
			srvDone <- "server did not see EOF after the client closed"
			return
		}
		srvDone <- ""
	}})
	defer be.Next(nil)
	c, err := c20Dial(h.addr)
	if err != nil {
		res.clientErr = "dial: " + err.Error()
		return
	}
	defer c.Close()
	c.SetDeadline(time.Now().Add(30 * time.Second))
	fmt.Fprintf(c, "GET /ws HTTP/1.1\r\nHost: x.test\r\n"+c20Handshakes[hs]+"Sec-WebSocket-Version: 13\r\nSec-WebSocket-Key: dGhlIHNhbXBsZSBub25jZQ==\r\nX-API-Key: sesame\r\nAccept-Encoding: gzip\r\n\r\n")
	br := bufio.NewReader(c)
	line, err := br.ReadString('\n')
	if err != nil || !strings.Contains(line, " 101 ") {
		res.clientErr = fmt.Sprintf("no 101 answer: %q %v", strings.TrimSpace(line), err)
		select {
		case res.serverErr = <-srvDone:
		case <-time.After(2 * time.Second):
		}
		return
	}
	for {
		l, err := br.ReadString('\n')
		if err != nil {
			res.clientErr = "reading 101 header: " + err.Error()
			return
		}
		if l == "\r\n" {
			break
		}
	}
	for i, st := range script {
		if st.FromClient {
			if st.PauseMs > 0 {
				time.Sleep(time.Duration(st.PauseMs) * time.Millisecond)
			}
			if i == len(script)-1 && !serverCloses && c20BeforeLastWrite != nil {
				c20BeforeLastWrite() // the client's last bytes and its close leave together
			}
			if _, err := c.Write(c20Data(i, st.N)); err != nil {
				res.clientErr = fmt.Sprintf("step %d: client write: %v", i, err)
				break
			}
		} else {
			buf := make([]byte, st.N)
			if _, err := io.ReadFull(br, buf); err != nil {
				res.clientErr = fmt.Sprintf("step %d: client expected %d bytes from the server: %v", i, st.N, err)
				break
			}
			if !bytes.Equal(buf, c20Data(i, st.N)) {
				res.clientErr = fmt.Sprintf("step %d: client received altered bytes", i)
				break
			}
		}
	}
	if res.clientErr == "" {
		if serverCloses {
			one := make([]byte, 1)
			n, err := br.Read(one)
			if n != 0 || err == nil {
				res.clientErr = "client received extra bytes instead of EOF after the server closed"
			} else if ne, ok := err.(net.Error); ok && ne.Timeout() {
				res.clientErr = "client did not see EOF after the server closed"
			}
		} else {
			c.Close()
		}
	}
	select {
	case res.serverErr = <-srvDone:
	case <-time.After(35 * time.Second):
		res.serverErr = "server side of the tunnel never finished"
	}
	return
}

func c20Chains(maxLen int) [][]string {
	out := [][]string{{}}
	cur := [][]string{{}}
	for l := 1; l <= maxLen; l++ {
		var next [][]string
		for _, p := range cur {
			for _, n := range c17Names {
				next = append(next, append(append([]string(nil), p...), n))
			}
		}
		out = append(out, next...)
		cur = next
	}
	return out
}

func TestVerifC20Tunnel(t *testing.T) {
	r := vres.Open("C20", "Tunnel")
	defer func() {
		if err := r.Close(); err != nil {
			t.Fatal(err)
		}
	}()
	th := vres.Thorough()
	shard, shards := shardOf()
	start := time.Now()
	type plan struct {
		chains  [][]string
		scripts [][]c20Step
	}
	plans := []plan{{c20Chains(2), c20Scripts(1)}, {c20Chains(1), c20Scripts(2)}}
	if th {
		plans = []plan{{c20Chains(2), c20Scripts(2)}, {c20Chains(3), c20Scripts(1)}, {c20Chains(1), c20Scripts(3)}}
	}
	var evals int64
	var outs vres.Outcomes
	var sample interface{}
	idx := 0
	seenChain := map[string]bool{}
	for pi, pl := range plans {
		for _, chain := range pl.chains {
			idx++
			if idx%shards != shard {
				continue
			}
			be := wire.NewBackend("b0")
			cfg := baseConfig("round_robin", be.URL())
			if len(chain) > 0 {
				cfg.Plugins.Enabled = true
				for _, n := range chain {
					pc := c17Valid[n]
					if n == "size_limit" {
						pc = sizeLimitCfg(512, 512) // far below the volume of a session: body limits do not apply to a tunnel
					}
					cfg.Plugins.Chain = append(cfg.Plugins.Chain, pc)
				}
			}
			cfg.Logging.RequestID = config.RequestIDConfig{Enabled: true}
			h, err := startHelios(cfg)
			if err != nil {
				t.Fatalf("chain %v: %v", chain, err)
			}
			for _, sc := range pl.scripts {
				for _, serverCloses := range []bool{false, true} {
					if pi > 0 && seenChain[fmt.Sprint(chain)] && len(sc) <= 1 {
						continue // already run under the first plan
					}
					res := c20Session(h, be, sc, serverCloses)
					evals++
					desc := fmt.Sprintf("chain=%v script=%v closer=%s", chain, sc, map[bool]string{true: "server", false: "client"}[serverCloses])
					outs.Add(fmt.Sprintf("len%d/chain%d/%v", len(sc), len(chain), res.clientErr == "" && res.serverErr == ""))
					if sample == nil && len(sc) == 2 && len(chain) == 1 {
						sample = map[string]interface{}{"session": desc}
					}
					if res.clientErr != "" || res.serverErr != "" {
						kind := "bytes-lost-or-altered"
						all := res.clientErr + " " + res.serverErr
						switch {
						case strings.Contains(all, "no 101"):
							kind = "upgrade-refused/" + strings.Join(chain, ",")
						case strings.Contains(all, "EOF after"):
							kind = "close-not-propagated"
						}
						r.Violate("C20/tunnel/"+kind, fmt.Sprintf("%s: client: %s | server: %s", desc, res.clientErr, res.serverErr), len(sc)*10+len(chain), map[string]interface{}{"engine": "W", "test": "TestVerifC20Tunnel", "chain": chain, "script": sc, "server_closes": serverCloses})
					}
				}
			}
			// the other legal spellings of the handshake, one short session each
			if pi == 0 && len(chain) <= 1 {
				for hs := 1; hs < len(c20Handshakes); hs++ {
					sc := []c20Step{{true, 125, 0}}
					res := c20SessionHS(h, be, sc, false, hs)
					evals++
					outs.Add(fmt.Sprintf("handshake%d/chain%d/%v", hs, len(chain), res.clientErr == "" && res.serverErr == ""))
					if res.clientErr != "" || res.serverErr != "" {
						r.Violate("C20/tunnel/upgrade-refused-for-legal-handshake/"+strings.Join(chain, ","), fmt.Sprintf("chain=%v handshake %q: client: %s | server: %s", chain, c20Handshakes[hs], res.clientErr, res.serverErr), len(chain), map[string]interface{}{"engine": "W", "test": "TestVerifC20Tunnel", "chain": chain, "handshake": hs})
					}
				}
			}
			seenChain[fmt.Sprint(chain)] = true
			h.stop()
			be.Close()
		}
	}
	// time passing inside a session: with every configured timeout at 1 s a session stays up
	// while both sides are silent for longer than that, and while only one side talks
	quiet := [][]c20Step{
		{{true, 10, 0}, {false, 10, 0}, {true, 10, 1600}, {false, 10, 0}},
		{{true, 10, 0}, {false, 10, 0}, {true, 10, 300}, {true, 10, 300}, {true, 10, 300}, {true, 10, 300}, {true, 10, 300}, {true, 10, 300}, {false, 10, 0}},
		{{true, 10, 0}, {false, 10, 0}, {false, 10, 300}, {false, 10, 300}, {false, 10, 300}, {false, 10, 300}, {false, 10, 300}, {false, 10, 300}, {true, 10, 0}},
	}
	quietChains := append([][]string{{}}, c20Chains(1)[1:]...)
	if th {
		quietChains = c20Chains(2)
	}
	for _, chain := range quietChains {
		idx++
		if idx%shards != shard {
			continue
		}
		be := wire.NewBackend("b0")
		cfg := baseConfig("round_robin", be.URL())
		cfg.Server.Timeouts = config.TimeoutConfig{Read: 1, Write: 1, Idle: 1, Handler: 1, Shutdown: 1, BackendDial: 1, BackendRead: 1, BackendIdle: 1}
		if len(chain) > 0 {
			cfg.Plugins.Enabled = true
			for _, n := range chain {
				pc := c17Valid[n]
				if n == "size_limit" {
					pc = sizeLimitCfg(512, 512) // far below the volume of a session: body limits do not apply to a tunnel
				}
				cfg.Plugins.Chain = append(cfg.Plugins.Chain, pc)
			}
		}
		h, err := startHelios(cfg)
		if err != nil {
			t.Fatalf("chain %v: %v", chain, err)
		}
		for qi, sc := range quiet {
			for _, serverCloses := range []bool{false, true} {
				if qi > 0 && serverCloses {
					continue
				}
				res := c20Session(h, be, sc, serverCloses)
				evals++
				kind := []string{"both-silent-1.6s", "only-client-talks-1.8s", "only-server-talks-1.8s"}[qi]
				desc := fmt.Sprintf("every timeout 1s, chain=%v, session %s, closer=%s", chain, kind, map[bool]string{true: "server", false: "client"}[serverCloses])
				outs.Add(fmt.Sprintf("quiet/%s/chain%d/%v", kind, len(chain), res.clientErr == "" && res.serverErr == ""))
				if res.clientErr != "" || res.serverErr != "" {
					r.Violate("C20/tunnel/session-ended-by-helios/"+kind, fmt.Sprintf("%s: neither side had closed, but: client: %s | server: %s", desc, res.clientErr, res.serverErr), len(chain)*10+qi, map[string]interface{}{"engine": "W", "test": "TestVerifC20Tunnel", "chain": chain, "script": sc, "server_closes": serverCloses, "timeouts": 1})
				}
			}
		}
		h.stop()
		be.Close()
	}
	r.AddScenario(vres.Scenario{Name: "upgrade-tunnels", Engine: "W", Evaluations: evals, Distinct: int64(outs.N()), Outcomes: outs.N(),
		Rule:       "one evaluation = one Upgrade session through the real handler chain and reverse proxy following a lock-step byte script (sizes 0, 1, 125, 126, 65536, 100000 in either direction) ended by either side; plus, with every configured timeout at 1 s, sessions in which both sides are silent for 1.6 s or only one side talks for 1.8 s; distinct = (script length, chain length, verdict) classes",
		Bound:      map[bool]string{false: "chains <= 2 x scripts <= 1, chains <= 1 x scripts <= 2, both closers", true: "chains <= 2 x scripts <= 2, chains <= 3 x scripts <= 1, chains <= 1 x scripts <= 3, both closers"}[th],
		Exhaustive: true, Sample: sample, Extra: map[string]interface{}{"wall_s": time.Since(start).Seconds()}})
}
