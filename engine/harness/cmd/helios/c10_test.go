package main

import (
	"fmt"
	"gopkg.in/yaml.v3"
	"io"
	"log"
	"net/http"
	"net/netip"
	"os"
	"strings"
	"testing"
	"time"

	"github.com/0xReLogic/Helios/internal/adminapi"
	"github.com/0xReLogic/Helios/internal/config"
	"github.com/0xReLogic/Helios/internal/loadbalancer"
	"github.com/0xReLogic/Helios/internal/zzverif/vres"
	"github.com/0xReLogic/Helios/internal/zzverif/wire"
)

// C10 admin API access control: the real adminapi.NewMux handler behind a real http.Server on
// an in-memory listener whose connections report an arbitrary peer address; reference policy
// written with net/netip.

// peers, including other spellings of addresses that appear as single-address entries (IPv4-mapped,
// uncompressed, upper-case hex): the decision is about the address, not about its text
var c10Peers = []string{"127.0.0.1", "10.0.0.1", "10.1.2.3", "192.168.1.5", "203.0.113.7", "::1", "::ffff:10.0.0.1", "2001:db8::1", "fe80::1%eth0",
	"::ffff:203.0.113.7", "::ffff:127.0.0.1", "0:0:0:0:0:0:0:1", "2001:DB8::1", "2001:db8:0:0:0:0:0:1"}

var c10Entries = []string{"10.0.0.0/8", "10.1.0.0/16", "127.0.0.1", "::1", "2001:db8::/32", "0.0.0.0/0", "10.0.0.0/33", "abc", "", "  ", "10.0.0.0/8 ", "203.0.113.7", "2001:db8::1", "203.0.113.7/32",
	// an IPv4 address or network written in IPv4-mapped IPv6 form is still that address or network
	"::ffff:10.0.0.1", "::ffff:10.1.0.0/112"}

func peerAddr(p string) string {
	if strings.Contains(p, ":") {
		return "[" + p + "]:40000"
	}
	return p + ":40000"
}

func parseEntry(e string) (netip.Prefix, bool) {
	if pf, err := netip.ParsePrefix(e); err == nil {
		if pf.Addr().Is4In6() && pf.Bits() >= 96 {
			pf = netip.PrefixFrom(pf.Addr().Unmap(), pf.Bits()-96)
		}
		return pf.Masked(), true
	}
	if a, err := netip.ParseAddr(e); err == nil {
		a = a.Unmap()
		return netip.PrefixFrom(a, a.BitLen()), true
	}
	return netip.Prefix{}, false
}

// ipVerdict is the reference policy: "serve", "refuse", or "either" (acceptable both ways).
func ipVerdict(peer string, allow, deny []string) string {
	if len(allow) == 0 && len(deny) == 0 {
		return "serve"
	}
	a, err := netip.ParseAddr(peer)
	if err != nil || a.Zone() != "" {
		return "refuse-or-parse" // unparsable peers may only be refused
	}
	a = a.Unmap()
	malformed := false
	in := func(list []string) bool {
		hit := false
		for _, e := range list {
			pf, ok := parseEntry(e)
			if !ok {
				malformed = true
				continue
			}
			if pf.Contains(a) || (pf.Addr().Is4() && a.Is4() && pf.Contains(a)) {
				hit = true
			}
		}
		return hit
	}
	denied := in(deny)
	allowed := len(allow) == 0 || in(allow)
	if denied || !allowed {
		return "refuse"
	}
	if malformed {
		return "either" // failing closed is always acceptable
	}
	return "serve"
}

type adminInst struct {
	lb  *loadbalancer.LoadBalancer
	srv *http.Server
	l   *wire.SpoofListener
	cfg *config.Config
}

func newAdminInst(allow, deny []string, token string) *adminInst {
	cfg := baseConfig("round_robin", "http://127.0.0.1:9")
	cfg.Backends[0].Name = "secretbackend"
	cfg.AdminAPI = config.AdminAPIConfig{Enabled: true, Port: 9091, AuthToken: token, IPAllowList: allow, IPDenyList: deny}
	// the production path: the configuration is what LoadConfig makes of a YAML file (falls back
	// to the structure itself only if the file does not load)
	if y, err := yaml.Marshal(cfg); err == nil {
		if f, err := os.CreateTemp("", "verif-c10-*.yaml"); err == nil {
			f.Write(y)
			f.Close()
			if loaded, err := config.LoadConfig(f.Name()); err == nil {
				cfg = loaded
			}
			os.Remove(f.Name())
		}
	}
	lb, err := loadbalancer.NewLoadBalancer(cfg)
	if err != nil {
		panic(err)
	}
	h := adminapi.NewMux(lb, cfg, lb.GetMetricsCollector())
	l := wire.NewSpoofListener()
	srv := &http.Server{Handler: h, ErrorLog: log.New(io.Discard, "", 0)}
	go srv.Serve(l)
	return &adminInst{lb: lb, srv: srv, l: l, cfg: cfg}
}

func (a *adminInst) close() { a.srv.Close(); a.l.Close(); a.lb.Stop() }

func (a *adminInst) do(peer string, req *wire.Request) wire.Response {
	c := wire.Wrap(a.l.DialFrom(peerAddr(peer)))
	defer c.Close()
	req.Header = append(req.Header, wire.HeaderLine{"Connection", "close"})
	return c.Do(req, 10*time.Second)
}

func (a *adminInst) state() string {
	return fmt.Sprint(a.lb.ListBackends(), a.cfg.LoadBalancer.Strategy)
}

// c10LongToken is a token of n characters, no two positions of which need be equal.
func c10LongToken(n int) string {
	const alphabet = "ABCDEFGHIJKLMNOPQRSTUVWXYZabcdefghijklmnopqrstuvwxyz0123456789-_."
	b := make([]byte, n)
	for i := range b {
		b[i] = alphabet[(i*7+i/len(alphabet)*3+11)%len(alphabet)]
	}
	return string(b)
}

func sublists(entries []string, max int) [][]string {
	out := [][]string{nil}
	for i := range entries {
		out = append(out, []string{entries[i]})
	}
	if max >= 2 {
		for i := range entries {
			for j := i + 1; j < len(entries); j++ {
				out = append(out, []string{entries[i], entries[j]})
			}
		}
	}
	if max >= 3 {
		// triples over a core of the menu (one entry of each kind: two overlapping IPv4 networks,
		// single addresses of both families, an IPv6 network, match-all, malformed, blank, a
		// mapped address): the product of two triple lists over the whole menu is half a
		// million instances
		var core []string
		for _, e := range entries {
			switch e {
			case "10.0.0.0/8", "10.1.0.0/16", "127.0.0.1", "::1", "2001:db8::/32", "0.0.0.0/0", "abc", "", "::ffff:10.0.0.1":
				core = append(core, e)
			}
		}
		for i := range core {
			for j := i + 1; j < len(core); j++ {
				for k := j + 1; k < len(core); k++ {
					out = append(out, []string{core[i], core[j], core[k]})
				}
			}
		}
	}
	return out
}

type c10Endpoint struct {
	method, path, body string
	protected          bool // behind the bearer token
	mutates            bool
}

var c10Endpoints = []c10Endpoint{
	{"GET", "/v1/health", "", false, false},
	{"GET", "/v1/backends", "", true, false},
	{"GET", "/v1/metrics", "", true, false},
	{"POST", "/v1/backends/add", `{"name":"evil","address":"http://127.0.0.1:1","weight":1}`, true, true},
	{"POST", "/v1/backends/remove", `{"name":"secretbackend"}`, true, true},
	{"DELETE", "/v1/backends/remove", `{"name":"secretbackend"}`, true, true},
	{"POST", "/v1/strategy", `{"strategy":"ip_hash"}`, true, true},
	{"GET", "/v1/strategy", "", true, false},
	{"GET", "/v1/nope", "", false, false},
	{"GET", "/", "", false, false},
	// (new entries go at the end: the IP product refers to endpoints by index)
	// every other method on the protected paths: the token is asked for whatever the method -
	// a preflight-style OPTIONS, a HEAD, methods the endpoint does not implement
	{"OPTIONS", "/v1/metrics", "", true, false},
	{"OPTIONS", "/v1/backends", "", true, false},
	{"OPTIONS", "/v1/backends/add", "", true, false},
	{"OPTIONS", "/v1/backends/remove", "", true, false},
	{"OPTIONS", "/v1/strategy", "", true, false},
	{"HEAD", "/v1/metrics", "", true, false},
	{"HEAD", "/v1/backends", "", true, false},
	{"POST", "/v1/metrics", `{}`, true, false},
	{"PUT", "/v1/backends/add", `{"name":"evil","address":"http://127.0.0.1:1","weight":1}`, true, true},
	{"PATCH", "/v1/strategy", `{"strategy":"ip_hash"}`, true, true},
	{"TRACE", "/v1/backends", "", true, false},
	{"get", "/v1/backends", "", true, false},
}

func (e c10Endpoint) request(extra ...wire.HeaderLine) *wire.Request {
	r := &wire.Request{Method: e.method, Target: e.path, Header: []wire.HeaderLine{{"Host", "admin.test"}}}
	r.Header = append(r.Header, extra...)
	if e.body == "" {
		r.NoBody = true
	} else {
		r.Header = append(r.Header, wire.HeaderLine{"Content-Type", "application/json"})
		r.Body = []byte(e.body)
	}
	return r
}

func TestVerifC10(t *testing.T) {
	r := vres.Open("C10", "W")
	defer func() {
		if err := r.Close(); err != nil {
			t.Fatal(err)
		}
	}()
	th := vres.Thorough()
	shard, shards := shardOf()
	start := time.Now()
	var evals int64
	var outs vres.Outcomes
	var sample interface{}
	maxList := 1
	if th {
		maxList = 3
	}
	lists := sublists(c10Entries, maxList)
	forged := []struct {
		label string
		hdr   []wire.HeaderLine
	}{
		{"none", nil},
		{"xff-loopback", []wire.HeaderLine{{"X-Forwarded-For", "127.0.0.1"}}},
		{"xff-private", []wire.HeaderLine{{"X-Forwarded-For", "10.1.2.3"}}},
		{"real-ip-loopback", []wire.HeaderLine{{"X-Real-IP", "127.0.0.1"}}},
		{"xff-list", []wire.HeaderLine{{"X-Forwarded-For", "10.0.0.9, 203.0.113.7"}}},
		{"xff-outsider", []wire.HeaderLine{{"X-Forwarded-For", "203.0.113.99"}}},
	}
	// ---- product A: IP policy
	idx := 0
	for _, allow := range lists {
		for _, deny := range lists {
			idx++
			if idx%shards != shard {
				continue
			}
			inst := newAdminInst(allow, deny, "")
			before := inst.state()
			for _, peer := range c10Peers {
				want := ipVerdict(peer, allow, deny)
				for _, fg := range forged {
					for _, ep := range []c10Endpoint{c10Endpoints[1], c10Endpoints[0], c10Endpoints[3], c10Endpoints[8]} {
						if ep.mutates && want != "refuse" && want != "refuse-or-parse" {
							continue // only refused mutations are tried here (state must stay untouched)
						}
						resp := inst.do(peer, ep.request(fg.hdr...))
						evals++
						served := resp.Err == "" && resp.Status != 403 && resp.Status != 401
						desc := fmt.Sprintf("allow=%v deny=%v peer=%s forged=%s %s %s", allow, deny, peer, fg.label, ep.method, ep.path)
						outs.Add(fmt.Sprintf("%s/%v", want, served))
						if sample == nil && len(allow) == 1 && fg.label == "xff-loopback" && want == "refuse" {
							sample = map[string]interface{}{"case": desc, "reference": want, "status": resp.Status}
						}
						malformed := ""
						for _, e := range append(append([]string{}, allow...), deny...) {
							if _, ok := parseEntry(e); !ok {
								malformed = "/malformed-entry"
							}
						}
						switch {
						case resp.Err != "":
							r.Violate("C10/admin-response-broken", desc+": "+resp.Err, len(desc), nil)
						case (want == "refuse" || want == "refuse-or-parse") && served:
							key := "C10/ip/served-a-peer-the-policy-refuses" + malformed
							if fg.label != "none" && malformed == "" {
								key = "C10/ip/forged-header-changes-decision/" + strings.SplitN(fg.label, "-", 2)[0]
							}
							what := fmt.Sprintf("%s: status %d", desc, resp.Status)
							if strings.Contains(string(resp.Body), "secretbackend") {
								what += " and the body discloses the backend list"
							}
							r.Violate(key, what, len(allow)+len(deny)+len(fg.hdr)*2, map[string]interface{}{"engine": "W", "test": "TestVerifC10", "allow": allow, "deny": deny, "peer": peer, "forged": fg.label})
						case want == "serve" && !served:
							key := "C10/ip/refused-a-peer-the-policy-allows"
							if fg.label != "none" {
								key = "C10/ip/forged-header-changes-decision/" + strings.SplitN(fg.label, "-", 2)[0]
							}
							r.Violate(key, fmt.Sprintf("%s: status %d", desc, resp.Status), len(allow)+len(deny)+len(fg.hdr)*2, map[string]interface{}{"engine": "W", "test": "TestVerifC10", "allow": allow, "deny": deny, "peer": peer, "forged": fg.label})
						}
					}
				}
			}
			if after := inst.state(); after != before {
				r.Violate("C10/ip/refused-request-changed-state", fmt.Sprintf("allow=%v deny=%v: refused mutating requests changed the balancer from %s to %s", allow, deny, before, after), 1, nil)
			}
			inst.close()
		}
	}
	// ---- product B: bearer token x Authorization spellings x endpoints (x two IP configurations)
	const token = "s3cr3t-token"
	auths := []struct {
		label string
		lines []string
		exact bool
	}{
		{"absent", nil, false},
		{"exact", []string{"Bearer " + token}, true},
		{"wrong", []string{"Bearer nope"}, false},
		{"lowercase-scheme", []string{"bearer " + token}, false},
		{"double-space", []string{"Bearer  " + token}, false},
		{"token-with-suffix", []string{"Bearer " + token + "x"}, false},
		{"prefix-only", []string{"Bearer "}, false},
		{"token-only", []string{token}, false},
		{"basic", []string{"Basic " + token}, false},
		{"two-lines-wrong-first", []string{"Bearer nope", "Bearer " + token}, false},
		{"trailing-space", []string{"Bearer " + token + " "}, true}, // net/http trims optional whitespace around field values
	}
	for _, tok := range []string{token, ""} {
		for _, ipcfg := range [][2][]string{{nil, nil}, {{"10.0.0.0/8"}, nil}} {
			idx++
			if idx%shards != shard {
				continue
			}
			inst := newAdminInst(ipcfg[0], ipcfg[1], tok)
			for _, peer := range []string{"10.0.0.1", "203.0.113.7"} {
				ipw := ipVerdict(peer, ipcfg[0], ipcfg[1])
				for _, au := range auths {
					for _, ep := range c10Endpoints {
						var hdr []wire.HeaderLine
						for _, l := range au.lines {
							hdr = append(hdr, wire.HeaderLine{"Authorization", l})
						}
						before := inst.state()
						resp := inst.do(peer, ep.request(hdr...))
						after := inst.state()
						evals++
						needAuth := tok != "" && ep.protected
						authOK := !needAuth || au.exact
						served := resp.Err == "" && resp.Status != 401 && resp.Status != 403
						desc := fmt.Sprintf("token=%v ip-allow=%v peer=%s authorization=%s %s %s", tok != "", ipcfg[0], peer, au.label, ep.method, ep.path)
						outs.Add(fmt.Sprintf("auth/%v/%v/%v", needAuth, authOK, served))
						switch {
						case resp.Err != "":
							r.Violate("C10/admin-response-broken", desc+": "+resp.Err, len(desc), nil)
						case ipw == "refuse" && served:
							r.Violate("C10/ip/served-a-peer-the-policy-refuses", fmt.Sprintf("%s: status %d", desc, resp.Status), 5, nil)
						case ipw == "serve" && !authOK && served:
							r.Violate("C10/auth/served-without-exact-bearer-token/"+au.label, fmt.Sprintf("%s: status %d", desc, resp.Status), len(au.label), map[string]interface{}{"engine": "W", "test": "TestVerifC10", "authorization": au.lines, "endpoint": ep.path})
						case ipw == "serve" && !authOK && resp.Status != 401:
							r.Violate("C10/auth/refusal-is-not-401", fmt.Sprintf("%s: status %d", desc, resp.Status), 5, nil)
						case ipw == "serve" && authOK && !served:
							r.Violate("C10/auth/refused-although-authorised/"+au.label, fmt.Sprintf("%s: status %d", desc, resp.Status), len(au.label), nil)
						}
						if !served || !authOK {
							if before != after {
								r.Violate("C10/refused-request-changed-state", fmt.Sprintf("%s: balancer state changed from %s to %s", desc, before, after), 3, nil)
							}
							if strings.Contains(string(resp.Body), "secretbackend") {
								r.Violate("C10/refused-request-discloses-backends", desc+": the refusal body names a backend", 3, nil)
							}
						}
						if served && ep.mutates && resp.Status < 300 {
							// undo so that later cases start from the same state
							inst.close()
							inst = newAdminInst(ipcfg[0], ipcfg[1], tok)
						}
					}
				}
			}
			inst.close()
		}
	}
	// ---- product C: tokens with characters that configuration layers like to interpret
	// (variable references, comment and quote characters, spaces, non-ASCII): the token that
	// counts is the configured string, byte for byte
	idx++
	if idx%shards == shard {
		os.Unsetenv("VERIF_UNSET_VAR")
		os.Setenv("VERIF_SET_VAR", "expanded")
		for _, tok := range []string{"adm1n$ecret2024", "${VERIF_UNSET_VAR}", "$VERIF_UNSET_VAR", "${VERIF_SET_VAR}", "pre$VERIF_SET_VAR", "tok en", "#hash", "a:b", "'q'", "\"dq\"", "t\u00f6k\u20acn", "%41bc", "{{ .Token }}", "~", "null", "0123", "true",
			// tokens of some length (a JWT, a base64 text of 64 random bytes): exactly is exactly,
			// however long - lengths on both sides of the sizes a fixed buffer might have
			c10LongToken(31), c10LongToken(32), c10LongToken(33), c10LongToken(63), c10LongToken(64), c10LongToken(65), c10LongToken(88), c10LongToken(127), c10LongToken(128), c10LongToken(129), c10LongToken(255), c10LongToken(256), c10LongToken(257), c10LongToken(1000), c10LongToken(4097)} {
			inst := newAdminInst(nil, nil, tok)
			cut := strings.IndexAny(tok, "$ #:'\"%{")
			variants := []struct {
				label string
				lines []string
				exact bool
			}{
				{"absent", nil, false},
				{"exact", []string{"Bearer " + tok}, true},
				{"empty-bearer", []string{"Bearer "}, false},
				{"expanded", []string{"Bearer " + os.ExpandEnv(tok)}, os.ExpandEnv(tok) == tok},
			}
			if len(tok) >= 31 {
				type v = struct {
					label string
					lines []string
					exact bool
				}
				variants = append(variants, v{"all-but-the-last-character", []string{"Bearer " + tok[:len(tok)-1]}, false},
					v{"last-character-changed", []string{"Bearer " + tok[:len(tok)-1] + "#"}, false}, v{"one-character-more", []string{"Bearer " + tok + "x"}, false})
				for _, k := range []int{8, 16, 32, 64, 128, 256, 512, 1024, 4096} {
					if k < len(tok) {
						variants = append(variants, v{fmt.Sprintf("first-%d-characters", k), []string{"Bearer " + tok[:k]}, false},
							v{fmt.Sprintf("first-%d-characters-then-other-text", k), []string{"Bearer " + tok[:k] + strings.Repeat("z", len(tok)-k)}, false})
					}
				}
			}
			if cut > 0 {
				variants = append(variants, struct {
					label string
					lines []string
					exact bool
				}{"prefix-before-special-character", []string{"Bearer " + tok[:cut]}, false})
			}
			for _, au := range variants {
				for _, ep := range c10Endpoints {
					if !ep.protected {
						continue
					}
					var hdr []wire.HeaderLine
					for _, l := range au.lines {
						hdr = append(hdr, wire.HeaderLine{"Authorization", l})
					}
					before := inst.state()
					resp := inst.do("10.0.0.1", ep.request(hdr...))
					after := inst.state()
					evals++
					served := resp.Err == "" && resp.Status != 401 && resp.Status != 403
					desc := fmt.Sprintf("token %q (loaded from YAML) authorization=%s %s %s", tok, au.label, ep.method, ep.path)
					outs.Add(fmt.Sprintf("token-chars/%v/%v", au.exact, served))
					switch {
					case !au.exact && served:
						r.Violate("C10/auth/served-without-exact-bearer-token/"+au.label, fmt.Sprintf("%s: status %d", desc, resp.Status), len(tok), map[string]interface{}{"engine": "W", "test": "TestVerifC10", "token": tok, "authorization": au.lines, "endpoint": ep.path})
					case !au.exact && before != after:
						r.Violate("C10/refused-request-changed-state", fmt.Sprintf("%s: balancer state changed from %s to %s", desc, before, after), 3, nil)
					case au.exact && !served:
						r.Violate("C10/auth/refused-although-authorised/"+au.label, fmt.Sprintf("%s: status %d", desc, resp.Status), len(tok), nil)
					}
					if served && ep.mutates && resp.Status < 300 {
						inst.close()
						inst = newAdminInst(nil, nil, tok)
					}
				}
			}
			inst.close()
		}
	}
	r.AddScenario(vres.Scenario{Name: "admin-access-control", Engine: "W", Evaluations: evals, Distinct: int64(outs.N()), Outcomes: outs.N(),
		Rule:  "IP product: allow-list x deny-list (all sub-lists of up to two entries of the 16-entry menu, in the thorough tier also all triples over a 9-entry core (overlapping networks, both families, mapped, match-all, malformed, blank)) x 14 peer addresses (IPv4, IPv6, IPv4-mapped, zoned, non-canonical spellings) x 6 forged-header variants x endpoints; token product: token configured or not x 11 Authorization spellings x 10 endpoint/method pairs x peers; 17 tokens with characters a configuration layer might interpret and 15 tokens of 31 .. 4097 characters (with credentials that are prefixes, one character short, one long, or equal up to a power of two), loaded through the real LoadConfig from YAML; judged by a net/netip reference policy; distinct = (reference verdict, served) classes",
		Bound: fmt.Sprintf("sub-lists of size <= %d (%d x %d list pairs)", maxList, len(lists), len(lists)), Exhaustive: true, Sample: sample,
		Extra: map[string]interface{}{"wall_s": time.Since(start).Seconds()}})
}
