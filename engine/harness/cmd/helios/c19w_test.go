package main

import (
	"bufio"
	"context"
	"fmt"
	"io"
	"net"
	"net/http"
	"reflect"
	"strings"
	"sync"
	"sync/atomic"
	"testing"
	"time"

	"github.com/0xReLogic/Helios/internal/config"
	"github.com/0xReLogic/Helios/internal/zzverif/vres"
	"github.com/0xReLogic/Helios/internal/zzverif/wire"
)

// C19 (pooled connections, wire level): "pooled connections are closed" also holds for the
// keep-alive connections the proxy keeps open to its backends between requests. Every strategy
// x 1..3 backends x 1..3 rounds of requests x active health checks on or off: after the
// repository's shutdownGracefully (server shutdown, then the balancer's Stop) every connection a
// backend has accepted from the proxy must be closed by the proxy; the backends only watch.

// watchBackend answers every request with a small 200 on a kept-alive connection and counts
// the connections that are open.
type watchBackend struct {
	l       net.Listener
	mu      sync.Mutex
	open    int
	seen    int
	parked  chan struct{} // a request for /hold has arrived
	release chan struct{} // ... and is answered when this is closed
}

func newWatchBackend() *watchBackend {
	l, err := net.Listen("tcp", "127.0.0.1:0")
	if err != nil {
		panic(err)
	}
	b := &watchBackend{l: l, parked: make(chan struct{}, 8), release: make(chan struct{})}
	go func() {
		for {
			c, err := l.Accept()
			if err != nil {
				return
			}
			b.mu.Lock()
			b.open++
			b.seen++
			b.mu.Unlock()
			go func() {
				defer func() {
					c.Close()
					b.mu.Lock()
					b.open--
					b.mu.Unlock()
				}()
				br := bufio.NewReader(c)
				for {
					req, err := http.ReadRequest(br)
					if err != nil {
						return // the peer closed the connection
					}
					req.Body.Close()
					if req.URL.Path == "/hold" {
						b.parked <- struct{}{}
						<-b.release
					}
					fmt.Fprintf(c, "HTTP/1.1 200 OK\r\nContent-Type: text/plain\r\nContent-Length: 2\r\n\r\nok")
				}
			}()
		}
	}()
	return b
}

func (b *watchBackend) counts() (open, seen int) {
	b.mu.Lock()
	defer b.mu.Unlock()
	return b.open, b.seen
}

// c19wShutdown calls the repository's shutdownGracefully. The call is made through reflection so
// that a change of its parameter list (a context handed in, the order of the parameters) does not
// stop the harness from compiling: each parameter is supplied by its type. ok is false when a
// parameter is of a type the harness cannot supply; the part is then skipped and says so.
var c19wSignatureUnknown atomic.Value

func c19wShutdown(h *helios, timeout time.Duration) {
	fn := reflect.ValueOf(shutdownGracefully)
	var args []reflect.Value
	for i := 0; i < fn.Type().NumIn(); i++ {
		switch t := fn.Type().In(i); {
		case t == reflect.TypeOf(h.srv):
			args = append(args, reflect.ValueOf(h.srv))
		case t == reflect.TypeOf(h.lb):
			args = append(args, reflect.ValueOf(h.lb))
		case t == reflect.TypeOf(timeout):
			args = append(args, reflect.ValueOf(timeout))
		case t == reflect.TypeOf((*context.Context)(nil)).Elem():
			// a context of the caller's: as main() would make it when the signal arrives
			ctx, cancel := context.WithTimeout(context.Background(), timeout)
			defer cancel()
			args = append(args, reflect.ValueOf(ctx))
		default:
			c19wSignatureUnknown.Store(fmt.Sprintf("parameter %d of shutdownGracefully has type %s", i, t))
			h.stop()
			return
		}
	}
	fn.Call(args)
}

// c19wParked waits for the held request and tells which backend it is parked at.
func c19wParked(bes []*watchBackend) int {
	cases := make([]reflect.SelectCase, 0, len(bes)+1)
	for _, b := range bes {
		cases = append(cases, reflect.SelectCase{Dir: reflect.SelectRecv, Chan: reflect.ValueOf(b.parked)})
	}
	cases = append(cases, reflect.SelectCase{Dir: reflect.SelectRecv, Chan: reflect.ValueOf(time.After(5 * time.Second))})
	if i, _, _ := reflect.Select(cases); i < len(bes) {
		return i
	}
	return -1
}

// c19wPlacements: where the signal falls relative to client traffic.
var c19wPlacements = []string{"quiet", "request-at-its-backend", "request-header-half-sent", "quiet-after-removing-b0", "quiet-after-removing-the-backend-of-a-request-in-flight"}

func TestVerifC19W(t *testing.T) {
	r := vres.Open("C19", "W")
	defer func() {
		if err := r.Close(); err != nil {
			t.Fatal(err)
		}
	}()
	start := time.Now()
	var evals int64
	var outs vres.Outcomes
	shard, shards := shardOf()
	idx := 0
	for _, strat := range []string{"round_robin", "least_connections", "weighted_round_robin", "ip_hash", "ip_hash_consistent"} {
		for n := 1; n <= 3; n++ {
			for rounds := 1; rounds <= 3; rounds++ {
				for _, active := range []bool{false, true} {
					for _, placement := range c19wPlacements {
						if placement != "quiet" && rounds > 1 {
							continue
						}
						if strings.HasPrefix(placement, "quiet-after-removing") && n < 2 {
							continue
						}
						idx++
						if idx%shards != shard {
							continue
						}
						var bes []*watchBackend
						var urls []string
						for i := 0; i < n; i++ {
							b := newWatchBackend()
							bes = append(bes, b)
							urls = append(urls, "http://"+b.l.Addr().String())
						}
						cfg := baseConfig(strat, urls...)
						if active {
							cfg.HealthChecks.Active = config.ActiveHealthCheckConfig{Enabled: true, Interval: 3600, Timeout: 5, Path: "/"}
						}
						// (the harness learns from the server's connection-state hook when a connection has
						// been taken up: a signal must not overtake the accept of the connection it is placed
						// against)
						taken := make(chan struct{}, 64)
						kitOnServer = func(srv *http.Server) {
							srv.ConnState = func(_ net.Conn, st http.ConnState) {
								if st == http.StateNew {
									select {
									case taken <- struct{}{}:
									default:
									}
								}
							}
						}
						h, err := startHelios(cfg)
						kitOnServer = nil
						if err != nil {
							t.Fatal(err)
						}
						e := &exch{addr: h.addr}
						for i := 0; i < rounds*n; i++ {
							resp := e.do(&wire.Request{Method: "GET", Target: "/", Header: []wire.HeaderLine{{"Host", "x.test"}, {"X-Forwarded-For", fmt.Sprintf("10.9.%d.%d", i, i*7)}}, NoBody: true}, 10*time.Second)
							if resp.Err != "" || resp.Status != 200 {
								t.Fatalf("%s n=%d: request %d: %d %s", strat, n, i, resp.Status, resp.Err)
							}
						}
						e.close()
						seenTotal := 0
						for _, b := range bes {
							_, seen := b.counts()
							seenTotal += seen
						}
						// the signal: main() calls shutdownGracefully (the repository's function, as it is)
						shutdownDone := make(chan struct{})
						signal := func() {
							go func() {
								c19wShutdown(h, 8*time.Second)
								close(shutdownDone)
							}()
						}
						inFlight := ""
						switch placement {
						case "quiet":
							signal()
						case "quiet-after-removing-b0":
							// the Admin API removed a backend the proxy has kept-alive connections to
							h.lb.RemoveBackend("b0")
							signal()
						case "quiet-after-removing-the-backend-of-a-request-in-flight":
							c, err := wire.Dial(h.addr)
							if err != nil {
								t.Fatal(err)
							}
							got := make(chan wire.Response, 1)
							go func() {
								got <- c.Do(&wire.Request{Method: "GET", Target: "/hold", Header: []wire.HeaderLine{{"Host", "x.test"}}, NoBody: true}, 10*time.Second)
							}()
							parkedAt := c19wParked(bes)
							if parkedAt < 0 {
								t.Fatalf("%s n=%d: the held request never reached a backend", strat, n)
							}
							h.lb.RemoveBackend(fmt.Sprintf("b%d", parkedAt))
							close(bes[parkedAt].release)
							resp := <-got
							c.Close()
							if resp.Status != 200 {
								inFlight = fmt.Sprintf("the request that was at its backend when that backend was removed was answered %d %s", resp.Status, resp.Err)
							}
							signal()
						case "request-at-its-backend":
							// the request is parked at a backend when the signal arrives and answered 150 ms later
							c, err := wire.Dial(h.addr)
							if err != nil {
								t.Fatal(err)
							}
							got := make(chan wire.Response, 1)
							go func() {
								got <- c.Do(&wire.Request{Method: "GET", Target: "/hold", Header: []wire.HeaderLine{{"Host", "x.test"}}, NoBody: true}, 10*time.Second)
							}()
							parkedAt := c19wParked(bes)
							if parkedAt < 0 {
								t.Fatalf("%s n=%d: the held request never reached a backend", strat, n)
							}
							signal()
							time.Sleep(150 * time.Millisecond)
							close(bes[parkedAt].release)
							resp := <-got
							c.Close()
							if resp.Status != 200 {
								inFlight = fmt.Sprintf("the request that was at its backend when the signal arrived was answered %d %s", resp.Status, resp.Err)
							}
						case "request-header-half-sent":
							// the client has connected and sent half of its request header when the signal
							// arrives, and the rest 150 ms later (the quantifier's "before headers")
							for len(taken) > 0 {
								<-taken
							}
							c, err := net.Dial("tcp", h.addr)
							if err != nil {
								t.Fatal(err)
							}
							fmt.Fprintf(c, "GET / HTTP/1.1\r\nHost: x.te")
							select {
							case <-taken: // the server has taken the connection up
							case <-time.After(10 * time.Second):
								t.Fatalf("%s n=%d: the server never took up the connection", strat, n)
							}
							time.Sleep(30 * time.Millisecond)
							signal()
							time.Sleep(150 * time.Millisecond)
							fmt.Fprintf(c, "st\r\nX-Forwarded-For: 10.9.8.7\r\n\r\n")
							c.SetReadDeadline(time.Now().Add(10 * time.Second))
							resp, err := http.ReadResponse(bufio.NewReader(c), nil)
							if err != nil {
								inFlight = fmt.Sprintf("the request whose header was half sent when the signal arrived got no answer: %v", err)
							} else {
								io.Copy(io.Discard, resp.Body)
								resp.Body.Close()
								if resp.StatusCode != 200 {
									inFlight = fmt.Sprintf("the request whose header was half sent when the signal arrived was answered %d", resp.StatusCode)
								}
							}
							c.Close()
						}
						select {
						case <-shutdownDone:
						case <-time.After(20 * time.Second):
							r.Violate("C19/shutdown-does-not-return/wire", fmt.Sprintf("%s, %d backend(s), active checks %v, %s: shutdownGracefully (timeout 8 s) has not returned after 20 s", strat, n, active, placement), n, map[string]interface{}{"engine": "W", "test": "TestVerifC19W", "strategy": strat, "backends": n, "rounds": rounds, "active": active, "placement": placement})
						}
						if inFlight != "" {
							r.Violate("C19/in-flight-request-not-finished/wire/"+placement, fmt.Sprintf("%s, %d backend(s), active checks %v: %s", strat, n, active, inFlight), n, map[string]interface{}{"engine": "W", "test": "TestVerifC19W", "strategy": strat, "backends": n, "rounds": rounds, "active": active, "placement": placement})
						}
						seenTotal = 0
						for _, b := range bes {
							_, seen := b.counts()
							seenTotal += seen
						}
						open := 0
						for wait := 0; wait < 100; wait++ {
							open = 0
							for _, b := range bes {
								o, _ := b.counts()
								open += o
							}
							if open == 0 {
								break
							}
							time.Sleep(20 * time.Millisecond)
						}
						evals++
						outs.Add(fmt.Sprintf("%s/%v/%s/%v", strat, active, placement, open == 0))
						if open != 0 {
							r.Violate("C19/pooled-connection-left-open/backend-keep-alive", fmt.Sprintf("%s, %d backend(s), %d round(s) of requests, active checks %v, signal placement %s: 2 s after shutdownGracefully returned %d of the %d connection(s) the proxy had opened to its backends are still open", strat, n, rounds, active, placement, open, seenTotal), n, map[string]interface{}{"engine": "W", "test": "TestVerifC19W", "strategy": strat, "backends": n, "rounds": rounds, "active": active, "placement": placement})
						}
						for _, b := range bes {
							b.l.Close()
						}
					}
				}
			}
		}
	}
	if why, _ := c19wSignatureUnknown.Load().(string); why != "" {
		r.Note("the wire part could not call the repository's shutdownGracefully (%s): it stopped the instance the way the function did when the harness was written (server, then balancer)", why)
	}
	r.AddScenario(vres.Scenario{Name: "backend-keep-alive-connections-closed-on-shutdown", Engine: "W", Evaluations: evals, Distinct: int64(outs.N()), Outcomes: outs.N(),
		Rule:  "one evaluation = a real Helios instance in front of 1..3 watching backends, rounds of proxied requests over a kept-alive client connection, then the repository's shutdownGracefully, with the signal falling when nothing is in flight, when a request is parked at its backend (answered 150 ms later) when a client has sent half of its request header (the rest follows 150 ms later), or when nothing is in flight after a backend has been removed (idle, or with a request parked at it that is answered after the removal); the request in flight must be answered 200, shutdownGracefully must return, and every connection the backends accepted must be closed within 2 s of its return; distinct = (strategy, active checks, placement, all closed) classes",
		Bound: "5 strategies x 1..3 backends x (quiet: 1..3 rounds; other placements: 1 round) x active checks on/off x 5 signal placements (the two with a removal: 2..3 backends)", Exhaustive: true,
		Extra: map[string]interface{}{"wall_s": time.Since(start).Seconds()}})
}
