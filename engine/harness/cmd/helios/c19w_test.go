package main

import (
	"bufio"
	"fmt"
	"net"
	"net/http"
	"sync"
	"testing"
	"time"

	"github.com/0xReLogic/Helios/internal/config"
	"github.com/0xReLogic/Helios/internal/zzverif/vres"
	"github.com/0xReLogic/Helios/internal/zzverif/wire"
)

// C19 (pooled connections, wire level): "pooled connections are closed" also holds for the
// keep-alive connections the proxy keeps open to its backends between requests. Every strategy
// x 1..3 backends x 1..3 rounds of requests x active health checks on or off: after the
// shutdown sequence of main() (server shutdown, then the balancer's Stop) every connection a
// backend has accepted from the proxy must be closed by the proxy; the backends only watch.

// watchBackend answers every request with a small 200 on a kept-alive connection and counts
// the connections that are open.
type watchBackend struct {
	l    net.Listener
	mu   sync.Mutex
	open int
	seen int
}

func newWatchBackend() *watchBackend {
	l, err := net.Listen("tcp", "127.0.0.1:0")
	if err != nil {
		panic(err)
	}
	b := &watchBackend{l: l}
	go func() {
		for {
			c, err := l.Accept()
			if err != nil {
				return
			}
			b.mu.Lock()
			b.open++
			b.seen++
			b.mu.Unlock()
			go func() {
				defer func() {
					c.Close()
					b.mu.Lock()
					b.open--
					b.mu.Unlock()
				}()
				br := bufio.NewReader(c)
				for {
					req, err := http.ReadRequest(br)
					if err != nil {
						return // the peer closed the connection
					}
					req.Body.Close()
					fmt.Fprintf(c, "HTTP/1.1 200 OK\r\nContent-Type: text/plain\r\nContent-Length: 2\r\n\r\nok")
				}
			}()
		}
	}()
	return b
}

func (b *watchBackend) counts() (open, seen int) {
	b.mu.Lock()
	defer b.mu.Unlock()
	return b.open, b.seen
}

func TestVerifC19W(t *testing.T) {
	r := vres.Open("C19", "W")
	defer func() {
		if err := r.Close(); err != nil {
			t.Fatal(err)
		}
	}()
	start := time.Now()
	var evals int64
	var outs vres.Outcomes
	shard, shards := shardOf()
	idx := 0
	for _, strat := range []string{"round_robin", "least_connections", "weighted_round_robin", "ip_hash", "ip_hash_consistent"} {
		for n := 1; n <= 3; n++ {
			for rounds := 1; rounds <= 3; rounds++ {
				for _, active := range []bool{false, true} {
					idx++
					if idx%shards != shard {
						continue
					}
					var bes []*watchBackend
					var urls []string
					for i := 0; i < n; i++ {
						b := newWatchBackend()
						bes = append(bes, b)
						urls = append(urls, "http://"+b.l.Addr().String())
					}
					cfg := baseConfig(strat, urls...)
					if active {
						cfg.HealthChecks.Active = config.ActiveHealthCheckConfig{Enabled: true, Interval: 3600, Timeout: 5, Path: "/"}
					}
					h, err := startHelios(cfg)
					if err != nil {
						t.Fatal(err)
					}
					e := &exch{addr: h.addr}
					for i := 0; i < rounds*n; i++ {
						resp := e.do(&wire.Request{Method: "GET", Target: "/", Header: []wire.HeaderLine{{"Host", "x.test"}, {"X-Forwarded-For", fmt.Sprintf("10.9.%d.%d", i, i*7)}}, NoBody: true}, 10*time.Second)
						if resp.Err != "" || resp.Status != 200 {
							t.Fatalf("%s n=%d: request %d: %d %s", strat, n, i, resp.Status, resp.Err)
						}
					}
					e.close()
					seenTotal := 0
					for _, b := range bes {
						_, seen := b.counts()
						seenTotal += seen
					}
					h.stop() // the server first, then the balancer's Stop: the order of shutdownGracefully
					open := 0
					for wait := 0; wait < 100; wait++ {
						open = 0
						for _, b := range bes {
							o, _ := b.counts()
							open += o
						}
						if open == 0 {
							break
						}
						time.Sleep(20 * time.Millisecond)
					}
					evals++
					outs.Add(fmt.Sprintf("%s/%v/%v", strat, active, open == 0))
					if open != 0 {
						r.Violate("C19/pooled-connection-left-open/backend-keep-alive", fmt.Sprintf("%s, %d backend(s), %d round(s) of requests, active checks %v: 2 s after the shutdown sequence %d of the %d connection(s) the proxy had opened to its backends are still open", strat, n, rounds, active, open, seenTotal), n, map[string]interface{}{"engine": "W", "test": "TestVerifC19W", "strategy": strat, "backends": n, "rounds": rounds, "active": active})
					}
					for _, b := range bes {
						b.l.Close()
					}
				}
			}
		}
	}
	r.AddScenario(vres.Scenario{Name: "backend-keep-alive-connections-closed-on-shutdown", Engine: "W", Evaluations: evals, Distinct: int64(outs.N()), Outcomes: outs.N(),
		Rule:  "one evaluation = a real Helios instance in front of 1..3 watching backends, rounds of proxied requests over a kept-alive client connection, then the shutdown sequence of main(); every connection the backends accepted must be closed within 2 s; distinct = (strategy, active checks, all closed) classes",
		Bound: "5 strategies x 1..3 backends x 1..3 rounds x active checks on/off", Exhaustive: true,
		Extra: map[string]interface{}{"wall_s": time.Since(start).Seconds()}})
}
