package main

import (
	"crypto/rand"
	"fmt"
	"net/http"
	"net/http/httptest"
	"strings"
	"testing"
	"time"

	"github.com/0xReLogic/Helios/internal/config"
	"github.com/0xReLogic/Helios/internal/logging"
	"github.com/0xReLogic/Helios/internal/zzverif/vres"
	"github.com/0xReLogic/Helios/internal/zzverif/wire"
)

// C16 request-ID / trace-ID propagation, full product over real connections.

type c16Path struct {
	name  string
	build func(be *wire.Backend, cfg *config.Config) // adjusts the config
	prime func(e *exch)                              // brings the instance into the state that produces the path
	req   func() *wire.Request
	want  int
	// script adjusts the backend's answer for this path
	script func(sc *wire.Script)
	// reachesBackend: the backend sees the final request
	reachesBackend bool
	// overwrites: the chain has a plugin that the operator configured to set the request-ID
	// header itself (on the request and on the response). What the client supplied is then
	// not what travels, by configuration; what remains of the statement is that the header is
	// there and that backend and client see the same value
	overwrites bool
}

func c16ReqIDName(cfg *config.Config) string {
	if n := strings.TrimSpace(cfg.Logging.RequestID.Header); n != "" {
		return n
	}
	return "X-Request-ID"
}

func c16Get() *wire.Request {
	return &wire.Request{Method: "GET", Target: "/id", Header: []wire.HeaderLine{{"Host", "x.test"}}, NoBody: true}
}

var c16Paths = []c16Path{
	{name: "proxied-200", want: 200, reachesBackend: true, req: c16Get},
	{name: "proxied-500", want: 500, reachesBackend: true, req: c16Get},
	{name: "refused-502", want: 502, req: c16Get, build: func(be *wire.Backend, cfg *config.Config) {
		cfg.Backends[0].Address = "http://" + wire.ClosedAddr()
	}},
	{name: "rate-limited-429", want: 429, req: c16Get, build: func(be *wire.Backend, cfg *config.Config) {
		cfg.RateLimit = config.RateLimitConfig{Enabled: true, MaxTokens: 1, RefillRate: 3600}
	}, prime: func(e *exch) { e.do(c16Get(), 10*time.Second) }},
	{name: "no-backend-503", want: 503, req: c16Get, build: func(be *wire.Backend, cfg *config.Config) {
		cfg.HealthChecks.Passive = config.PassiveHealthCheckConfig{Enabled: true, UnhealthyThreshold: 1, UnhealthyTimeout: 3600}
	}, prime: func(e *exch) { e.do(c16Get(), 10*time.Second) }}, // the backend answers 500 while priming
	{name: "breaker-503", want: 503, req: c16Get, build: func(be *wire.Backend, cfg *config.Config) {
		cfg.CircuitBreaker = config.CircuitBreakerConfig{Enabled: true, MaxRequests: 1, IntervalSeconds: 3600, TimeoutSeconds: 3600, FailureThreshold: 1, SuccessThreshold: 1}
	}, prime: func(e *exch) { e.do(c16Get(), 10*time.Second) }},
	{name: "size-limit-413", want: 413, build: func(be *wire.Backend, cfg *config.Config) {
		cfg.Plugins = config.PluginsConfig{Enabled: true, Chain: []config.PluginConfig{sizeLimitCfg(1, 1<<20)}}
	}, req: func() *wire.Request {
		return &wire.Request{Method: "POST", Target: "/id", Header: []wire.HeaderLine{{"Host", "x.test"}}, Body: []byte("xx")}
	}},
	{name: "size-limit-413-response", want: 413, reachesBackend: true, req: c16Get, build: func(be *wire.Backend, cfg *config.Config) {
		cfg.Plugins = config.PluginsConfig{Enabled: true, Chain: []config.PluginConfig{sizeLimitCfg(1<<20, 2)}}
	}, script: func(sc *wire.Script) { sc.DeclareLen = true }}, // 4 declared body bytes against a response limit of 2
	{name: "gzip-compressed-200", want: 200, reachesBackend: true, build: func(be *wire.Backend, cfg *config.Config) {
		cfg.Plugins = config.PluginsConfig{Enabled: true, Chain: []config.PluginConfig{gzipCfg(6, 16, "text/")}}
	}, req: func() *wire.Request {
		rq := c16Get()
		rq.Header = append(rq.Header, wire.HeaderLine{"Accept-Encoding", "gzip"})
		return rq
	}, script: func(sc *wire.Script) {
		sc.Header = append(sc.Header, wire.HeaderLine{"Content-Type", "text/plain"})
		sc.Parts = [][]byte{[]byte(strings.Repeat("compressible ", 40))}
		sc.DeclareLen = true
	}},
	// the backend sends an interim response (103 Early Hints) before the final one
	{name: "interim-103-then-200", want: 200, reachesBackend: true, req: c16Get, script: func(sc *wire.Script) { sc.Interim = 103 }},
	{name: "interim-103-then-500", want: 500, reachesBackend: true, req: c16Get, script: func(sc *wire.Script) { sc.Interim, sc.Status = 103, 500 }},
	{name: "upgrade-declined-200", want: 200, reachesBackend: true, req: func() *wire.Request {
		rq := c16Get()
		rq.Header = append(rq.Header, wire.HeaderLine{"Connection", "Upgrade"}, wire.HeaderLine{"Upgrade", "websocket"})
		return rq
	}},
	// another feature that sets the same header: the built-in request-id plugin (always
	// X-Request-ID) and the headers plugin told to set the configured ID header both ways
	{name: "request-id-plugin-200", want: 200, reachesBackend: true, overwrites: true, req: c16Get, build: func(be *wire.Backend, cfg *config.Config) {
		cfg.Plugins = config.PluginsConfig{Enabled: true, Chain: []config.PluginConfig{{Name: "request-id"}}}
	}},
	{name: "headers-plugin-sets-id-200", want: 200, reachesBackend: true, overwrites: true, req: c16Get, build: func(be *wire.Backend, cfg *config.Config) {
		n := c16ReqIDName(cfg)
		cfg.Plugins = config.PluginsConfig{Enabled: true, Chain: []config.PluginConfig{{Name: "logging"}, {Name: "headers", Config: map[string]interface{}{
			"set": map[string]interface{}{n: "set-by-the-headers-plugin"}, "request_set": map[string]interface{}{n: "set-by-the-headers-plugin"}}}}}
	}},
	{name: "custom-auth-401", want: 401, req: c16Get, build: func(be *wire.Backend, cfg *config.Config) {
		cfg.Plugins = config.PluginsConfig{Enabled: true, Chain: []config.PluginConfig{{Name: "custom-auth", Config: map[string]interface{}{"apiKey": "k"}}}}
	}},
}

type c16Names struct {
	label      string
	reqHeader  string // configured (\"\" = default)
	traceHdr   string
	effReq     string
	effTrace   string
	clientCase func(string) string // how the client spells the header name
}

var c16NameSets = []c16Names{
	{"default", "", "", "X-Request-ID", "X-Trace-ID", func(s string) string { return s }},
	{"custom", "X-Correlation-Token", "X-Span", "X-Correlation-Token", "X-Span", func(s string) string { return s }},
	{"custom-client-lowercase", "X-Correlation-Token", "X-Span", "X-Correlation-Token", "X-Span", strings.ToLower},
	// one name configured, the other left to its default (each way), and names padded with spaces
	{"req-custom-trace-default", "X-Correlation-Token", "", "X-Correlation-Token", "X-Trace-ID", func(s string) string { return s }},
	{"req-default-trace-custom", "", "X-Span", "X-Request-ID", "X-Span", func(s string) string { return s }},
	{"padded", " X-Correlation-Token ", " X-Span ", "X-Correlation-Token", "X-Span", func(s string) string { return s }},
	// a header field name is any token (RFC 9110 5.6.2): underscores (X_Request_ID, x-b3_traceid),
	// dots, digits and the other token punctuation are all legal names
	{"underscore", "X_Request_ID", "X-B3_TraceId", "X_Request_ID", "X-B3_TraceId", func(s string) string { return s }},
	{"punctuation", "X.Req!#$%&'*+^`|~Id", "x~span.2", "X.Req!#$%&'*+^`|~Id", "x~span.2", func(s string) string { return s }},
	{"one-letter-digits", "R", "t-1", "R", "t-1", strings.ToUpper},
}

var c16Values = []struct {
	label string
	lines []string // header lines the client sends for the request-ID header (nil = absent)
	trace []string // ... and for the trace header (nil with sameForTrace = the same lines)
	same  bool
}{
	{"absent", nil, nil, true},
	{"abc", []string{"abc"}, nil, true},
	{"long", []string{strings.Repeat("k", 200)}, nil, true},
	{"inner-space", []string{"a b"}, nil, true},
	{"non-ascii", []string{"\xc3\xa4-id"}, nil, true},
	// bytes above 0x7f that are no UTF-8 (Latin-1 text, a lone high byte): legal in a field value
	{"latin-1", []string{"commande-caf\xe9-1"}, nil, true},
	{"high-byte", []string{"id-\xff"}, []string{"\x80t"}, false},
	// characters that Unicode calls white space but HTTP does not (no-break space, ideographic
	// space, line separator) at the edges of the value: part of the ID like any other character
	{"edge-nbsp", []string{"abc\u00a0"}, []string{"\u3000trace-1"}, false},
	{"edge-line-separator", []string{"\u2028id\u0085"}, nil, true},
	{"empty", []string{""}, nil, true},
	{"two-lines", []string{"first", "second"}, nil, true},
	// letter case and characters that mean something in header syntax must survive untouched
	{"mixed-case", []string{"Order-7F3A"}, []string{"TRACE-AbC"}, false},
	{"delimiters", []string{"tenant=7,job=12;x=\"q\":/a"}, []string{"a,b"}, false},
	// only one of the two supplied, and different values for the two
	{"request-id-only", []string{"only-req"}, nil, false},
	{"trace-only", nil, []string{"only-trace"}, false},
	{"distinct", []string{"rid-1"}, []string{"tid-2"}, false},
}

func TestVerifC16(t *testing.T) {
	r := vres.Open("C16", "W")
	defer func() {
		if err := r.Close(); err != nil {
			t.Fatal(err)
		}
	}()
	shard, shards := shardOf()
	start := time.Now()
	var evals int64
	var outs vres.Outcomes
	var sample interface{}
	idx := 0
	for _, reqOn := range []bool{true, false} {
		for _, traceOn := range []bool{true, false} {
			for _, ns := range c16NameSets {
				for _, p := range c16Paths {
					idx++
					if idx%shards != shard {
						continue
					}
					be := wire.NewBackend("b0")
					cfg := baseConfig("round_robin", be.URL())
					cfg.Logging.RequestID = config.RequestIDConfig{Enabled: reqOn, Header: ns.reqHeader}
					cfg.Logging.Trace = config.TraceConfig{Enabled: traceOn, Header: ns.traceHdr}
					if p.build != nil {
						p.build(be, cfg)
					}
					h, err := startHelios(cfg)
					if err != nil {
						t.Fatalf("%s: %v", p.name, err)
					}
					e := &exch{addr: h.addr}
					if p.prime != nil {
						be.Next(&wire.Script{Status: 500, Parts: [][]byte{[]byte("fail")}})
						p.prime(e)
					}
					for _, echoMode := range []string{"silent", "echo", "foreign"} {
						echo := echoMode != "silent"
						for _, cv := range c16Values {
							if echoMode == "foreign" && !(cv.label == "absent" || cv.label == "abc" || cv.label == "distinct") {
								continue
							}
							req := p.req()
							linesOf := func(hn string) []string {
								if hn == ns.effTrace && !cv.same {
									return cv.trace
								}
								return cv.lines
							}
							for _, hn := range []string{ns.effReq, ns.effTrace} {
								for _, l := range linesOf(hn) {
									req.Header = append(req.Header, wire.HeaderLine{ns.clientCase(hn), l})
								}
							}
							st := 200
							if p.name == "proxied-500" {
								st = 500
							}
							sc := &wire.Script{Status: st, Parts: [][]byte{[]byte("body")}}
							if echoMode == "echo" {
								// the backend copies the IDs it received into its response
								sc.Echo = []string{ns.effReq, ns.effTrace}
							}
							if echoMode == "foreign" {
								// the backend answers with ID headers of its own: the client must still get, first,
								// the value the backend was given
								sc.Header = append(sc.Header, wire.HeaderLine{ns.effReq, "backend-internal-42"}, wire.HeaderLine{ns.effTrace, "backend-internal-43"})
							}
							if p.script != nil {
								p.script(sc)
							}
							be.Next(sc)
							be.TakeSeen()
							var resp wire.Response
							resp = e.do(req, 10*time.Second)
							seen := be.TakeSeen()
							evals++
							desc := fmt.Sprintf("request_id=%v trace=%v names=%s path=%s client=%s backend=%s", reqOn, traceOn, ns.label, p.name, cv.label, echoMode)
							viol := func(key, what string) {
								r.Violate("C16/"+key, desc+": "+what, len(desc), map[string]interface{}{"engine": "W", "test": "TestVerifC16", "case": desc})
							}
							if resp.Err != "" || resp.Status != p.want {
								viol("unexpected-answer/"+p.name, fmt.Sprintf("expected status %d, got %d %s", p.want, resp.Status, resp.Err))
								continue
							}
							outs.Add(fmt.Sprintf("%s/%v/%v/%s", p.name, reqOn, traceOn, cv.label))
							for _, id := range []struct {
								on   bool
								name string
								kind string
							}{{reqOn, ns.effReq, "request-id"}, {traceOn, ns.effTrace, "trace-id"}} {
								got := resp.Values(id.name)
								var backendVals []string
								if p.reachesBackend && len(seen) == 1 {
									backendVals = seen[0].Header.Values(id.name)
								}
								mine := linesOf(id.name)
								if p.overwrites && id.kind == "request-id" && (p.name != "request-id-plugin-200" || id.name == "X-Request-ID") {
									if !echo {
										if id.on && len(got) == 0 {
											viol(id.kind+"/missing-on-response/"+p.name, fmt.Sprintf("no %s header on the %d response", id.name, resp.Status))
										} else if len(got) > 0 && (len(backendVals) == 0 || backendVals[0] != got[0]) {
											viol(id.kind+"/backend-and-client-values-differ", fmt.Sprintf("backend saw %q, client got %q (a plugin sets the header on both sides)", backendVals, got))
										}
									}
									continue
								}
								supplied := ""
								if len(mine) > 0 {
									supplied = strings.Trim(mine[0], " \t")
								}
								if !id.on {
									// neither generated nor altered
									wantResp := []string(nil)
									if echoMode == "echo" && p.reachesBackend {
										wantResp = trimAll(mine)
									}
									if echoMode == "foreign" && p.reachesBackend {
										wantResp = []string{map[string]string{"request-id": "backend-internal-42", "trace-id": "backend-internal-43"}[id.kind]}
									}
									// (whether a 413 written by size_limit keeps the backend's echoed header is not
									// this property's business)
									if fmt.Sprint(got) != fmt.Sprint(wantResp) && !(echo && p.name == "size-limit-413-response") {
										viol(id.kind+"/disabled-but-altered-on-response", fmt.Sprintf("response carries %s: %q, the exchange itself produces %q", id.name, got, wantResp))
									}
									if p.reachesBackend && fmt.Sprint(backendVals) != fmt.Sprint(trimAll(mine)) {
										viol(id.kind+"/disabled-but-altered-towards-backend", fmt.Sprintf("client sent %q, backend saw %q", mine, backendVals))
									}
									continue
								}
								if len(got) == 0 {
									viol(id.kind+"/missing-on-response/"+p.name, fmt.Sprintf("no %s header on the %d response", id.name, resp.Status))
									continue
								}
								for _, g := range got {
									// (an echoing backend contributes its own header lines, which pass through untouched)
									if g != got[0] && !echo {
										viol(id.kind+"/conflicting-values-on-response", fmt.Sprintf("%q", got))
									}
								}
								if supplied != "" && got[0] != supplied {
									viol(id.kind+"/client-value-not-echoed", fmt.Sprintf("client supplied %q, response carries %q", supplied, got[0]))
								}
								if supplied == "" && (len(got[0]) < 8) {
									viol(id.kind+"/generated-id-implausible", fmt.Sprintf("generated value %q", got[0]))
								}
								if p.reachesBackend {
									if len(backendVals) == 0 {
										viol(id.kind+"/not-forwarded-to-backend", "backend received no "+id.name)
									} else if backendVals[0] != got[0] {
										viol(id.kind+"/backend-and-client-values-differ", fmt.Sprintf("backend saw %q, client got %q", backendVals[0], got[0]))
									}
								}
							}
							if sample == nil && p.name == "rate-limited-429" && cv.label == "abc" {
								sample = map[string]interface{}{"case": desc, "response_header": resp.Header}
							}
						}
					}
					e.close()
					h.stop()
					be.Close()
				}
			}
		}
	}
	r.AddScenario(vres.Scenario{Name: "id-propagation-product", Engine: "W", Evaluations: evals, Distinct: int64(outs.N()), Outcomes: outs.N(),
		Rule:  "request_id on/off x trace on/off x 9 header-name sets (default, custom, mixed, padded, underscores, token punctuation, one letter) x 13 response paths (two with a plugin that sets the ID header itself) x 16 client value shapes (incl. one header only, distinct values, mixed case, delimiter characters) x backend silent / echoing / answering with foreign IDs; distinct = distinct (path, toggles, value shape) classes that produced the expected status",
		Bound: "full product, one Helios instance per (toggles, names, path)", Exhaustive: true, Sample: sample,
		Extra: map[string]interface{}{"wall_s": time.Since(start).Seconds()}})
}

func trimAll(l []string) []string {
	var out []string
	for _, x := range l {
		out = append(out, strings.Trim(x, " \t")) // optional white space of a field value: space and tab only
	}
	return out
}

// ---- uniqueness relative to the entropy source: the middleware's generator is driven with an
// enumerating entropy source; distinct entropy blocks must give distinct IDs (injective
// encoding), and consecutive generations must consume distinct blocks.

type countingReader struct{ n uint64 }

func (c *countingReader) Read(p []byte) (int, error) {
	c.n++
	x := c.n
	for i := range p {
		p[i] = byte(x >> (8 * uint(i%8)))
		if i >= 8 {
			p[i] = byte(x>>(8*uint(i%8))) ^ 0x5a
		}
	}
	return len(p), nil
}

type flipReader struct {
	base []byte
	pos  int
	val  byte
}

func (f *flipReader) Read(p []byte) (int, error) {
	copy(p, f.base)
	if f.pos < len(p) {
		p[f.pos] = f.val
	}
	return len(p), nil
}

func TestVerifC16Unique(t *testing.T) {
	r := vres.Open("C16", "Unique")
	defer func() {
		if err := r.Close(); err != nil {
			t.Fatal(err)
		}
	}()
	shard, _ := shardOf()
	if shard != 0 {
		return
	}
	start := time.Now()
	old := rand.Reader
	defer func() { rand.Reader = old }()
	mw := logging.RequestContextMiddleware(config.LoggingConfig{RequestID: config.RequestIDConfig{Enabled: true}, Trace: config.TraceConfig{Enabled: true}})
	gen := func() (string, string) {
		rec := httptest.NewRecorder()
		mw(http.HandlerFunc(func(w http.ResponseWriter, r *http.Request) {})).ServeHTTP(rec, httptest.NewRequest("GET", "/", nil))
		return rec.Header().Get("X-Request-ID"), rec.Header().Get("X-Trace-ID")
	}
	seen := map[string]string{}
	var evals int64
	add := func(id, how string) {
		evals++
		if prev, dup := seen[id]; dup {
			r.Violate("C16/unique/collision-with-distinct-entropy", fmt.Sprintf("ID %q generated twice (%s and %s) although the entropy blocks differ", id, prev, how), 1, nil)
		}
		seen[id] = how
	}
	// (1) every single-byte variation of a base block: 12 positions x 256 values
	base := make([]byte, 16)
	for pos := 0; pos < 12; pos++ {
		for v := 0; v < 256; v++ {
			if pos > 0 && v == 0 {
				continue // equals the base block with position 0 set to 0
			}
			rand.Reader = &flipReader{base: base, pos: pos, val: byte(v)}
			a, _ := gen()
			add(a, fmt.Sprintf("block[%d]=%d", pos, v))
		}
	}
	// (2) a counting source: consecutive generations (request and trace IDs of 20 000 requests)
	cr := &countingReader{n: 1 << 40}
	rand.Reader = cr
	// 70 000 requests = 140 000 generations: more than the statement's 10^5 and more than 2^17, so
	// that an ID derived from a narrow per-process counter (16 or 17 bits) wraps inside the run
	const nreq = 70000
	for i := 0; i < nreq; i++ {
		a, b := gen()
		add(a, fmt.Sprintf("counter request %d", i))
		add(b, fmt.Sprintf("counter trace %d", i))
	}
	// (3) the same number of generations with the real entropy source (a repeat among 140 000
	// 96-bit values has probability < 1e-18: it would be a defect of the generator, not chance)
	rand.Reader = old
	for i := 0; i < nreq; i++ {
		a, b := gen()
		add(a, fmt.Sprintf("crypto/rand request %d", i))
		add(b, fmt.Sprintf("crypto/rand trace %d", i))
	}
	r.AddScenario(vres.Scenario{Name: "id-uniqueness-relative-to-entropy", Engine: "H", Evaluations: evals, Distinct: int64(len(seen)), Outcomes: len(seen),
		Rule:  "IDs generated through the real middleware with crypto/rand.Reader replaced by enumerating sources: every single-byte variation of a 12-byte block (3061 blocks) 140 000 consecutive blocks of a counter and 140 000 generations from crypto/rand; distinct = distinct IDs obtained",
		Bound: "all enumerated entropy blocks", Exhaustive: true, Sample: map[string]interface{}{"an_id": func() string { a, _ := gen(); return a }()},
		Extra: map[string]interface{}{"wall_s": time.Since(start).Seconds(), "note": "uniqueness is decided relative to the entropy source; that crypto/rand does not repeat blocks is not a property of Helios"}})
}
