package main

import (
	"bytes"
	"fmt"
	"io"
	"log"
	"net"
	"net/http"
	"strings"
	"sync"
	"testing"
	"time"

	"github.com/0xReLogic/Helios/internal/config"
	"github.com/0xReLogic/Helios/internal/plugins"
	"github.com/0xReLogic/Helios/internal/zzverif/vh"
	"github.com/0xReLogic/Helios/internal/zzverif/vres"
	"github.com/0xReLogic/Helios/internal/zzverif/vrt"
	"github.com/0xReLogic/Helios/internal/zzverif/wire"
)

// Concurrent clients on fresh connections (each exchange has its own server goroutine): every
// client must get exactly the response meant for it. In a -race build, state shared between
// concurrent exchanges (pooled wrappers, scratch buffers) is a data race. Used by C01 and C14.

// originHandler answers /<client>/<status>/<size> with that status and a body marked per client,
// after reading (and checking) the request body, which must be the client's own upload.
func originHandler(w http.ResponseWriter, req *http.Request) {
	var client, status, size int
	fmt.Sscanf(req.URL.Path, "/%d/%d/%d", &client, &status, &size)
	up, _ := io.ReadAll(req.Body)
	w.Header().Set("Content-Type", "application/octet-stream")
	w.Header().Set("X-Upload-Ok", fmt.Sprint(bytes.Equal(up, ownBody(client+100, len(up)))))
	w.Header().Set("X-Client", fmt.Sprint(client))
	if status != 200 {
		w.WriteHeader(status)
	}
	if status != 204 && status != 304 {
		w.Write(ownBody(client, size))
	}
}

func ownBody(client, size int) []byte {
	line := fmt.Sprintf("[client %03d payload]", client)
	return []byte(strings.Repeat(line, size/len(line)+1)[:size])
}

func runOwnResponse(r *vres.Report, prefix, label, addr string, sizes []int, maxUpload int) (int64, int) {
	var mu sync.Mutex
	var evals int64
	bad := 0
	statuses := []int{200, 404, 204, 201, 500, 301}
	var wg sync.WaitGroup
	for c := 0; c < 8; c++ {
		wg.Add(1)
		go func(c int) {
			defer wg.Done()
			for round := 0; round < 6; round++ {
				size := sizes[(c+round)%len(sizes)]
				status := statuses[(c*2+round)%len(statuses)]
				up := ownBody(c+100, (c*37+round*11)%(maxUpload+1))
				e := &exch{addr: addr}
				req := &wire.Request{Method: "POST", Target: fmt.Sprintf("/%d/%d/%d", c, status, size), Header: []wire.HeaderLine{{"Host", "x.test"}, {"Connection", "close"}}, Body: up, Chunked: round%2 == 1, ChunkSz: 7}
				resp := e.do(req, 30*time.Second)
				e.close()
				want := ownBody(c, size)
				if status == 204 || status == 304 {
					want = nil
				}
				mu.Lock()
				evals++
				switch {
				case resp.Err != "":
					r.Violate(prefix+"/concurrent/response-broken", fmt.Sprintf("%s client %d status %d size %d among 8 concurrent clients: %s", label, c, status, size, resp.Err), 1, nil)
					bad++
				case resp.Status != status || resp.Get("X-Client") != fmt.Sprint(c) || !bytes.Equal(resp.Body, want):
					r.Violate(prefix+"/concurrent/response-is-not-the-clients-own", fmt.Sprintf("%s client %d asked for status %d with %d body bytes among 8 concurrent clients and got status %d, X-Client %q, %d bytes (equal prefix %d)", label, c, status, size, resp.Status, resp.Get("X-Client"), len(resp.Body), commonPrefix(resp.Body, want)), 1, nil)
					bad++
				case resp.Get("X-Upload-Ok") != "true":
					r.Violate(prefix+"/concurrent/upload-is-not-the-clients-own", fmt.Sprintf("%s client %d: the origin did not receive this client's own %d-byte upload", label, c, len(up)), 1, nil)
					bad++
				}
				mu.Unlock()
			}
		}(c)
	}
	wg.Wait()
	return evals, bad
}

func TestVerifC14Conc(t *testing.T) {
	part := "Conc"
	if vrt.RaceBuild {
		part = "Conc-Race"
	}
	r := vres.Open("C14", part)
	defer func() {
		if err := r.Close(); err != nil {
			t.Fatal(err)
		}
	}()
	if s, _ := shardOf(); s != 0 {
		return
	}
	start := time.Now()
	var evals int64
	for _, pos := range []string{"alone", "outermost", "innermost"} {
		h, err := plugins.BuildChain(config.PluginsConfig{Enabled: true, Chain: c14Positions[pos](sizeLimitCfg(4096, 64*1024), true)}, http.HandlerFunc(originHandler))
		if err != nil {
			t.Fatal(err)
		}
		l, err := net.Listen("tcp", "127.0.0.1:0")
		if err != nil {
			t.Fatal(err)
		}
		srv := &http.Server{Handler: h, ErrorLog: log.New(io.Discard, "", 0)}
		go srv.Serve(l)
		n, _ := runOwnResponse(r, "C14", "size_limit "+pos, l.Addr().String(), []int{0, 1, 700, 5000, 64 * 1024}, 4096)
		evals += n
		srv.Close()
	}
	nr := vh.CollectRaces(func(key, what string) { r.Violate(key, what, 1, nil) }, "C14/concurrent")
	r.AddScenario(vres.Scenario{Name: "size-limit-concurrent-clients", Engine: "W", Evaluations: evals, Distinct: 18, Outcomes: 18,
		Rule:  "8 concurrent clients x 6 rounds x 3 chain positions, uploads and responses within the limits, marked per client, statuses 200/201/204/301/404/500, fresh connection per exchange; each client gets its own status and body and the origin its own upload; the -race build judges the run",
		Bound: "144 exchanges per build", Exhaustive: true, Sample: map[string]interface{}{"race_reports": nr},
		Extra: map[string]interface{}{"wall_s": time.Since(start).Seconds()}})
}

func TestVerifC01Conc(t *testing.T) {
	part := "Conc"
	if vrt.RaceBuild {
		part = "Conc-Race"
	}
	r := vres.Open("C01", part)
	defer func() {
		if err := r.Close(); err != nil {
			t.Fatal(err)
		}
	}()
	shard, shards := shardOf()
	start := time.Now()
	var evals int64
	for si, strategy := range []string{"round_robin", "least_connections", "weighted_round_robin", "ip_hash", "ip_hash_consistent"} {
		if si%shards != shard {
			continue
		}
		var servers []*http.Server
		var urls []string
		for b := 0; b < 2; b++ {
			l, err := net.Listen("tcp", "127.0.0.1:0")
			if err != nil {
				t.Fatal(err)
			}
			s := &http.Server{Handler: http.HandlerFunc(originHandler)}
			go s.Serve(l)
			servers = append(servers, s)
			urls = append(urls, "http://"+l.Addr().String())
		}
		cfg := baseConfig(strategy, urls...)
		cfg.Logging.RequestID = config.RequestIDConfig{Enabled: true}
		h, err := startHelios(cfg)
		if err != nil {
			t.Fatal(err)
		}
		n, _ := runOwnResponse(r, "C01", strategy, h.addr, []int{0, 1, 700, 40000, 100 * 1024}, 70000)
		evals += n
		h.stop()
		for _, s := range servers {
			s.Close()
		}
	}
	nr := vh.CollectRaces(func(key, what string) { r.Violate(key, what, 1, nil) }, "C01/concurrent")
	r.AddScenario(vres.Scenario{Name: "transparency-concurrent-clients", Engine: "W", Evaluations: evals, Distinct: 30, Outcomes: 30,
		Rule:  "8 concurrent clients x 6 rounds per strategy through the real handler chain and reverse proxy to two origins, uploads (declared and chunked) and responses marked per client; each client gets its own status and body and the origin its own upload; the -race build judges the run",
		Bound: "48 exchanges per strategy per build", Exhaustive: true, Sample: map[string]interface{}{"race_reports": nr},
		Extra: map[string]interface{}{"wall_s": time.Since(start).Seconds()}})
}
