package main

import (
	"bufio"
	"bytes"
	"fmt"
	"io"
	"net"
	"net/http"
	"strings"
	"sync"
	"testing"
	"time"

	"github.com/0xReLogic/Helios/internal/config"
	"github.com/0xReLogic/Helios/internal/zzverif/vres"
	"github.com/0xReLogic/Helios/internal/zzverif/wire"
)

// C01 (uploads and connections that last): the wire part's exchanges are over in milliseconds,
// so nothing that is armed once per connection or per so-many-milliseconds ever runs out in it.
// Here a real instance with backend_dial = backend_read = 1 s (client-facing timeouts 30 s) sees
//   - one upload that arrives steadily for longer than backend_read (pieces of 4 KiB every 100 ms,
//     or every 300 ms, for 1.6 s and 2.4 s), in both framings;
//   - a kept-alive client connection (hence one pooled backend connection) that carries short
//     exchanges every 100 ms for longer than backend_read and then a request with a body.
// Oracle: the backend receives the upload byte for byte, the client receives the backend's answer.
// No timeout of the configuration applies to any of this: every piece is written at once, and the
// backend answers at once when the request is complete.

func c01SlowUpload(addr string, chunked bool, pieces int, gap time.Duration) (status int, body string, err error) {
	c, err := net.DialTimeout("tcp", addr, 5*time.Second)
	if err != nil {
		return 0, "", err
	}
	defer c.Close()
	c.SetDeadline(time.Now().Add(30 * time.Second))
	piece := bytes.Repeat([]byte("u"), 4096)
	if chunked {
		fmt.Fprintf(c, "POST /upload HTTP/1.1\r\nHost: x.test\r\nContent-Type: application/octet-stream\r\nTransfer-Encoding: chunked\r\nConnection: close\r\n\r\n")
	} else {
		fmt.Fprintf(c, "POST /upload HTTP/1.1\r\nHost: x.test\r\nContent-Type: application/octet-stream\r\nContent-Length: %d\r\nConnection: close\r\n\r\n", pieces*len(piece))
	}
	for i := 0; i < pieces; i++ {
		piece[0] = byte('a' + i%26)
		if chunked {
			fmt.Fprintf(c, "%x\r\n", len(piece))
		}
		if _, err := c.Write(piece); err != nil {
			break // the answer (an error response, if any) is read below
		}
		if chunked {
			fmt.Fprintf(c, "\r\n")
		}
		time.Sleep(gap)
	}
	if chunked {
		fmt.Fprintf(c, "0\r\n\r\n")
	}
	resp, err := http.ReadResponse(bufio.NewReader(c), nil)
	if err != nil {
		return 0, "", err
	}
	defer resp.Body.Close()
	b, _ := io.ReadAll(resp.Body)
	return resp.StatusCode, string(b), nil
}

func TestVerifC01Slow(t *testing.T) {
	r := vres.Open("C01", "Slow")
	defer func() {
		if err := r.Close(); err != nil {
			t.Fatal(err)
		}
	}()
	start := time.Now()
	shard, shards := shardOf()
	type job struct {
		strat   string
		kind    string // upload / keep-alive
		chunked bool
		pieces  int
		gap     time.Duration
	}
	var jobs []job
	for _, strat := range []string{"round_robin", "least_connections", "ip_hash"} {
		for _, chunked := range []bool{false, true} {
			jobs = append(jobs, job{strat, "upload", chunked, 16, 100 * time.Millisecond}, job{strat, "upload", chunked, 8, 300 * time.Millisecond})
		}
		jobs = append(jobs, job{strat, "upload", true, 24, 100 * time.Millisecond}, job{strat, "keep-alive", false, 15, 100 * time.Millisecond})
		// an upload of 48 MiB (far more than the socket buffers hold) to a backend that does not
		// read for 1.5 s after the request head - longer than backend_read: the proxy may give
		// up (502), but what the backend has received is a prefix of what the client sent
		jobs = append(jobs, job{strat, "backend-pauses", strat == "ip_hash", 0, 1500 * time.Millisecond})
	}
	var mu sync.Mutex
	var evals int64
	var outs vres.Outcomes
	var wg sync.WaitGroup
	for i, j := range jobs {
		if i%shards != shard {
			continue
		}
		wg.Add(1)
		go func(j job) {
			defer wg.Done()
			be := wire.NewBackend("b0")
			defer be.Close()
			be.Next(&wire.Script{Status: 201, Header: []wire.HeaderLine{{"Content-Type", "text/plain"}}, Parts: [][]byte{[]byte("stored")}})
			cfg := baseConfig(j.strat, be.URL())
			cfg.Server.Timeouts = config.TimeoutConfig{Read: 30, Write: 30, Idle: 30, Shutdown: 1, BackendDial: 1, BackendRead: 1, BackendIdle: 30}
			h, err := startHelios(cfg)
			if err != nil {
				t.Errorf("start: %v", err)
				return
			}
			defer h.stop()
			desc := fmt.Sprintf("%s, backend_read 1 s", j.strat)
			key, what := "", ""
			switch j.kind {
			case "upload":
				framing := map[bool]string{true: "chunked", false: "Content-Length"}[j.chunked]
				desc += fmt.Sprintf(": a %s upload of %d pieces of 4 KiB, one every %v (%.1f s in all)", framing, j.pieces, j.gap, (time.Duration(j.pieces) * j.gap).Seconds())
				status, body, err := c01SlowUpload(h.addr, j.chunked, j.pieces, j.gap)
				be.WaitIdle()
				seen := be.TakeSeen()
				switch {
				case err != nil:
					key, what = "C01/slow/upload/no-answer", fmt.Sprintf("%s: the client got no answer: %v", desc, err)
				case len(seen) != 1:
					key, what = "C01/slow/upload/requests-at-the-backend", fmt.Sprintf("%s: the backend saw %d requests", desc, len(seen))
				case len(seen[0].Body) != j.pieces*4096 || seen[0].BodyErr != "":
					key, what = "C01/slow/upload/body-truncated-at-the-backend", fmt.Sprintf("%s: the backend received %d of %d bytes (%s); the client was answered %d %.40q", desc, len(seen[0].Body), j.pieces*4096, seen[0].BodyErr, status, body)
				case status != 201 || body != "stored":
					key, what = "C01/slow/upload/answer-differs", fmt.Sprintf("%s: the backend answered 201 \"stored\", the client got %d %.40q", desc, status, body)
				default:
					for p := 0; p < j.pieces; p++ {
						if seen[0].Body[p*4096] != byte('a'+p%26) || seen[0].Body[p*4096+1] != 'u' {
							key, what = "C01/slow/upload/body-differs-at-the-backend", fmt.Sprintf("%s: piece %d arrived changed", desc, p)
							break
						}
					}
				}
			case "backend-pauses":
				const total = 48 << 20
				framing := map[bool]string{true: "chunked", false: "Content-Length"}[j.chunked]
				desc += fmt.Sprintf(": a %s upload of 48 MiB to a backend that does not read for %v after the request head", framing, j.gap)
				l, err := net.Listen("tcp", "127.0.0.1:0")
				if err != nil {
					t.Errorf("listen: %v", err)
					return
				}
				defer l.Close()
				verdict := make(chan string, 1)
				go func() {
					c, err := l.Accept()
					if err != nil {
						verdict <- "accept: " + err.Error()
						return
					}
					defer c.Close()
					br := bufio.NewReaderSize(c, 4096)
					req, err := http.ReadRequest(br)
					if err != nil {
						verdict <- "request head: " + err.Error()
						return
					}
					v := c20bpSink(req.Body, total, j.gap)
					fmt.Fprintf(c, "HTTP/1.1 201 Created\r\nContent-Type: text/plain\r\nContent-Length: 6\r\nConnection: close\r\n\r\nstored")
					verdict <- v
				}()
				h.lb.RemoveBackend("b0")
				if err := h.lb.AddBackend(config.BackendConfig{Name: "pausing", Address: "http://" + l.Addr().String(), Weight: 1}); err != nil {
					t.Errorf("add: %v", err)
					return
				}
				c, err := net.DialTimeout("tcp", h.addr, 5*time.Second)
				if err != nil {
					t.Errorf("dial: %v", err)
					return
				}
				c.SetDeadline(time.Now().Add(40 * time.Second))
				if j.chunked {
					fmt.Fprintf(c, "POST /upload HTTP/1.1\r\nHost: x.test\r\nContent-Type: application/octet-stream\r\nTransfer-Encoding: chunked\r\nConnection: close\r\n\r\n")
				} else {
					fmt.Fprintf(c, "POST /upload HTTP/1.1\r\nHost: x.test\r\nContent-Type: application/octet-stream\r\nContent-Length: %d\r\nConnection: close\r\n\r\n", total)
				}
				go func() {
					buf := make([]byte, 64<<10)
					for off := int64(0); off < total; off += int64(len(buf)) {
						c20bpFill(buf, off)
						if j.chunked {
							if _, err := fmt.Fprintf(c, "%x\r\n", len(buf)); err != nil {
								return
							}
						}
						if _, err := c.Write(buf); err != nil {
							return
						}
						if j.chunked {
							fmt.Fprintf(c, "\r\n")
						}
					}
					if j.chunked {
						fmt.Fprintf(c, "0\r\n\r\n")
					}
				}()
				status := 0
				if resp, err := http.ReadResponse(bufio.NewReader(c), nil); err == nil {
					status = resp.StatusCode
					io.Copy(io.Discard, resp.Body)
					resp.Body.Close()
				}
				c.Close()
				v := ""
				select {
				case v = <-verdict:
				case <-time.After(30 * time.Second):
					v = "the backend side never finished"
				}
				// the whole upload (answered 201), or a prefix of it (the proxy gave up: SHORT ...)
				switch {
				case strings.HasPrefix(v, "WRONG"):
					key, what = "C01/slow/upload/body-differs-at-the-backend", fmt.Sprintf("%s: the client was answered %d; what the backend received is not what the client sent: %s", desc, status, v)
				case strings.HasPrefix(v, "ALL") && status != 201:
					key, what = "C01/slow/upload/answer-differs", fmt.Sprintf("%s: the backend received everything and answered 201, the client got %d", desc, status)
				case !strings.HasPrefix(v, "ALL") && !strings.HasPrefix(v, "SHORT"):
					key, what = "C01/slow/upload/no-answer", fmt.Sprintf("%s: %s (client answered %d)", desc, v, status)
				}
			case "keep-alive":
				desc += fmt.Sprintf(": %d GETs, one every %v, over one kept-alive connection, then a POST with a body", j.pieces, j.gap)
				e := &exch{addr: h.addr}
				for q := 0; q < j.pieces && key == ""; q++ {
					resp := e.do(&wire.Request{Method: "GET", Target: fmt.Sprintf("/g%d", q), Header: []wire.HeaderLine{{"Host", "x.test"}}, NoBody: true}, 10*time.Second)
					if resp.Err != "" || resp.Status != 201 {
						key, what = "C01/slow/keep-alive/answer-differs", fmt.Sprintf("%s: GET %d (%.1f s after the first) was answered %d %s", desc, q, (time.Duration(q)*j.gap).Seconds(), resp.Status, resp.Err)
					}
					time.Sleep(j.gap)
				}
				if key == "" {
					payload := strings.Repeat("p", 9000)
					resp := e.do(&wire.Request{Method: "POST", Target: "/p", Header: []wire.HeaderLine{{"Host", "x.test"}, {"Content-Type", "text/plain"}}, Body: []byte(payload)}, 10*time.Second)
					be.WaitIdle()
					seen := be.TakeSeen()
					last := wire.Seen{}
					if len(seen) > 0 {
						last = seen[len(seen)-1]
					}
					if resp.Err != "" || resp.Status != 201 || string(resp.Body) != "stored" || last.Method != "POST" || string(last.Body) != payload {
						key, what = "C01/slow/keep-alive/request-with-body-lost", fmt.Sprintf("%s: the POST was answered %d %.40q %s (the backend answers 201 \"stored\"); the backend's last request was %s with %d of %d body bytes", desc, resp.Status, resp.Body, resp.Err, last.Method, len(last.Body), len(payload))
					}
				}
				e.close()
			}
			mu.Lock()
			evals++
			outs.Add(fmt.Sprintf("%s/%v/%d/%v/%v", j.kind, j.chunked, j.pieces, j.gap, key == ""))
			if key != "" {
				r.Violate(key, what, j.pieces, map[string]interface{}{"engine": "W", "test": "TestVerifC01Slow", "strategy": j.strat, "kind": j.kind, "chunked": j.chunked, "pieces": j.pieces, "gap_ms": j.gap.Milliseconds()})
			}
			mu.Unlock()
		}(j)
	}
	wg.Wait()
	r.AddScenario(vres.Scenario{Name: "uploads-and-connections-that-outlast-backend-read", Engine: "W", Evaluations: evals, Distinct: int64(outs.N()), Outcomes: outs.N(),
		Rule:       "one evaluation = a real instance (backend_dial = backend_read = 1 s, client-facing timeouts 30 s) and either one upload arriving in 4 KiB pieces at a steady pace for longer than backend_read, or short exchanges every 100 ms over one kept-alive connection for longer than backend_read followed by a POST; the backend must receive the body byte for byte and the client the backend's answer; distinct = (kind, framing, pieces, gap, ok) classes",
		Bound:      "3 strategies x {Content-Length, chunked} x {16 pieces every 100 ms, 8 every 300 ms} + chunked 24 pieces every 100 ms + 15 GETs every 100 ms then a POST + a 48 MiB upload to a backend that does not read for 1.5 s (what it receives must be the upload or a prefix of it)",
		Exhaustive: true, Extra: map[string]interface{}{"wall_s": time.Since(start).Seconds()}})
}
