package main

import (
	"bufio"
	"fmt"
	"io"
	"net"
	"strings"
	"sync"
	"testing"
	"time"

	"github.com/0xReLogic/Helios/internal/config"
	"github.com/0xReLogic/Helios/internal/zzverif/vres"
)

// C20 (back-pressure): "relays every byte in both directions unmodified and in order until either
// side closes". A side that does not read for a while closes nothing: the other side's bytes
// wait in the socket buffers and, once those are full, in the sender. Here one side of an
// upgraded session stops reading for longer than every timeout of the configuration (all 1 s)
// while the other streams far more than the socket buffers hold (48 MiB), then reads on: it
// must receive the whole stream, byte for byte, and its own verdict must travel back through
// the same session - which is therefore still open. Both directions, with and without a plugin
// chain, pauses on both sides of the timeouts.

// c20bpByte is the stream: position-dependent, so that a repeated, missing or displaced stretch
// shows at its first byte.
func c20bpByte(i int64) byte { return byte(i*131>>3) ^ byte(i>>11) ^ byte(i>>19) }

func c20bpFill(p []byte, off int64) {
	for i := range p {
		p[i] = c20bpByte(off + int64(i))
	}
}

// c20bpSink reads total bytes from c (after pausing), compares them with the stream and returns
// a one-line verdict.
func c20bpSink(c io.Reader, total int64, pause time.Duration) string {
	time.Sleep(pause)
	buf := make([]byte, 256<<10)
	var off int64
	for off < total {
		n, err := c.Read(buf)
		for i := 0; i < n; i++ {
			if buf[i] != c20bpByte(off+int64(i)) {
				return fmt.Sprintf("WRONG first wrong byte at offset %d of %d", off+int64(i), total)
			}
		}
		off += int64(n)
		if err != nil {
			return fmt.Sprintf("SHORT %d of %d bytes, then %v", off, total, err)
		}
	}
	return fmt.Sprintf("ALL %d bytes in order", total)
}

// c20bpSource writes total bytes of the stream; it reports how long its slowest write took.
func c20bpSource(c net.Conn, total int64) (slowest time.Duration, err error) {
	buf := make([]byte, 64<<10)
	for off := int64(0); off < total; off += int64(len(buf)) {
		c20bpFill(buf, off)
		c.SetWriteDeadline(time.Now().Add(30 * time.Second))
		t0 := time.Now()
		if _, err := c.Write(buf); err != nil {
			return slowest, fmt.Errorf("after %d bytes: %v", off, err)
		}
		if d := time.Since(t0); d > slowest {
			slowest = d
		}
	}
	return slowest, nil
}

func TestVerifC20Backpressure(t *testing.T) {
	r := vres.Open("C20", "Backpressure")
	defer func() {
		if err := r.Close(); err != nil {
			t.Fatal(err)
		}
	}()
	start := time.Now()
	shard, shards := shardOf()
	const total = 48 << 20
	type job struct {
		chain     []string
		direction string // "client-to-backend": the backend pauses; "backend-to-client": the client pauses
		pause     time.Duration
	}
	var jobs []job
	for _, chain := range [][]string{{}, {"logging", "size_limit"}} {
		for _, dir := range []string{"client-to-backend", "backend-to-client"} {
			for _, p := range []time.Duration{0, 1500 * time.Millisecond, 2500 * time.Millisecond} {
				jobs = append(jobs, job{chain, dir, p})
			}
		}
	}
	var mu sync.Mutex
	var evals int64
	var outs vres.Outcomes
	blocked := 0
	for i, j := range jobs {
		if i%shards != shard {
			continue
		}
		// the backend: answers the upgrade, then plays its part
		l, err := net.Listen("tcp", "127.0.0.1:0")
		if err != nil {
			t.Fatal(err)
		}
		backendDone := make(chan string, 1)
		go func(j job) {
			c, err := l.Accept()
			if err != nil {
				backendDone <- "accept: " + err.Error()
				return
			}
			defer c.Close()
			br := bufio.NewReader(c)
			for {
				line, err := br.ReadString('\n')
				if err != nil {
					backendDone <- "reading the upgrade request: " + err.Error()
					return
				}
				if line == "\r\n" {
					break
				}
			}
			fmt.Fprintf(c, "HTTP/1.1 101 Switching Protocols\r\nUpgrade: websocket\r\nConnection: Upgrade\r\n\r\n")
			if j.direction == "client-to-backend" {
				verdict := c20bpSink(br, total, j.pause)
				fmt.Fprintf(c, "%s\n", verdict)
				backendDone <- verdict
				// wait for the client to close
				io.Copy(io.Discard, br)
				return
			}
			slowest, err := c20bpSource(c, total)
			if err != nil {
				backendDone <- "writing: " + err.Error()
				return
			}
			c.SetReadDeadline(time.Now().Add(30 * time.Second))
			verdict, _ := br.ReadString('\n')
			backendDone <- fmt.Sprintf("%s (slowest write %v)", strings.TrimSpace(verdict), slowest.Round(100*time.Millisecond))
		}(j)
		cfg := baseConfig("round_robin", "http://"+l.Addr().String())
		cfg.Server.Timeouts = config.TimeoutConfig{Read: 1, Write: 1, Idle: 1, Shutdown: 1, BackendDial: 1, BackendRead: 1, BackendIdle: 1}
		if len(j.chain) > 0 {
			cfg.Plugins.Enabled = true
			for _, n := range j.chain {
				cfg.Plugins.Chain = append(cfg.Plugins.Chain, c17Valid[n])
			}
		}
		h, err := startHelios(cfg)
		if err != nil {
			t.Fatal(err)
		}
		desc := fmt.Sprintf("chain %v, every configured timeout 1 s, %s: 48 MiB streamed while the receiving side does not read for %v", j.chain, j.direction, j.pause)
		key, what, sourceSlowest := "", "", time.Duration(0)
		func() {
			c, err := net.DialTimeout("tcp", h.addr, 5*time.Second)
			if err != nil {
				key, what = "tool", err.Error()
				return
			}
			defer c.Close()
			c.SetDeadline(time.Now().Add(60 * time.Second))
			fmt.Fprintf(c, "GET /ws HTTP/1.1\r\nHost: x.test\r\nConnection: Upgrade\r\nUpgrade: websocket\r\nSec-WebSocket-Version: 13\r\nSec-WebSocket-Key: dGhlIHNhbXBsZSBub25jZQ==\r\n\r\n")
			br := bufio.NewReader(c)
			status, err := br.ReadString('\n')
			if err != nil || !strings.Contains(status, " 101 ") {
				key, what = "C20/backpressure/handshake-failed", fmt.Sprintf("%s: the upgrade was answered %q %v", desc, strings.TrimSpace(status), err)
				return
			}
			for {
				line, err := br.ReadString('\n')
				if err != nil || line == "\r\n" {
					break
				}
			}
			verdict := ""
			if j.direction == "client-to-backend" {
				var werr error
				sourceSlowest, werr = c20bpSource(c, total)
				if werr != nil {
					key, what = "C20/backpressure/session-cut/"+j.direction, fmt.Sprintf("%s: neither side has closed, yet the client's write failed %v", desc, werr)
					return
				}
				c.SetReadDeadline(time.Now().Add(30 * time.Second))
				verdict, err = br.ReadString('\n')
				verdict = strings.TrimSpace(verdict)
				if err != nil {
					key, what = "C20/backpressure/session-cut/"+j.direction, fmt.Sprintf("%s: the client has sent everything, but the backend's reply did not come back through the session: %q %v", desc, verdict, err)
					return
				}
			} else {
				verdict = c20bpSink(br, total, j.pause)
				c.SetWriteDeadline(time.Now().Add(10 * time.Second))
				fmt.Fprintf(c, "%s\n", verdict)
			}
			switch {
			case strings.HasPrefix(verdict, "WRONG"):
				key, what = "C20/backpressure/bytes-changed/"+j.direction, fmt.Sprintf("%s: %s", desc, verdict)
			case strings.HasPrefix(verdict, "SHORT"):
				key, what = "C20/backpressure/session-cut/"+j.direction, fmt.Sprintf("%s: neither side has closed, yet the receiving side got %s", desc, verdict)
			case !strings.HasPrefix(verdict, "ALL"):
				key, what = "C20/backpressure/session-cut/"+j.direction, fmt.Sprintf("%s: unexpected verdict %q", desc, verdict)
			}
		}()
		bd := ""
		select {
		case bd = <-backendDone:
		case <-time.After(40 * time.Second):
			bd = "the backend side never finished"
		}
		if key == "" && j.direction == "backend-to-client" && !strings.HasPrefix(bd, "ALL") {
			key, what = "C20/backpressure/session-cut/"+j.direction, fmt.Sprintf("%s: the client received everything, but its reply did not reach the backend through the session: %s", desc, bd)
		}
		h.stop()
		l.Close()
		if key == "tool" {
			t.Fatalf("tool error: %s", what)
		}
		mu.Lock()
		evals++
		if sourceSlowest > time.Second || strings.Contains(bd, "slowest write") && !strings.Contains(bd, "slowest write 0s") {
			blocked++
		}
		outs.Add(fmt.Sprintf("%v/%s/%v/%v", len(j.chain), j.direction, j.pause, key == ""))
		if key != "" {
			r.Violate(key, what+" | backend side: "+bd, int(j.pause/time.Millisecond), map[string]interface{}{"engine": "W", "test": "TestVerifC20Backpressure", "chain": j.chain, "direction": j.direction, "pause_ms": j.pause.Milliseconds()})
		}
		mu.Unlock()
	}
	r.AddScenario(vres.Scenario{Name: "tunnel-under-back-pressure", Engine: "W", Evaluations: evals, Distinct: int64(outs.N()), Outcomes: outs.N(),
		Rule:       "one evaluation = one upgraded session through a real instance whose configured timeouts are all 1 s: one side streams 48 MiB of a position-dependent pattern while the other does not read for the pause, then reads everything, compares and sends its verdict back through the same session; the verdict must be 'all bytes in order' and must arrive; distinct = (chain, direction, pause, ok) classes",
		Bound:      "{no chain, logging+size_limit} x {client to backend, backend to client} x pause {0, 1.5 s, 2.5 s}",
		Exhaustive: true, Extra: map[string]interface{}{"wall_s": time.Since(start).Seconds(), "evaluations_in_which_a_write_was_held_up_for_over_100ms": blocked}})
}
