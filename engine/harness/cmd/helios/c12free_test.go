package main

import (
	"fmt"
	"io"
	"net"
	"net/http"
	"net/http/httptest"
	"strings"
	"sync"
	"testing"
	"time"

	"github.com/0xReLogic/Helios/internal/adminapi"
	"github.com/0xReLogic/Helios/internal/config"
	"github.com/0xReLogic/Helios/internal/zzverif/vh"
	"github.com/0xReLogic/Helios/internal/zzverif/vres"
	"github.com/0xReLogic/Helios/internal/zzverif/vrt"
	"github.com/0xReLogic/Helios/internal/zzverif/wire"
)

// C12 complement (stated as such in DESIGN.md): a free-running workload of 32 goroutines over
// the real listener — client traffic of every outcome, admin operations through the real admin
// handlers, metrics / health reads, probe rounds — with unmodified sources, in a normal build
// (no panic, no wedged request, the proxy still serves afterwards) and in a -race build. Its
// interleavings are whatever the Go runtime produces: it is sampling and never the deciding
// step; the deciding step is the exhaustive pair exploration of the other C12 jobs.
func TestVerifC12Free(t *testing.T) {
	part := "Free"
	if vrt.RaceBuild {
		part = "Free-Race"
	}
	r := vres.Open("C12", part)
	defer func() {
		if err := r.Close(); err != nil {
			t.Fatal(err)
		}
	}()
	shard, shards := shardOf()
	start := time.Now()
	var evals int64
	var outs vres.Outcomes
	var mu sync.Mutex
	for si, strategy := range []string{"round_robin", "least_connections", "weighted_round_robin", "ip_hash", "ip_hash_consistent"} {
		if si%shards != shard {
			continue
		}
		fbs := []*wire.FaultBackend{wire.NewFaultBackend(), wire.NewFaultBackend(), wire.NewFaultBackend()}
		cfg := baseConfig(strategy, fbs[0].URL(), fbs[1].URL(), fbs[2].URL())
		cfg.Server.Timeouts = config.TimeoutConfig{Read: 2, Write: 2, Idle: 2, BackendDial: 1, BackendRead: 1}
		cfg.CircuitBreaker = config.CircuitBreakerConfig{Enabled: true, MaxRequests: 2, IntervalSeconds: 1, TimeoutSeconds: 1, FailureThreshold: 20, SuccessThreshold: 1}
		cfg.RateLimit = config.RateLimitConfig{Enabled: true, MaxTokens: 50, RefillRate: 1}
		cfg.HealthChecks.Passive = config.PassiveHealthCheckConfig{Enabled: true, UnhealthyThreshold: 3, UnhealthyTimeout: 1}
		cfg.HealthChecks.Active = config.ActiveHealthCheckConfig{Enabled: true, Interval: 2, Timeout: 1, Path: wire.ProbePath}
		cfg.LoadBalancer.WebSocketPool = config.WebSocketPoolConfig{Enabled: true, MaxIdle: 2, MaxActive: 4, IdleTimeoutSeconds: 1}
		cfg.Plugins = config.PluginsConfig{Enabled: true, Chain: []config.PluginConfig{{Name: "logging"}, sizeLimitCfg(1<<20, 16<<20), gzipCfg(5, 64, "text/")}}
		cfg.Logging.RequestID = config.RequestIDConfig{Enabled: true}
		cfg.Logging.Trace = config.TraceConfig{Enabled: true}
		h, err := startHelios(cfg)
		if err != nil {
			t.Fatal(err)
		}
		admin := adminapi.NewMux(h.lb, cfg, h.lb.GetMetricsCollector())
		stop := time.Now().Add(1500 * time.Millisecond)
		var wg sync.WaitGroup
		modes := []string{"healthy", "healthy", "500", "reset", "healthy", "short"}
		for g := 0; g < 32; g++ {
			wg.Add(1)
			go func(g int) {
				defer wg.Done()
				e := &exch{addr: h.addr}
				defer e.close()
				for i := 0; time.Now().Before(stop); i++ {
					switch {
					case g < 20: // client traffic
						resp := e.do(&wire.Request{Method: "GET", Target: "/w", Header: []wire.HeaderLine{{"Host", "x.test"}, {"X-Forwarded-For", fmt.Sprintf("10.4.%d.%d", g, i%7)}, {"Accept-Encoding", "gzip"}}, NoBody: true}, 15*time.Second)
						mu.Lock()
						evals++
						if resp.Err != "" {
							outs.Add("closed")
						} else {
							outs.Add(fmt.Sprint(resp.Status))
						}
						mu.Unlock()
					case g < 22: // the backends change behaviour
						fbs[i%3].SetMode(modes[i%len(modes)])
						time.Sleep(20 * time.Millisecond)
					case g < 26: // admin operations through the real handlers
						var req *http.Request
						switch i % 4 {
						case 0:
							req = httptest.NewRequest("POST", "/v1/backends/add", strings.NewReader(fmt.Sprintf(`{"name":"x%d","address":%q,"weight":2}`, g, fbs[0].URL())))
						case 1:
							req = httptest.NewRequest("POST", "/v1/backends/remove", strings.NewReader(fmt.Sprintf(`{"name":"x%d"}`, g)))
						case 2:
							req = httptest.NewRequest("POST", "/v1/strategy", strings.NewReader(fmt.Sprintf(`{"strategy":%q}`, []string{"round_robin", "least_connections", "weighted_round_robin", "ip_hash", "ip_hash_consistent"}[(g+i)%5])))
						default:
							req = httptest.NewRequest("GET", "/v1/backends", nil)
						}
						req.RemoteAddr = "127.0.0.1:9"
						admin.ServeHTTP(httptest.NewRecorder(), req)
						time.Sleep(5 * time.Millisecond)
					default: // metrics and health reads
						for _, p := range []string{"/v1/metrics", "/v1/health"} {
							req := httptest.NewRequest("GET", p, nil)
							req.RemoteAddr = "127.0.0.1:9"
							admin.ServeHTTP(httptest.NewRecorder(), req)
						}
						h.lb.GetMetricsCollector().HealthHandler()(httptest.NewRecorder(), httptest.NewRequest("GET", "/health", nil))
						time.Sleep(3 * time.Millisecond)
					}
				}
			}(g)
		}
		done := make(chan struct{})
		go func() { wg.Wait(); close(done) }()
		select {
		case <-done:
		case <-time.After(40 * time.Second):
			r.Violate("C12/free/workload-wedged", strategy+": the free-running workload did not finish within 40s of its 1.5s horizon (deadlock or wedged request)", 1, nil)
		}
		for _, fb := range fbs {
			fb.SetMode("healthy")
		}
		_ = h.lb.SetStrategy(strategy)
		lost := false
		for _, fb := range fbs {
			if fb.Lost {
				lost = true // a port released for the refuse behaviour was taken by another process
			}
		}
		// "serves again" is an eventually-property: probes still in flight when the faults stopped
		// may eject a backend up to a probe timeout later, and breaker / window timeouts follow.
		// Rounds of five requests are repeated for up to 30 s (all configured timeouts are <= 2 s).
		ok := 0
		e := &exch{addr: h.addr}
		for round := 0; round < 30 && ok < 3 && !lost; round++ {
			time.Sleep(time.Second)
			ok = 0
			for i := 0; i < 5; i++ {
				if resp := e.do(&wire.Request{Method: "GET", Target: "/after", Header: []wire.HeaderLine{{"Host", "x.test"}, {"X-Forwarded-For", fmt.Sprintf("10.5.%d.%d", round, i)}}, NoBody: true}, 15*time.Second); resp.Err == "" && resp.Status == 200 {
					ok++
				}
			}
		}
		e.close()
		if ok < 3 && !lost {
			r.Violate("C12/free/not-serving-after-workload", fmt.Sprintf("%s: for 30 s after the workload at most %d of 5 requests to healthy backends succeeded", strategy, ok), 1, nil)
		}
		h.stop()
		for _, fb := range fbs {
			fb.Close()
		}
	}
	// a second, small workload: size_limit as the only plugin (so that it wraps the connection's
	// own response writer), uploads without declared length that cross the limit after a pause,
	// and a backend that answers before it has read the body: the transport's goroutine is then
	// still reading the upload while the answer is on its way out
	if shard == 0 {
		fb := wire.NewFaultBackend()
		fb.SetMode("eager")
		cfg := baseConfig("round_robin", fb.URL())
		cfg.Plugins = config.PluginsConfig{Enabled: true, Chain: []config.PluginConfig{sizeLimitCfg(8192, 1<<20)}}
		h, err := startHelios(cfg)
		if err != nil {
			t.Fatal(err)
		}
		var wg sync.WaitGroup
		for g := 0; g < 6; g++ {
			wg.Add(1)
			go func(g int) {
				defer wg.Done()
				for i := 0; i < 3; i++ {
					c, err := net.DialTimeout("tcp", h.addr, 5*time.Second)
					if err != nil {
						return
					}
					c.SetDeadline(time.Now().Add(10 * time.Second))
					fmt.Fprintf(c, "POST /up HTTP/1.1\r\nHost: x.test\r\nTransfer-Encoding: chunked\r\n\r\n1388\r\n%s\r\n", strings.Repeat("u", 5000))
					time.Sleep(time.Duration(150+20*g) * time.Millisecond)
					fmt.Fprintf(c, "1388\r\n%s\r\n0\r\n\r\n", strings.Repeat("v", 5000))
					io.Copy(io.Discard, c)
					c.Close()
					mu.Lock()
					evals++
					mu.Unlock()
				}
			}(g)
		}
		wg.Wait()
		h.stop()
		fb.Close()
	}
	nr := vh.CollectRaces(func(key, what string) { r.Violate(key, what, 1, nil) }, "C12/free")
	r.AddScenario(vres.Scenario{Name: "free-running-workload", Engine: "W", Evaluations: evals, Distinct: int64(outs.N()) + 1, Outcomes: outs.N(),
		Rule:  "32 goroutines for 1.5 s per strategy over the real listener (20 clients, 2 fault switchers, 4 admin actors, 6 metrics/health readers) with every feature enabled, plus 18 slow oversized uploads through size_limit alone to a backend that answers early; sampling complement, never the deciding step",
		Bound: "5 strategies", Exhaustive: false, Capped: "free-running: interleavings are those the Go runtime produced", Sample: map[string]interface{}{"race_reports": nr, "client_outcomes": outs.Map()},
		Extra: map[string]interface{}{"wall_s": time.Since(start).Seconds()}})
}
