package main

import (
	"bytes"
	"fmt"
	"reflect"
	"strings"
	"testing"
	"time"

	"github.com/0xReLogic/Helios/internal/config"
	"github.com/0xReLogic/Helios/internal/zzverif/vres"
	"github.com/0xReLogic/Helios/internal/zzverif/wire"
)

// C01 end-to-end transparency: every exchange shape of the alphabet is made twice with
// the same raw client — directly to the scripted backend and through Helios — and the
// two views (what the backend received, what the client received) must agree up to
// hop-by-hop headers and the documented additions.

type c01Shape struct {
	Method    string
	Target    string
	ReqHdr    []wire.HeaderLine
	ReqSize   int // -1 = no body at all
	ReqChunk  bool
	Status    int
	Interim   int
	RespHdr   []wire.HeaderLine
	RespSize  int
	RespFrame string // length, chunked, flush
	Trailer   []wire.HeaderLine
	FixedDate bool // the backend sets a (backdated) Date header itself
	NoCType   bool // the backend sends no Content-Type header at all
}

func (s c01Shape) String() string {
	return fmt.Sprintf("%s %s req=%d/chunked=%v hdr=%d -> %d(+%d) resp=%d/%s hdr=%d"+map[bool]string{true: " no-content-type"}[s.NoCType], s.Method, s.Target, s.ReqSize, s.ReqChunk, len(s.ReqHdr), s.Status, s.Interim, s.RespSize, s.RespFrame, len(s.RespHdr))
}

func (s c01Shape) request(host string) *wire.Request {
	r := &wire.Request{Method: s.Method, Target: s.Target, Chunked: s.ReqChunk, ChunkSz: 20000}
	r.Header = append(r.Header, wire.HeaderLine{"Host", host})
	r.Header = append(r.Header, s.ReqHdr...)
	if s.ReqSize < 0 {
		r.NoBody = true
	} else {
		r.Body = pattern(s.ReqSize, 3)
	}
	return r
}

func (s c01Shape) script() *wire.Script {
	sc := &wire.Script{Status: s.Status, Interim: s.Interim, Header: append([]wire.HeaderLine{{"Content-Type", "application/octet-stream"}}, s.RespHdr...)}
	if s.NoCType {
		sc.Header, sc.NoContentType = append([]wire.HeaderLine(nil), s.RespHdr...), true
	}
	if s.FixedDate {
		sc.Header = append(sc.Header, wire.HeaderLine{"Date", "Tue, 15 Nov 1994 08:12:31 GMT"})
	}
	body := pattern(s.RespSize, 11)
	sc.Trailer = s.Trailer
	switch s.RespFrame {
	case "length":
		sc.DeclareLen = true
		sc.Parts = [][]byte{body}
	case "chunked":
		// no declared length and more than one write: the server frames it chunked (a flush in between forces it)
		if len(body) > 1 {
			sc.Parts = [][]byte{body[:len(body)/2], body[len(body)/2:]}
		} else {
			sc.Parts = [][]byte{body}
		}
		sc.FlushFirst = true
	case "flush":
		for off := 0; off < len(body) || off == 0; off += 30000 {
			end := off + 30000
			if end > len(body) {
				end = len(body)
			}
			sc.Parts = append(sc.Parts, body[off:end])
			if len(body) == 0 {
				break
			}
		}
		sc.FlushEach = true
	}
	return sc
}

type c01Inst struct {
	name     string
	h        *helios
	be       *wire.Backend
	direct   *exch
	via      *exch
	basePath string
	idHdrs   []string // ID headers Helios is configured to add (lower case)
}

func newC01Inst(name, strategy, basePath string, reqID, trace bool) (*c01Inst, error) {
	be := wire.NewBackend("b0")
	cfg := baseConfig(strategy, be.URL()+basePath)
	cfg.Logging.RequestID = config.RequestIDConfig{Enabled: reqID}
	cfg.Logging.Trace = config.TraceConfig{Enabled: trace}
	switch name {
	case "features":
		// every non-transforming feature switched on with limits the exchanges never reach: the
		// request then takes the breaker / limiter / failure-counting code paths, and must still
		// be relayed untouched
		cfg.CircuitBreaker = config.CircuitBreakerConfig{Enabled: true, MaxRequests: 1, IntervalSeconds: 60, TimeoutSeconds: 60, FailureThreshold: 1000000, SuccessThreshold: 1}
		cfg.RateLimit = config.RateLimitConfig{Enabled: true, MaxTokens: 1000000, RefillRate: 1}
		cfg.HealthChecks.Passive = config.PassiveHealthCheckConfig{Enabled: true, UnhealthyThreshold: 1000000, UnhealthyTimeout: 1}
	case "timeouts":
		// every timeout configured, generously: the exchange never reaches one, so nothing may change
		cfg.Server.Timeouts = config.TimeoutConfig{Read: 30, Write: 30, Idle: 30, Handler: 30, Shutdown: 5, BackendDial: 5, BackendRead: 30, BackendIdle: 30}
	case "active", "active:/base":
		// active health checks in the background (every backend has been probed at least once
		// before the first exchange): probing is about health, routing is untouched by it
		cfg.HealthChecks.Active = config.ActiveHealthCheckConfig{Enabled: true, Interval: 3600, Timeout: 5, Path: wire.ProbePath}
	case "plugins":
		// plugins that do not transform: logging, and size_limit with limits far above every shape
		cfg.Plugins = config.PluginsConfig{Enabled: true, Chain: []config.PluginConfig{{Name: "logging"}, sizeLimitCfg(1<<30, 1<<30)}}
	}
	h, err := startHelios(cfg)
	if err != nil {
		return nil, err
	}
	if strings.HasPrefix(name, "active") {
		for i := 0; i < 500 && be.ProbeCount() == 0; i++ {
			time.Sleep(10 * time.Millisecond)
		}
		if be.ProbeCount() == 0 {
			return nil, fmt.Errorf("the backend was not probed within 5 s")
		}
	}
	if strings.HasPrefix(name, "rebase:") {
		// the backend's registration has a history: it was first registered (and served a request)
		// under another base path on the same host and port, then taken out and registered again,
		// under the same or under a new name (Admin API). What counts is the registration in force
		was, now := "/v1", strings.TrimPrefix(name, "rebase:")
		h.lb.RemoveBackend("b0")
		if err := h.lb.AddBackend(config.BackendConfig{Name: "b0", Address: be.URL() + was, Weight: 1}); err != nil {
			return nil, err
		}
		e := &exch{addr: h.addr}
		e.do(&wire.Request{Method: "GET", Target: "/warm-up", Header: []wire.HeaderLine{{"Host", "origin.test"}}, NoBody: true}, 10*time.Second)
		e.close()
		be.TakeSeen()
		h.lb.RemoveBackend("b0")
		newName := "b0"
		if strings.HasSuffix(now, "+renamed") {
			now, newName = strings.TrimSuffix(now, "+renamed"), "b0-new"
		}
		if err := h.lb.AddBackend(config.BackendConfig{Name: newName, Address: be.URL() + now, Weight: 1}); err != nil {
			return nil, err
		}
		basePath = now
	}
	in := &c01Inst{name: name, h: h, be: be, direct: &exch{addr: be.Addr()}, via: &exch{addr: h.addr}, basePath: basePath}
	if reqID {
		in.idHdrs = append(in.idHdrs, "x-request-id")
	}
	if trace {
		in.idHdrs = append(in.idHdrs, "x-trace-id")
	}
	return in, nil
}

func (in *c01Inst) close() {
	in.direct.close()
	in.via.close()
	in.h.stop()
	in.be.Close()
}

func joinBase(base, target string) string {
	if base == "" {
		return target
	}
	path, q := target, ""
	if i := strings.Index(target, "?"); i >= 0 {
		path, q = target[:i], target[i:]
	}
	return strings.TrimRight(base, "/") + "/" + strings.TrimLeft(path, "/") + q
}

type c01Diff struct{ key, what string }

// compare runs the shape both ways and returns every difference (witness key suffix, description).
func (in *c01Inst) compare(s c01Shape) (out []c01Diff) {
	add := func(k, w string) { out = append(out, c01Diff{k, w}) }
	const dl = 20 * time.Second
	// direct: the target the backend should see includes the base path
	ds := s
	ds.Target = joinBase(in.basePath, s.Target)
	in.be.Next(s.script())
	dr := in.direct.do(ds.request("origin.test"), dl)
	dseen := in.be.TakeSeen()
	in.be.Next(s.script())
	vr := in.via.do(s.request("origin.test"), dl)
	vseen := in.be.TakeSeen()
	in.be.Next(nil)
	if dr.Err != "" {
		add("direct-exchange-failed", "the direct exchange itself failed: "+dr.Err)
		return out
	}
	if len(dseen) != 1 {
		add("direct-exchange-failed", fmt.Sprintf("backend saw %d requests directly", len(dseen)))
		return out
	}
	if vr.Err != "" {
		add("response-broken", "through Helios the response could not be read: "+vr.Err)
		return out
	}
	if len(vseen) != 1 {
		add("backend-request-count", fmt.Sprintf("backend received %d requests for one client request", len(vseen)))
		return out
	}
	d, v := dseen[0], vseen[0]
	// ---- what the backend received
	if d.Method != v.Method {
		add("request/method", fmt.Sprintf("backend saw method %s, client sent %s", v.Method, d.Method))
	}
	if d.RequestURI != v.RequestURI {
		add("request/target", fmt.Sprintf("backend saw request-target %q, expected %q", v.RequestURI, d.RequestURI))
	}
	if d.Host != v.Host {
		add("request/host", fmt.Sprintf("backend saw Host %q, the client sent %q", v.Host, d.Host))
	}
	// ID headers the client supplied itself are end-to-end headers like any other
	for _, id := range in.idHdrs {
		if dv := d.Header.Values(id); len(dv) > 0 && fmt.Sprint(dv) != fmt.Sprint(v.Header.Values(id)) {
			add("request/client-supplied-id-altered", fmt.Sprintf("%s: client sent %q, backend saw %q", id, dv, v.Header.Values(id)))
		}
	}
	if !bytes.Equal(d.Body, v.Body) {
		add("request/body", fmt.Sprintf("backend received %d body bytes, client sent %d (equal prefix %d)", len(v.Body), len(d.Body), commonPrefix(d.Body, v.Body)))
	}
	ign := append([]string{"x-forwarded-for", "content-length"}, in.idHdrs...)
	dh, vh := wire.EndToEnd(d.HeaderLines(), ign...), wire.EndToEnd(v.HeaderLines(), ign...)
	if !reflect.DeepEqual(dh, vh) {
		added, del := diff(dh, vh)
		key := "request/headers"
		if len(added) == 1 && len(del) == 0 && strings.HasPrefix(added[0], "accept-encoding:") {
			key = "request/accept-encoding-added"
		}
		add(key, fmt.Sprintf("backend header set differs: added %v, missing %v", added, del))
	}
	wantXFF := "127.0.0.1"
	for _, h := range s.ReqHdr {
		if strings.EqualFold(h.Name, "X-Forwarded-For") {
			wantXFF = h.Value + ", 127.0.0.1"
		}
	}
	if got := strings.Join(v.Header.Values("X-Forwarded-For"), ", "); got != wantXFF {
		add("request/x-forwarded-for", fmt.Sprintf("backend saw X-Forwarded-For %q, expected %q", got, wantXFF))
	}
	if (d.ContentLen >= 0) != (v.ContentLen >= 0) || (d.ContentLen >= 0 && d.ContentLen != v.ContentLen) {
		if !(d.ContentLen <= 0 && v.ContentLen <= 0) {
			add("request/framing", fmt.Sprintf("backend saw Content-Length %d / %v, client framed it %d / %v", v.ContentLen, v.TransferEn, d.ContentLen, d.TransferEn))
		}
	}
	for _, id := range in.idHdrs {
		if v.Header.Get(id) == "" {
			add("request/id-header-missing", "backend did not receive "+id)
		}
	}
	// ---- what the client received
	if len(dr.Interim) != len(vr.Interim) {
		add("response/interim", fmt.Sprintf("client received %d interim responses, backend sent %d", len(vr.Interim), len(dr.Interim)))
	}
	// (the documented ID headers may ride on an interim response as they do on the final one)
	iign := append([]string{"date"}, in.idHdrs...)
	for i := range dr.Interim {
		if dr.Interim[i].Status != vr.Interim[i].Status || !reflect.DeepEqual(wire.EndToEnd(dr.Interim[i].Header, iign...), wire.EndToEnd(vr.Interim[i].Header, iign...)) {
			add("response/interim", fmt.Sprintf("interim response differs: %+v vs %+v", vr.Interim[i], dr.Interim[i]))
		}
	}
	if dr.Status != vr.Status {
		add("response/status", fmt.Sprintf("client received status %d, backend sent %d", vr.Status, dr.Status))
	}
	if !bytes.Equal(dr.Body, vr.Body) {
		add("response/body", fmt.Sprintf("client received %d body bytes, backend sent %d (equal prefix %d)", len(vr.Body), len(dr.Body), commonPrefix(dr.Body, vr.Body)))
	}
	rign := append([]string{"date", "content-length"}, in.idHdrs...)
	if s.FixedDate {
		// the backend stamped its answer itself (backdated): Date is an end-to-end header
		rign = rign[1:]
	}
	drh, vrh := wire.EndToEnd(dr.Header, rign...), wire.EndToEnd(vr.Header, rign...)
	if !reflect.DeepEqual(drh, vrh) {
		added, del := diff(drh, vrh)
		add("response/headers", fmt.Sprintf("client header set differs: added %v, missing %v", added, del))
	}
	if fmt.Sprint(wire.EndToEnd(dr.Trailer)) != fmt.Sprint(wire.EndToEnd(vr.Trailer)) {
		add("response/trailers", fmt.Sprintf("client received trailers %v, backend sent %v", vr.Trailer, dr.Trailer))
	}
	if dr.Framing != vr.Framing || dr.Get("Content-Length") != vr.Get("Content-Length") {
		add("response/framing", fmt.Sprintf("client received framing %s (Content-Length %q), backend sent %s (Content-Length %q)", vr.Framing, vr.Get("Content-Length"), dr.Framing, dr.Get("Content-Length")))
	}
	for _, id := range in.idHdrs {
		if vr.Get(id) == "" {
			add("response/id-header-missing", "client did not receive "+id)
		}
		if vr.Get(id) != v.Header.Get(id) {
			add("response/id-header-differs", fmt.Sprintf("%s: backend saw %q, client got %q", id, v.Header.Get(id), vr.Get(id)))
		}
	}
	return out
}

func commonPrefix(a, b []byte) int {
	n := 0
	for n < len(a) && n < len(b) && a[n] == b[n] {
		n++
	}
	return n
}

func diff(want, got []string) (added, missing []string) {
	w := map[string]int{}
	for _, x := range want {
		w[x]++
	}
	for _, x := range got {
		if w[x] > 0 {
			w[x]--
		} else {
			added = append(added, x)
		}
	}
	for x, n := range w {
		for ; n > 0; n-- {
			missing = append(missing, x)
		}
	}
	return
}

func c01Core(th bool) []c01Shape {
	const K = 32 * 1024
	methods := []string{"GET", "HEAD", "POST", "OPTIONS"}
	reqSizes := []int{-1, 1, K + 1}
	// codes above 1000: the final status (code-1000... see below) preceded by an interim 103
	statuses := []int{200, 204, 304, 404, 500, 1200, 1201, 1404, 1204}
	respSizes := []int{0, 1, K + 1}
	if th {
		methods = []string{"GET", "HEAD", "POST", "PUT", "PATCH", "DELETE", "OPTIONS"}
		reqSizes = []int{-1, 0, 1, K - 1, K, K + 1, 3*K + 7}
		statuses = []int{200, 201, 204, 206, 301, 304, 404, 418, 500, 503, 1200, 1201, 1204, 1301, 1404, 1500}
		respSizes = []int{0, 1, K - 1, K, K + 1, 3*K + 7}
	}
	var out []c01Shape
	for _, m := range methods {
		for _, rs := range reqSizes {
			if rs > 1 && (m == "GET" || m == "HEAD" || m == "OPTIONS" || m == "DELETE") {
				continue
			}
			for _, rc := range []bool{false, true} {
				if rs < 0 && rc {
					continue
				}
				for _, st := range statuses {
					for _, ps := range respSizes {
						if (st%1000 == 204 || st%1000 == 304) && ps != 0 {
							continue
						}
						for _, fr := range []string{"length", "chunked", "flush"} {
							if (st%1000 == 204 || st%1000 == 304) && fr != "length" {
								continue
							}
							if ps == 0 && fr == "flush" {
								continue
							}
							s := c01Shape{Method: m, Target: "/r", ReqSize: rs, ReqChunk: rc, Status: st, RespSize: ps, RespFrame: fr}
							if st > 1000 {
								s.Status, s.Interim = st-1000, 103
							}
							if s.Status == 301 {
								s.RespHdr = []wire.HeaderLine{{"Location", "http://elsewhere.test/x?y=1"}}
							}
							out = append(out, s)
						}
					}
				}
			}
		}
	}
	return out
}

// the 12-shape core set each remaining dimension is crossed with
func c01Twelve() []c01Shape {
	var out []c01Shape
	for _, m := range []string{"GET", "POST", "HEAD"} {
		for _, st := range []int{200, 404} {
			for _, fr := range []string{"length", "chunked"} {
				rs := -1
				if m == "POST" {
					rs = 100
				}
				out = append(out, c01Shape{Method: m, Target: "/r", ReqSize: rs, Status: st, RespSize: 300, RespFrame: fr})
			}
		}
	}
	return out
}

var c01Paths = []string{"/", "/a/b", "/a%2Fb", "/a%20b/", "//x", "/%C3%A9", "/hello!/it's(me)", "/a;p=1/b", "/a+b/~u", "/a/./b/../c", "/a%2fb%3Fc", "/*"}
var c01Queries = []string{"", "?a=1&a=2", "?q=%26%3D", "?x=+y", "?", "?flag", "?a=b;c=d", "?u=http://x/y?z=1"}

var c01HeaderSets = [][]wire.HeaderLine{
	{{"X-Multi", "one"}, {"X-Multi", "two"}, {"X-Multi", "three"}},
	{{"X-Empty", ""}},
	{{"x-MiXeD-cAsE", "v"}},
	{{"X-Long", strings.Repeat("v", 7*1024)}},
	{{"Cookie", "a=1; b=2"}, {"Cookie", "c=3"}},
	{{"X-Forwarded-For", "203.0.113.7"}},
	{{"X-Forwarded-For", "203.0.113.7, 198.51.100.2"}},
	{{"Accept-Encoding", "gzip"}},
	{{"Accept-Encoding", "identity"}},
	{{"Accept", "*/*"}, {"User-Agent", "verif/1.0"}, {"Authorization", "Basic Zm9vOmJhcg=="}},
	{{"Accept-Encoding", "br"}, {"If-None-Match", "\"abc\""}},
	{{"Expect", "100-continue"}},
	// header lines are a list, not a set: repeated values, non-adjacent repeats, values that
	// differ in case only, a list-valued line next to a single-valued one
	{{"X-Item", "1"}, {"X-Item", "1"}},
	{{"X-Seq", "a"}, {"X-Seq", "b"}, {"X-Seq", "a"}},
	{{"X-Case", "Abc"}, {"X-Case", "abc"}},
	{{"X-List", "a, b"}, {"X-List", "a"}},
	{{"Cookie", "a=1"}, {"Cookie", "a=1"}},
	{{"Via", "1.1 edge"}, {"Via", "1.1 edge"}, {"Forwarded", "for=203.0.113.7"}},
}

var c01RespHeaderSets = [][]wire.HeaderLine{
	{{"Set-Cookie", "a=1; Path=/"}, {"Set-Cookie", "b=2; HttpOnly"}},
	{{"X-Multi", "one"}, {"X-Multi", "two"}},
	{{"X-Empty", ""}},
	{{"Cache-Control", "no-store"}, {"ETag", "\"v1\""}, {"Vary", "Accept-Encoding"}},
	{{"X-Long", strings.Repeat("r", 7*1024)}},
	{{"Server", "origin/1"}, {"X-Request-ID", "from-backend"}},
	// header lines are a list, not a set (see the request side)
	{{"X-Item", "1"}, {"X-Item", "1"}},
	{{"X-Seq", "a"}, {"X-Seq", "b"}, {"X-Seq", "a"}},
	{{"Warning", "199 - \"stale\""}, {"Warning", "199 - \"stale\""}},
	{{"Set-Cookie", "a=1"}, {"Set-Cookie", "a=1"}},
	{{"X-Case", "Abc"}, {"X-Case", "abc"}},
	{{"X-List", "a, b"}, {"X-List", "a"}},
	{{"Vary", "Accept"}, {"Vary", "Accept-Encoding"}, {"Link", "</a>; rel=preload"}, {"Link", "</a>; rel=preload"}},
	{{"Via", "1.1 origin-cache"}, {"Via", "1.1 origin-cache"}, {"Age", "0"}},
}

func TestVerifC01(t *testing.T) {
	r := vres.Open("C01", "W")
	defer func() {
		if err := r.Close(); err != nil {
			t.Fatal(err)
		}
	}()
	th := vres.Thorough()
	shard, shards := shardOf()
	type job struct {
		inst  string
		shape c01Shape
	}
	var jobs []job
	for _, s := range c01Core(th) {
		jobs = append(jobs, job{"round_robin", s})
	}
	for _, s := range c01Core(th) {
		jobs = append(jobs, job{"features", s})
	}
	// every registered status code once (net/http and httputil special-case several of them), every
	// method incl. TRACE and an extension method with a small body, large heads and bodies, a
	// backdated Date
	for _, st := range []int{201, 202, 203, 205, 206, 207, 226, 300, 301, 302, 303, 307, 308, 400, 401, 402, 403, 405, 406, 408, 409, 410, 411, 412, 413, 414, 415, 416, 417, 418, 421, 422, 425, 426, 428, 429, 431, 451, 500, 501, 502, 503, 504, 505, 507, 511, 599} {
		x := c01Shape{Method: "GET", Target: "/r", ReqSize: -1, Status: st, RespSize: 40, RespFrame: "length", RespHdr: []wire.HeaderLine{{"Retry-After", "7"}, {"Location", "/elsewhere"}, {"WWW-Authenticate", "Basic realm=\"x\""}}}
		jobs = append(jobs, job{"round_robin", x})
		if st >= 500 || st == 429 {
			jobs = append(jobs, job{"features", x})
		}
	}
	for _, m := range []string{"PUT", "PATCH", "DELETE", "TRACE", "PROPFIND", "PURGE", "GET"} {
		for _, chunked := range []bool{false, true} {
			jobs = append(jobs, job{"round_robin", c01Shape{Method: m, Target: "/r", ReqSize: 13, ReqChunk: chunked, Status: 200, RespSize: 5, RespFrame: "length"}})
		}
	}
	manyCookies := []wire.HeaderLine{}
	for i := 0; i < 40; i++ {
		manyCookies = append(manyCookies, wire.HeaderLine{"Set-Cookie", fmt.Sprintf("c%d=%s; Path=/", i, strings.Repeat("v", 900))})
	}
	for _, big := range [][]wire.HeaderLine{{{"X-Big", strings.Repeat("b", 20*1024)}}, {{"X-Big", strings.Repeat("b", 70*1024)}}, manyCookies} {
		jobs = append(jobs, job{"round_robin", c01Shape{Method: "GET", Target: "/r", ReqSize: -1, Status: 200, RespSize: 2, RespFrame: "length", RespHdr: big}})
	}
	jobs = append(jobs, job{"round_robin", c01Shape{Method: "POST", Target: "/r", ReqSize: 100, ReqHdr: []wire.HeaderLine{{"X-Big", strings.Repeat("q", 60*1024)}}, Status: 200, RespSize: 2, RespFrame: "length"}})
	for _, sz := range []int{1 << 20, 5<<20 + 3} {
		jobs = append(jobs, job{"round_robin", c01Shape{Method: "POST", Target: "/r", ReqSize: sz, Status: 200, RespSize: sz, RespFrame: "chunked"}},
			job{"plugins", c01Shape{Method: "POST", Target: "/r", ReqSize: sz, ReqChunk: true, Status: 200, RespSize: sz, RespFrame: "length"}})
	}
	// the set every remaining dimension is crossed with: twelve shapes; in the thorough tier the
	// whole quick core product (methods x request sizes x framings x statuses incl. interim
	// responses x response sizes x response framings)
	crossing := c01Twelve()
	if th {
		crossing = c01Core(false)
		for _, s := range c01Core(false) {
			jobs = append(jobs, job{"ids:both", s}, job{"plugins", s}, job{"timeouts", s})
		}
	}
	for _, s := range crossing {
		fd := s
		fd.FixedDate = true
		jobs = append(jobs, job{"round_robin", fd}, job{"timeouts", s})
		jobs = append(jobs, job{"plugins", s})
		for _, p := range c01Paths {
			for _, q := range c01Queries {
				x := s
				x.Target = p + q
				jobs = append(jobs, job{"round_robin", x})
			}
		}
		for _, hs := range c01HeaderSets {
			x := s
			x.ReqHdr = hs
			jobs = append(jobs, job{"round_robin", x})
		}
		for _, hs := range c01RespHeaderSets {
			x := s
			x.RespHdr = hs
			jobs = append(jobs, job{"round_robin", x})
		}
		if s.RespFrame == "chunked" && s.Method != "HEAD" {
			x := s
			x.Trailer = []wire.HeaderLine{{"X-Checksum", "abc123"}, {"X-Count", "2"}}
			jobs = append(jobs, job{"round_robin", x})
		}
		{
			// a backend that labels its body with no media type: none is to be made up for it
			x := s
			x.NoCType = true
			jobs = append(jobs, job{"round_robin", x})
		}
		for _, inst := range []string{"active", "active:/base", "base:/base", "base:/base/", "rebase:/v2", "rebase:+renamed", "rebase:/v2/+renamed", "least_connections", "weighted_round_robin", "ip_hash", "ip_hash_consistent", "ids:req", "ids:trace", "ids:both"} {
			targets := []string{"/r"}
			if strings.HasPrefix(inst, "base:") || strings.HasPrefix(inst, "rebase:") || strings.HasPrefix(inst, "active") {
				targets = []string{"/", "/a/b", "/a%2Fb", "/hello!/it's(me)?q=%26", "/a/./b/../c", "/x%20y/"}
			}
			for _, tg := range targets {
				x := s
				x.Target = tg
				jobs = append(jobs, job{inst, x})
				if strings.HasPrefix(inst, "ids:") {
					y := x
					y.ReqHdr = []wire.HeaderLine{{"X-Request-ID", "client-supplied-1"}, {"X-Trace-ID", "trace-77"}}
					jobs = append(jobs, job{inst, y})
					z := x
					z.ReqHdr = []wire.HeaderLine{{"X-Request-ID", "Edge-7F3A"}, {"X-Request-ID", "app,0042"}, {"X-Trace-ID", "T=1;x"}}
					jobs = append(jobs, job{inst, z})
				}
			}
		}
	}
	insts := map[string]*c01Inst{}
	get := func(name string) *c01Inst {
		if in, ok := insts[name]; ok {
			return in
		}
		var in *c01Inst
		var err error
		switch {
		case strings.HasPrefix(name, "base:"):
			in, err = newC01Inst(name, "round_robin", strings.TrimPrefix(name, "base:"), false, false)
		case strings.HasPrefix(name, "rebase:"):
			in, err = newC01Inst(name, "round_robin", "", false, false)
		case strings.HasPrefix(name, "active"):
			in, err = newC01Inst(name, "round_robin", strings.TrimPrefix(strings.TrimPrefix(name, "active"), ":"), false, false)
		case name == "ids:req":
			in, err = newC01Inst(name, "round_robin", "", true, false)
		case name == "ids:trace":
			in, err = newC01Inst(name, "round_robin", "", false, true)
		case name == "ids:both":
			in, err = newC01Inst(name, "round_robin", "", true, true)
		case name == "features" || name == "plugins" || name == "timeouts":
			in, err = newC01Inst(name, "round_robin", "", false, false)
		default:
			in, err = newC01Inst(name, name, "", false, false)
		}
		if err != nil {
			t.Fatalf("starting instance %s: %v", name, err)
		}
		insts[name] = in
		return in
	}
	defer func() {
		for _, in := range insts {
			in.close()
		}
	}()
	if vres.ReplayPath() != "" {
		var rp struct {
			Instance string
			Shape    c01Shape
		}
		if err := vres.LoadReplay(&rp); err != nil {
			t.Fatal(err)
		}
		fmt.Printf("REPLAY instance=%s shape=%s\n", rp.Instance, rp.Shape)
		for _, d := range get(rp.Instance).compare(rp.Shape) {
			fmt.Printf("  DIFFERENCE %s: %s\n", d.key, d.what)
		}
		return
	}
	start := time.Now()
	var evals int64
	var outs vres.Outcomes
	var sample interface{}
	for i, j := range jobs {
		if i%shards != shard {
			continue
		}
		in := get(j.inst)
		diffs := in.compare(j.shape)
		evals++
		for _, d := range diffs {
			// re-run: a difference must be reproducible five times to count
			fails := 1
			for k := 0; k < 4; k++ {
				for _, d2 := range in.compare(j.shape) {
					if d2.key == d.key {
						fails++
					}
				}
			}
			if fails < 5 {
				r.Note("flaky: %s on %s (%d/5): %s", d.key, j.shape, fails, d.what)
				continue
			}
			r.Violate("C01/"+d.key, fmt.Sprintf("[%s] %s: %s", j.inst, j.shape, d.what), len(j.shape.String()), map[string]interface{}{"engine": "W", "test": "TestVerifC01", "instance": j.inst, "shape": j.shape})
		}
		key := ""
		if len(diffs) > 0 {
			key = diffs[0].key
		}
		outs.Add(fmt.Sprintf("%s/%d/%s/%v", j.shape.Method, j.shape.Status, j.shape.RespFrame, key == ""))
		if sample == nil && j.shape.RespFrame == "flush" {
			sample = map[string]interface{}{"instance": j.inst, "shape": j.shape.String()}
		}
	}
	r.AddScenario(vres.Scenario{Name: "differential-exchanges", Engine: "W", Evaluations: evals, Distinct: int64(outs.N()), Outcomes: outs.N(),
		Rule:       "each shape of the enumerated product is one evaluation (two real exchanges: direct and through Helios); distinct = distinct (method, status, response framing, verdict) classes observed",
		Bound:      fmt.Sprintf("core product %d shapes + crossed dimensions; %d shapes in total over %d worker processes", len(c01Core(th)), len(jobs), shards),
		Exhaustive: true, Sample: sample, Extra: map[string]interface{}{"wall_s": time.Since(start).Seconds()}})
}
