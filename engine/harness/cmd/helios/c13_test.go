package main

import (
	"bufio"
	"bytes"
	"encoding/json"
	"fmt"
	"io"
	"net"
	"net/http"
	"os"
	"os/exec"
	"strings"
	"sync"
	"testing"
	"time"

	"github.com/0xReLogic/Helios/internal/adminapi"
	"github.com/0xReLogic/Helios/internal/config"
	"github.com/0xReLogic/Helios/internal/zzverif/vres"
	"github.com/0xReLogic/Helios/internal/zzverif/wire"
	"gopkg.in/yaml.v3"
)

// C13 (wire part): the outcome alphabet produced by real faults over real connections (an
// abort is a real ErrAbortHandler behind net/http, a disconnect a real client close), sequences
// up to length 2-3 and 2-8 concurrent clients; the numbers are read from the real admin
// endpoints once everything is quiescent.

var c13Outcomes = []string{"ok", "500", "refused", "reset-mid-body", "client-disconnect", "rate-limited", "breaker-rejected", "no-healthy-backend", "upgraded", "upgrade-declined"}

type c13wMetrics struct {
	Total       int `json:"total_requests"`
	Successful  int `json:"successful_requests"`
	Failed      int `json:"failed_requests"`
	RateLimited int `json:"rate_limited_requests"`
	Backends    map[string]struct {
		Total  int `json:"total_requests"`
		Active int `json:"active_connections"`
	} `json:"backend_metrics"`
}

func c13wRun(seq []string, concurrent int) (key, what, outcome string) {
	return c13Run(seq, concurrent, "")
}

// c13Run: bin == "" runs the instance in this process (startHelios, the admin handler on a
// spoofing listener); otherwise the real binary is started from a YAML file with the proxy, the
// Admin API and the metrics listener on, and the numbers are read from its Admin API port - and
// must be the same on its metrics port.
func c13Run(seq []string, concurrent int, bin string) (key, what, outcome string) {
	fbs := []*wire.FaultBackend{wire.NewFaultBackend(), wire.NewFaultBackend()}
	defer func() {
		for _, fb := range fbs {
			fb.Close()
		}
	}()
	need := func(o string) bool {
		for _, s := range seq {
			if s == o {
				return true
			}
		}
		return false
	}
	cfg := baseConfig("round_robin", fbs[0].URL(), fbs[1].URL())
	cfg.Server.Timeouts = config.TimeoutConfig{Read: 2, Write: 2, Idle: 2, BackendDial: 1, BackendRead: 1}
	if need("rate-limited") {
		cfg.RateLimit = config.RateLimitConfig{Enabled: true, MaxTokens: 1, RefillRate: 3600}
	}
	if need("breaker-rejected") {
		cfg.CircuitBreaker = config.CircuitBreakerConfig{Enabled: true, MaxRequests: 1, IntervalSeconds: 3600, TimeoutSeconds: 3600, FailureThreshold: 1, SuccessThreshold: 1}
	}
	if need("no-healthy-backend") {
		cfg.HealthChecks.Passive = config.PassiveHealthCheckConfig{Enabled: true, UnhealthyThreshold: 1, UnhealthyTimeout: 3600}
	}
	var proxyAddr string
	var dialAdmin func() (*wire.Conn, error)
	metricsPort := 0
	if bin == "" {
		h, err := startHelios(cfg)
		if err != nil {
			return "tool", err.Error(), ""
		}
		defer h.stop()
		mux := adminapi.NewMux(h.lb, cfg, h.lb.GetMetricsCollector())
		al := wire.NewSpoofListener()
		asrv := &http.Server{Handler: mux}
		go asrv.Serve(al)
		defer asrv.Close()
		proxyAddr = h.addr
		dialAdmin = func() (*wire.Conn, error) { return wire.Wrap(al.DialFrom("127.0.0.1:5")), nil }
	} else {
		pp, ap, mp := freePort(), freePort(), freePort()
		cfg.Server.Port = pp
		cfg.AdminAPI = config.AdminAPIConfig{Enabled: true, Port: ap}
		cfg.Metrics = config.MetricsConfig{Enabled: true, Port: mp, Path: "/metrics"}
		y, err := yaml.Marshal(cfg)
		if err != nil {
			return "tool", err.Error(), ""
		}
		f, err := os.CreateTemp("", "verif-c13p-*.yaml")
		if err != nil {
			return "tool", err.Error(), ""
		}
		f.Write(y)
		f.Close()
		defer os.Remove(f.Name())
		if _, err := config.LoadConfig(f.Name()); err != nil {
			return "tool", "the harness configuration does not load: " + err.Error(), ""
		}
		repo := os.Getenv("VERIF_REPO")
		if repo == "" {
			repo = "/repo"
		}
		cmd := exec.Command(bin, "-config", f.Name())
		cmd.Dir = repo
		var out bytes.Buffer
		cmd.Stdout, cmd.Stderr = &out, &out
		if err := cmd.Start(); err != nil {
			return "tool", err.Error(), ""
		}
		done := make(chan error, 1)
		go func() { done <- cmd.Wait() }()
		defer func() {
			cmd.Process.Kill()
			<-done
		}()
		for _, port := range []int{pp, ap, mp} {
			ok := false
			for deadline := time.Now().Add(20 * time.Second); time.Now().Before(deadline) && !ok; {
				if c, err := net.DialTimeout("tcp", fmt.Sprintf("127.0.0.1:%d", port), 300*time.Millisecond); err == nil {
					c.Close()
					ok = true
				} else {
					time.Sleep(30 * time.Millisecond)
				}
			}
			if !ok {
				return "tool", "the binary did not open its three listeners: " + lastLines(out.String(), 3), ""
			}
		}
		proxyAddr = fmt.Sprintf("127.0.0.1:%d", pp)
		dialAdmin = func() (*wire.Conn, error) { return wire.Dial(fmt.Sprintf("127.0.0.1:%d", ap)) }
		metricsPort = mp
	}
	issued := 0
	var mu sync.Mutex
	send := func(mode, client string) string {
		for _, fb := range fbs {
			switch mode {
			case "500", "refuse", "reset", "big", "upgrade":
				fb.SetMode(mode)
			default:
				fb.SetMode("healthy")
			}
		}
		mu.Lock()
		issued++
		mu.Unlock()
		c, err := net.DialTimeout("tcp", proxyAddr, 5*time.Second)
		if err != nil {
			return "dial-error"
		}
		defer c.Close()
		c.SetDeadline(time.Now().Add(15 * time.Second))
		if mode == "upgrade" || mode == "ask-upgrade" {
			// a protocol switch: accepted by the backend (tunnel, a few bytes echoed, client closes)
			// or declined (ordinary answer)
			fmt.Fprintf(c, "GET /ws HTTP/1.1\r\nHost: x.test\r\nX-Forwarded-For: %s\r\nConnection: Upgrade\r\nUpgrade: websocket\r\n\r\n", client)
			br := bufio.NewReader(c)
			line, _ := br.ReadString('\n')
			if strings.Contains(line, " 101 ") {
				for {
					l, err := br.ReadString('\n')
					if err != nil || l == "\r\n" {
						break
					}
				}
				c.Write([]byte("ping"))
				echo := make([]byte, 4)
				io.ReadFull(br, echo)
				c.Close()
				time.Sleep(50 * time.Millisecond)
				return "101"
			}
			if len(line) >= 12 {
				return line[9:12]
			}
			return "closed"
		}
		fmt.Fprintf(c, "GET /x HTTP/1.1\r\nHost: x.test\r\nX-Forwarded-For: %s\r\nConnection: close\r\n\r\n", client)
		if mode == "big" {
			buf := make([]byte, 2048)
			io.ReadFull(c, buf)
			return "disconnected"
		}
		data, _ := io.ReadAll(c)
		if len(data) >= 12 {
			return string(data[9:12])
		}
		return "closed"
	}
	desc := fmt.Sprintf("outcomes %v x%d clients", seq, concurrent)
	for i, o := range seq {
		client := fmt.Sprintf("10.6.0.%d", i+1)
		var got []string
		do := func(mode, cl string) { r := send(mode, cl); mu.Lock(); got = append(got, r); mu.Unlock() }
		par := func(mode string) {
			var wg sync.WaitGroup
			for k := 0; k < concurrent; k++ {
				wg.Add(1)
				go func(k int) { defer wg.Done(); do(mode, fmt.Sprintf("%s%d", client, k)) }(k)
			}
			wg.Wait()
		}
		switch o {
		case "ok":
			par("healthy")
		case "500":
			par("500")
		case "refused":
			par("refuse")
		case "reset-mid-body":
			par("reset")
		case "client-disconnect":
			par("big")
		case "upgraded":
			par("upgrade")
		case "upgrade-declined":
			par("ask-upgrade")
		case "rate-limited":
			do("healthy", "10.6.9.9")
			do("healthy", "10.6.9.9") // the second one from the same client is over the bucket of 1
		case "breaker-rejected":
			do("500", client) // trips (failure_threshold 1)
			par("healthy")    // rejected while open
		case "no-healthy-backend":
			do("500", client+"1") // ejects one backend (threshold 1)
			do("500", client+"2") // and the other
			par("healthy")
		}
		outcome += o + ":" + strings.Join(got, ",") + " "
	}
	for _, fb := range fbs {
		if fb.Lost {
			return "skip", "a backend port released for the refuse behaviour was taken by another process", outcome
		}
	}
	// read the published numbers at quiescence (aborted exchanges finish accounting asynchronously)
	var m c13wMetrics
	var infos []struct {
		Name   string `json:"name"`
		Active int    `json:"active_connections"`
	}
	get := func(path string, into interface{}) error {
		c, err := dialAdmin()
		if err != nil {
			return err
		}
		defer c.Close()
		r := c.Do(&wire.Request{Method: "GET", Target: path, Header: []wire.HeaderLine{{"Host", "a"}, {"Connection", "close"}}, NoBody: true}, 10*time.Second)
		if r.Err != "" || r.Status != 200 {
			return fmt.Errorf("%s: %d %s", path, r.Status, r.Err)
		}
		return json.Unmarshal(r.Body, into)
	}
	deadline := time.Now().Add(6 * time.Second)
	for {
		if err := get("/v1/metrics", &m); err != nil {
			return "tool", err.Error(), outcome
		}
		infos = nil
		if err := get("/v1/backends", &infos); err != nil {
			return "tool", err.Error(), outcome
		}
		key, what = "", ""
		sentTo := fbs[0].Requests() + fbs[1].Requests()
		perBackend := 0
		for _, b := range m.Backends {
			perBackend += b.Total
			if b.Active != 0 {
				key, what = "C13/wire/gauge/metrics-mirror-not-zero-at-quiescence", fmt.Sprintf("%s: metrics publish active_connections=%d with nothing in flight", desc, b.Active)
			}
		}
		for _, bi := range infos {
			if bi.Active != 0 {
				key, what = "C13/wire/gauge/backends-endpoint-not-zero-at-quiescence", fmt.Sprintf("%s: /v1/backends publishes active_connections=%d for %s with nothing in flight", desc, bi.Active, bi.Name)
			}
		}
		switch {
		case m.Total != issued:
			key, what = "C13/wire/total-requests-wrong", fmt.Sprintf("%s: total_requests=%d but %d requests were sent", desc, m.Total, issued)
		case m.Successful+m.Failed+m.RateLimited != m.Total:
			key, what = "C13/wire/request-not-counted-in-exactly-one-outcome", fmt.Sprintf("%s: successful(%d)+failed(%d)+rate_limited(%d) != total_requests(%d)", desc, m.Successful, m.Failed, m.RateLimited, m.Total)
		case perBackend < sentTo:
			key, what = "C13/wire/per-backend-totals-below-requests-received", fmt.Sprintf("%s: backends received %d requests but their published totals add up to %d", desc, sentTo, perBackend)
		case perBackend > m.Total:
			key, what = "C13/wire/per-backend-totals-above-total", fmt.Sprintf("%s: per-backend totals %d > total_requests %d", desc, perBackend, m.Total)
		}
		if key == "" && metricsPort != 0 {
			// the metrics listener publishes the same numbers
			var mm c13wMetrics
			c, err := wire.Dial(fmt.Sprintf("127.0.0.1:%d", metricsPort))
			if err != nil {
				return "tool", err.Error(), outcome
			}
			r := c.Do(&wire.Request{Method: "GET", Target: "/metrics", Header: []wire.HeaderLine{{"Host", "m"}, {"Connection", "close"}}, NoBody: true}, 10*time.Second)
			c.Close()
			if r.Err != "" || r.Status != 200 || json.Unmarshal(r.Body, &mm) != nil {
				key, what = "C13/binary/metrics-endpoint-not-readable", fmt.Sprintf("%s: GET /metrics on the metrics port: %d %s %.100q", desc, r.Status, r.Err, r.Body)
			} else if mm.Total != m.Total || mm.Successful != m.Successful || mm.Failed != m.Failed || mm.RateLimited != m.RateLimited || len(mm.Backends) != len(m.Backends) {
				key, what = "C13/binary/metrics-port-and-admin-api-disagree", fmt.Sprintf("%s: the metrics port publishes total/successful/failed/rate-limited %d/%d/%d/%d (%d backends), the Admin API %d/%d/%d/%d (%d backends)", desc, mm.Total, mm.Successful, mm.Failed, mm.RateLimited, len(mm.Backends), m.Total, m.Successful, m.Failed, m.RateLimited, len(m.Backends))
			}
		}
		if key == "" || time.Now().After(deadline) {
			return key, what, outcome
		}
		time.Sleep(100 * time.Millisecond)
	}
}

func TestVerifC13W(t *testing.T) {
	r := vres.Open("C13", "W")
	defer func() {
		if err := r.Close(); err != nil {
			t.Fatal(err)
		}
	}()
	th := vres.Thorough()
	shard, shards := shardOf()
	start := time.Now()
	type job struct {
		seq  []string
		conc int
	}
	var jobs []job
	for _, a := range c13Outcomes {
		jobs = append(jobs, job{[]string{a}, 1}, job{[]string{a}, 4})
		for _, b := range c13Outcomes {
			if a == b || th {
				jobs = append(jobs, job{[]string{a, b}, 1})
			}
		}
		if th {
			jobs = append(jobs, job{[]string{a}, 8}, job{[]string{a, "ok", a}, 2})
		}
	}
	jobs = append(jobs, job{[]string{"reset-mid-body", "client-disconnect", "ok"}, 2}, job{[]string{"ok", "500", "refused"}, 8})
	var evals int64
	var outs vres.Outcomes
	var sample interface{}
	for i, j := range jobs {
		if i%shards != shard {
			continue
		}
		key, what, outcome := c13wRun(j.seq, j.conc)
		if key == "tool" {
			t.Fatalf("tool error: %s", what)
		}
		if key == "skip" {
			r.Note("skipped %v x%d: %s", j.seq, j.conc, what)
			continue
		}
		if key != "" {
			fails := 1
			for k := 0; k < 4; k++ {
				if k2, _, _ := c13wRun(j.seq, j.conc); k2 == key {
					fails++
				}
			}
			if fails < 5 {
				r.Note("flaky (%d/5): %s %s", fails, key, what)
				key = ""
			}
		}
		evals++
		outs.Add(fmt.Sprintf("%v/%d", j.seq, j.conc))
		if sample == nil && len(j.seq) == 2 {
			sample = map[string]interface{}{"outcomes": j.seq, "clients": j.conc, "observed": outcome}
		}
		if key != "" {
			r.Violate(key, what, len(j.seq)*10+j.conc, map[string]interface{}{"engine": "W", "test": "TestVerifC13W", "outcomes": j.seq, "clients": j.conc})
		}
	}
	r.AddScenario(vres.Scenario{Name: "accounting-over-the-wire", Engine: "W", Evaluations: evals, Distinct: int64(outs.N()), Outcomes: outs.N(),
		Rule:       "one evaluation = one sequence of real outcomes (ok, 500, refused, reset mid-body, client disconnect, rate-limited, breaker-rejected, no-healthy-backend, accepted upgrade, declined upgrade) with 1-8 concurrent clients against a fresh instance, audited through the real /v1/metrics and /v1/backends at quiescence; distinct = distinct (sequence, clients) cases",
		Bound:      fmt.Sprintf("%d sequences (singles x {1,4} clients, doubled outcomes%s, two mixed triples)", len(jobs), map[bool]string{true: ", all ordered pairs, x8 clients, a-ok-a triples", false: ""}[th]),
		Exhaustive: true, Sample: sample, Extra: map[string]interface{}{"wall_s": time.Since(start).Seconds()}})
}

// C13, engine P: the same outcome sequences against the real binary - how main() wires the
// collector into the metrics listener and the Admin API only shows through the process.
func TestVerifC13P(t *testing.T) {
	r := vres.Open("C13", "P")
	defer func() {
		if err := r.Close(); err != nil {
			t.Fatal(err)
		}
	}()
	bin := os.Getenv("VERIF_HELIOS_BIN")
	if bin == "" {
		r.Note("engine P skipped: VERIF_HELIOS_BIN not set")
		return
	}
	shard, shards := shardOf()
	start := time.Now()
	type job struct {
		seq  []string
		conc int
	}
	var jobs []job
	for _, a := range c13Outcomes {
		jobs = append(jobs, job{[]string{a}, 1}, job{[]string{a, a}, 2})
	}
	jobs = append(jobs, job{[]string{"ok", "500", "refused"}, 4}, job{[]string{"reset-mid-body", "client-disconnect", "ok"}, 2})
	var evals int64
	var outs vres.Outcomes
	for i, j := range jobs {
		if i%shards != shard {
			continue
		}
		key, what, _ := c13Run(j.seq, j.conc, bin)
		if key == "tool" {
			t.Fatalf("tool error: %s", what)
		}
		if key == "skip" {
			r.Note("skipped %v x%d: %s", j.seq, j.conc, what)
			continue
		}
		if key != "" {
			fails := 1
			for k := 0; k < 4; k++ {
				if k2, _, _ := c13Run(j.seq, j.conc, bin); k2 == key {
					fails++
				}
			}
			if fails < 5 {
				r.Note("flaky (%d/5): %s %s", fails, key, what)
				key = ""
			}
		}
		evals++
		outs.Add(fmt.Sprintf("%v/%d", j.seq, j.conc))
		if key != "" {
			r.Violate(strings.Replace(key, "C13/wire/", "C13/binary/", 1), what+" (real binary)", len(j.seq)*10+j.conc, map[string]interface{}{"engine": "P", "test": "TestVerifC13P", "outcomes": j.seq, "clients": j.conc})
		}
	}
	r.AddScenario(vres.Scenario{Name: "accounting-through-the-real-binary", Engine: "P", Evaluations: evals, Distinct: int64(outs.N()), Outcomes: outs.N(),
		Rule:       "one evaluation = one sequence of real outcomes against the real binary started from a YAML file (proxy, Admin API and metrics listeners on), audited at quiescence through its Admin API port (/v1/metrics, /v1/backends) with the audit of the wire part; the metrics port must publish the same totals; distinct = distinct (sequence, clients) cases",
		Bound:      fmt.Sprintf("%d sequences (each of %d outcomes once with 1 client and twice with 2, two mixed triples)", len(jobs), len(c13Outcomes)),
		Exhaustive: true, Extra: map[string]interface{}{"wall_s": time.Since(start).Seconds()}})
}
