package main

import (
	"bytes"
	"fmt"
	"github.com/0xReLogic/Helios/internal/zzverif/wire"
	"io"
	"net"
	"net/http"
	"net/http/httptest"
	"net/url"
	"os"
	"os/exec"
	"path/filepath"
	"regexp"
	"strings"
	"sync"
	"testing"
	"time"

	"gopkg.in/yaml.v3"

	"github.com/0xReLogic/Helios/internal/adminapi"
	"github.com/0xReLogic/Helios/internal/config"
	"github.com/0xReLogic/Helios/internal/loadbalancer"
	"github.com/0xReLogic/Helios/internal/plugins"
	"github.com/0xReLogic/Helios/internal/zzverif/vres"
)

// C18 configuration loading.
//   A  every configuration the repository itself presents (shipped files, fenced yaml blocks of
//      README and docs; fragments merged over a minimal base) loads and builds
//   B  per-section menus of valid / invalid YAML fragments; the real LoadConfig must accept a
//      file exactly when every chosen fragment is valid (the validator stops at the first
//      error, so combinations matter); accepted files are also built in-process
//   P  the real binary starts on the shipped files and answers a request

type frag struct {
	label string
	ok    bool
	yaml  string
}

func v(label, y string) frag { return frag{label, true, y} }
func x(label, y string) frag { return frag{label, false, y} }

// Dimensions are finer than YAML sections: every group of constraints that one validator
// function checks with early returns is split so that a valid part can stand next to an
// invalid part of the same section (e.g. valid active checks + invalid passive checks).
// A file is composed by deep-merging the chosen fragments.
var c18Sections = []struct {
	name  string
	frags []frag
}{
	{"server.port", []frag{
		v("8080", "server:\n  port: 8080\n"),
		v("65535", "server:\n  port: 65535\n"),
		x("0", "server:\n  port: 0\n"),
		x("70000", "server:\n  port: 70000\n"),
		x("negative", "server:\n  port: -1\n"),
	}},
	{"server.timeouts", []frag{
		v("omitted", ""),
		v("documented", "server:\n  timeouts:\n    read: 15\n    write: 15\n    idle: 60\n    handler: 30\n    shutdown: 30\n    backend_dial: 10\n    backend_read: 30\n    backend_idle: 90\n"),
		x("negative-read", "server:\n  timeouts:\n    read: -1\n"),
		x("negative-backend-dial", "server:\n  timeouts:\n    write: 5\n    backend_dial: -5\n"),
		x("negative-shutdown", "server:\n  timeouts:\n    shutdown: -2\n"),
		x("negative-backend-idle", "server:\n  timeouts:\n    read: 15\n    backend_idle: -1\n"),
	}},
	{"server.tls", []frag{
		v("omitted", ""),
		v("disabled-with-paths", "server:\n  tls:\n    enabled: false\n    certFile: \"certs/cert.pem\"\n    keyFile: \"certs/key.pem\"\n"),
		x("enabled-without-cert", "server:\n  tls:\n    enabled: true\n    keyFile: k.pem\n"),
		x("enabled-without-key", "server:\n  tls:\n    enabled: true\n    certFile: c.pem\n"),
	}},
	{"backends", []frag{
		v("three-weighted", "backends:\n  - name: \"server1\"\n    address: \"http://localhost:8081\"\n    weight: 5\n  - name: \"server2\"\n    address: \"http://localhost:8082\"\n    weight: 2\n"),
		v("no-weight", "backends:\n  - name: a\n    address: http://127.0.0.1:9\n"),
		x("none", "backends: []\n"),
		x("missing-name", "backends:\n  - name: ok\n    address: http://127.0.0.1:9\n  - address: http://127.0.0.1:9\n"),
		x("missing-address", "backends:\n  - name: a\n"),
		x("negative-weight", "backends:\n  - name: a\n    address: http://127.0.0.1:9\n  - name: b\n    address: http://127.0.0.1:9\n    weight: -1\n"),
		// the same defects at the first and at a middle position of the list (a validator that
		// lets a later entry overwrite the verdict is position-dependent)
		x("missing-name-first", "backends:\n  - address: http://127.0.0.1:9\n  - name: ok\n    address: http://127.0.0.1:9\n"),
		x("missing-address-first", "backends:\n  - name: a\n  - name: ok\n    address: http://127.0.0.1:9\n"),
		x("negative-weight-middle", "backends:\n  - name: a\n    address: http://127.0.0.1:9\n  - name: b\n    address: http://127.0.0.1:9\n    weight: -1\n  - name: c\n    address: http://127.0.0.1:9\n"),
		v("zero-weight", "backends:\n  - name: a\n    address: http://127.0.0.1:9\n    weight: 0\n"),
	}},
	{"load_balancer.strategy", []frag{
		v("round_robin", "load_balancer:\n  strategy: \"round_robin\"\n"),
		v("ip_hash", "load_balancer:\n  strategy: \"ip_hash\"\n"),
		x("unknown", "load_balancer:\n  strategy: \"random\"\n"),
		x("wrong-case", "load_balancer:\n  strategy: \"Round_Robin\"\n"),
		v("least_connections", "load_balancer:\n  strategy: least_connections\n"),
		v("weighted_round_robin", "load_balancer:\n  strategy: weighted_round_robin\n"),
		v("ip_hash_consistent", "load_balancer:\n  strategy: ip_hash_consistent\n"),
		v("omitted", ""),
	}},
	{"load_balancer.websocket_pool", []frag{
		v("documented", "load_balancer:\n  websocket_pool:\n    enabled: true\n    max_idle: 10\n    max_active: 100\n    idle_timeout_seconds: 300\n"),
		v("omitted", ""),
		x("idle-above-active", "load_balancer:\n  websocket_pool:\n    enabled: true\n    max_idle: 20\n    max_active: 10\n"),
		x("negative-idle", "load_balancer:\n  websocket_pool:\n    enabled: true\n    max_idle: -1\n"),
		x("negative-active", "load_balancer:\n  websocket_pool:\n    enabled: true\n    max_idle: 0\n    max_active: -4\n"),
		x("negative-timeout", "load_balancer:\n  websocket_pool:\n    enabled: true\n    idle_timeout_seconds: -3\n"),
		v("unlimited-active", "load_balancer:\n  websocket_pool:\n    enabled: true\n    max_idle: 10\n    max_active: 0\n"),
		v("disabled-odd-values", "load_balancer:\n  websocket_pool:\n    enabled: false\n    max_idle: -1\n"),
	}},
	{"health_checks.active", []frag{
		v("enabled", "health_checks:\n  active:\n    enabled: true\n    interval: 10\n    timeout: 7\n    path: \"/\"\n"),
		v("disabled", "health_checks:\n  active:\n    enabled: false\n"),
		x("interval-0", "health_checks:\n  active:\n    enabled: true\n    interval: 0\n    timeout: 1\n    path: /h\n"),
		x("timeout-0", "health_checks:\n  active:\n    enabled: true\n    interval: 5\n    timeout: 0\n    path: /h\n"),
		x("timeout-not-below-interval", "health_checks:\n  active:\n    enabled: true\n    interval: 5\n    timeout: 5\n    path: /h\n"),
		x("no-path", "health_checks:\n  active:\n    enabled: true\n    interval: 5\n    timeout: 3\n"),
	}},
	{"health_checks.passive", []frag{
		v("enabled", "health_checks:\n  passive:\n    enabled: true\n    unhealthy_threshold: 3\n    unhealthy_timeout: 30\n"),
		v("disabled", "health_checks:\n  passive:\n    enabled: false\n"),
		x("threshold-0", "health_checks:\n  passive:\n    enabled: true\n    unhealthy_threshold: 0\n    unhealthy_timeout: 30\n"),
		x("timeout-0", "health_checks:\n  passive:\n    enabled: true\n    unhealthy_threshold: 3\n    unhealthy_timeout: 0\n"),
		x("threshold-negative", "health_checks:\n  passive:\n    enabled: true\n    unhealthy_threshold: -2\n    unhealthy_timeout: 30\n"),
	}},
	{"rate_limit", []frag{
		v("enabled", "rate_limit:\n  enabled: true\n  max_tokens: 100\n  refill_rate_seconds: 1\n"),
		v("disabled", "rate_limit:\n  enabled: false\n"),
		x("max_tokens-0", "rate_limit:\n  enabled: true\n  max_tokens: 0\n  refill_rate_seconds: 1\n"),
		x("refill-0", "rate_limit:\n  enabled: true\n  max_tokens: 10\n  refill_rate_seconds: 0\n"),
	}},
	{"circuit_breaker", []frag{
		v("enabled", "circuit_breaker:\n  enabled: true\n  max_requests: 5\n  interval_seconds: 60\n  timeout_seconds: 60\n  failure_threshold: 5\n  success_threshold: 2\n"),
		v("disabled", "circuit_breaker:\n  enabled: false\n"),
		x("failure_threshold-0", "circuit_breaker:\n  enabled: true\n  interval_seconds: 60\n  timeout_seconds: 60\n  failure_threshold: 0\n  success_threshold: 2\n"),
		x("timeout-negative", "circuit_breaker:\n  enabled: true\n  interval_seconds: 60\n  timeout_seconds: -1\n  failure_threshold: 5\n  success_threshold: 2\n"),
		x("success_threshold-0", "circuit_breaker:\n  enabled: true\n  interval_seconds: 60\n  timeout_seconds: 60\n  failure_threshold: 5\n  success_threshold: 0\n"),
		x("interval-0", "circuit_breaker:\n  enabled: true\n  interval_seconds: 0\n  timeout_seconds: 60\n  failure_threshold: 5\n  success_threshold: 2\n"),
		v("no-max_requests", "circuit_breaker:\n  enabled: true\n  interval_seconds: 30\n  timeout_seconds: 60\n  failure_threshold: 5\n  success_threshold: 2\n"),
	}},
	{"metrics", []frag{
		v("enabled", "metrics:\n  enabled: true\n  port: 9090\n  path: \"/metrics\"\n"),
		v("disabled", "metrics:\n  enabled: false\n"),
		x("port-0", "metrics:\n  enabled: true\n  port: 0\n  path: /metrics\n"),
		x("port-99999", "metrics:\n  enabled: true\n  port: 99999\n  path: /metrics\n"),
	}},
	{"admin_api", []frag{
		v("enabled+token+lists", "admin_api:\n  enabled: true\n  port: 9091\n  auth_token: \"change-me\"\n  ip_allow_list:\n    - \"127.0.0.1\"\n    - \"10.0.0.0/8\"\n  ip_deny_list:\n    - \"203.0.113.0/24\"\n"),
		v("disabled", "admin_api:\n  enabled: false\n"),
		x("port-0", "admin_api:\n  enabled: true\n  port: 0\n"),
		x("port-65536", "admin_api:\n  enabled: true\n  port: 65536\n"),
	}},
	{"logging.level", []frag{
		v("info", "logging:\n  level: \"info\"\n"),
		v("debug", "logging:\n  level: debug\n"),
		x("verbose", "logging:\n  level: verbose\n"),
		x("wrong-case", "logging:\n  level: INFO\n"),
		v("warn", "logging:\n  level: warn\n"),
		v("error", "logging:\n  level: error\n"),
		v("omitted", ""),
	}},
	{"logging.format", []frag{
		v("text+ids", "logging:\n  format: \"text\"\n  include_caller: false\n  request_id:\n    enabled: true\n    header: \"X-Request-ID\"\n  trace:\n    enabled: true\n    header: \"X-Trace-ID\"\n"),
		v("json", "logging:\n  format: json\n"),
		x("xml", "logging:\n  format: xml\n"),
		v("console", "logging:\n  format: console\n"),
		v("omitted", ""),
	}},
	{"plugins", []frag{
		v("shipped-chain", "plugins:\n  enabled: true\n  chain:\n    - name: logging\n    - name: size_limit\n      config:\n        max_request_body: 10485760\n        max_response_body: 52428800\n    - name: gzip\n      config:\n        level: 5\n        min_size: 1024\n        content_types:\n          - \"text/html\"\n          - \"application/json\"\n    - name: headers\n      config:\n        set:\n          X-App: Helios\n        request_set:\n          X-From: LB\n"),
		v("disabled", "plugins:\n  enabled: false\n"),
		v("float-typed-options", "plugins:\n  enabled: true\n  chain:\n    - name: gzip\n      config:\n        level: 6.0\n        min_size: 1024.0\n        content_types: [\"text/\"]\n    - name: size_limit\n      config:\n        max_request_body: 1048576.0\n"),
	}},
}

// build constructs everything main() constructs from a loaded configuration.
func c18Build(cfg *config.Config) (err error) {
	defer func() {
		if p := recover(); p != nil {
			err = fmt.Errorf("PANIC: %v", p)
		}
	}()
	lb, e := loadbalancer.NewLoadBalancer(cfg)
	if e != nil {
		return fmt.Errorf("NewLoadBalancer: %w", e)
	}
	defer lb.Stop()
	if _, e := buildHandler(cfg, lb); e != nil {
		return fmt.Errorf("buildHandler: %w", e)
	}
	_ = adminapi.NewMux(lb, cfg, lb.GetMetricsCollector())
	_ = createHTTPServer(cfg, nil)
	return nil
}

func c18Load(dir, name, content string) (*config.Config, error) {
	p := filepath.Join(dir, name)
	if err := os.WriteFile(p, []byte(content), 0o644); err != nil {
		return nil, err
	}
	return config.LoadConfig(p)
}

var fenceRe = regexp.MustCompile("(?s)```yaml\\n(.*?)```")

const c18Base = "server:\n  port: 8080\nbackends:\n  - name: base1\n    address: http://127.0.0.1:9\n"

func mergeYAML(base, over string) (string, error) {
	var b, o map[string]interface{}
	if err := yaml.Unmarshal([]byte(base), &b); err != nil {
		return "", err
	}
	if err := yaml.Unmarshal([]byte(over), &o); err != nil {
		return "", err
	}
	var merge func(dst, src map[string]interface{})
	merge = func(dst, src map[string]interface{}) {
		for k, v := range src {
			if sm, ok := v.(map[string]interface{}); ok {
				if dm, ok := dst[k].(map[string]interface{}); ok {
					merge(dm, sm)
					continue
				}
			}
			dst[k] = v
		}
	}
	merge(b, o)
	out, err := yaml.Marshal(b)
	return string(out), err
}

func c18Samples(t *testing.T, r *vres.Report, dir string) {
	start := time.Now()
	repo := os.Getenv("VERIF_REPO")
	if repo == "" {
		repo = "/repo"
	}
	type sample struct{ id, content string }
	var samples []sample
	for _, f := range []string{"helios.yaml", "helios.docker.yaml"} {
		b, err := os.ReadFile(filepath.Join(repo, f))
		if err != nil {
			t.Fatal(err)
		}
		samples = append(samples, sample{f, string(b)})
	}
	builtin := map[string]bool{}
	for _, n := range plugins.List() {
		builtin[n] = true
	}
	var skipped []string
	docs := []string{"README.md", "docs/admin-api-security.md", "docs/plugin-development.md"}
	for _, d := range docs {
		b, err := os.ReadFile(filepath.Join(repo, d))
		if err != nil {
			continue
		}
		for i, m := range fenceRe.FindAllStringSubmatch(string(b), -1) {
			id := fmt.Sprintf("%s#yaml-block-%d", d, i+1)
			block := m[1]
			var top map[string]interface{}
			if err := yaml.Unmarshal([]byte(block), &top); err != nil || len(top) == 0 {
				skipped = append(skipped, id+" (not a YAML mapping)")
				continue
			}
			// tutorial blocks that configure a plugin the reader is supposed to write are not configurations of this binary
			if pl, ok := top["plugins"].(map[string]interface{}); ok {
				unknown := ""
				if ch, ok := pl["chain"].([]interface{}); ok {
					for _, e := range ch {
						if em, ok := e.(map[string]interface{}); ok {
							if n, _ := em["name"].(string); !builtin[n] || n == "zzprobe" {
								unknown = n
							}
						}
					}
				}
				if unknown != "" {
					skipped = append(skipped, fmt.Sprintf("%s (tutorial plugin %q is not built in)", id, unknown))
					continue
				}
			}
			if _, full := top["backends"]; full {
				samples = append(samples, sample{id, block})
				continue
			}
			merged, err := mergeYAML(c18Base, block)
			if err != nil {
				skipped = append(skipped, id+" (merge failed)")
				continue
			}
			// a TLS fragment names certificate files; file existence is start-up business, not loading
			samples = append(samples, sample{id + "+base", merged})
		}
	}
	var evals int64
	var outs vres.Outcomes
	for _, s := range samples {
		evals++
		cfg, err := c18Load(dir, "sample.yaml", s.content)
		if err != nil {
			field := err.Error()
			r.Violate("C18/sample-rejected/"+s.id, fmt.Sprintf("%s, which the repository presents as a valid configuration, is rejected: %s", s.id, field), 1, map[string]interface{}{"sample": s.id, "content": s.content})
			outs.Add("rejected")
			continue
		}
		if err := c18Build(cfg); err != nil {
			r.Violate("C18/sample-does-not-build/"+s.id, fmt.Sprintf("%s loads but does not start: %s", s.id, err), 1, map[string]interface{}{"sample": s.id, "content": s.content})
			outs.Add("build-failed")
			continue
		}
		outs.Add("ok:" + s.id)
	}
	var ids []string
	for _, s := range samples {
		ids = append(ids, s.id)
	}
	r.AddScenario(vres.Scenario{Name: "documented-samples", Engine: "W", Evaluations: evals, Distinct: int64(len(samples)), Outcomes: outs.N(),
		Rule:  "the two shipped files and every fenced yaml block of README.md and docs/*.md (fragments merged over a minimal base; tutorial blocks for plugins that are not built in are skipped and listed) are loaded with the real LoadConfig and built like main() does",
		Bound: fmt.Sprintf("%d samples", len(samples)), Exhaustive: true, Sample: ids, Extra: map[string]interface{}{"skipped": skipped, "wall_s": time.Since(start).Seconds()}})
}

func c18Product(t *testing.T, r *vres.Report, dir string) {
	start := time.Now()
	shard, shards := shardOf()
	th := vres.Thorough()
	n := len(c18Sections)
	var evals, built int64
	var outs vres.Outcomes
	var sample interface{}
	check := func(choice []int, doBuild bool) {
		var sb strings.Builder
		want := true
		var labels []string
		var bad []string
		merged := ""
		for si, fi := range choice {
			f := c18Sections[si].frags[fi]
			if f.yaml != "" {
				if merged == "" {
					merged = f.yaml
				} else {
					m, merr := mergeYAML(merged, f.yaml)
					if merr != nil {
						t.Fatalf("composing %s: %v", f.label, merr)
					}
					merged = m
				}
			}
			labels = append(labels, c18Sections[si].name+"="+f.label)
			if !f.ok {
				want = false
				bad = append(bad, c18Sections[si].name+"="+f.label)
			}
		}
		sb.WriteString(merged)
		cfg, err := c18Load(dir, fmt.Sprintf("p%d.yaml", shard), sb.String())
		evals++
		outs.Add(fmt.Sprintf("invalid=%d/accepted=%v", len(bad), err == nil))
		if sample == nil && len(bad) == 2 {
			sample = map[string]interface{}{"fragments": labels, "accepted": err == nil, "error": fmt.Sprint(err)}
		}
		switch {
		case want && err != nil:
			// name the section the error message is about: the simplest witness
			r.Violate("C18/valid-configuration-rejected/"+c18ErrKey(err), fmt.Sprintf("every section is a documented valid form (%v) but LoadConfig fails: %v", labels, err), 10, map[string]interface{}{"fragments": labels, "yaml": sb.String()})
		case !want && err == nil:
			r.Violate("C18/invalid-configuration-accepted/"+strings.Join(bad, "+"), fmt.Sprintf("sections %v violate a documented constraint but LoadConfig accepts the file", bad), len(bad), map[string]interface{}{"fragments": labels, "yaml": sb.String()})
		case err == nil && doBuild:
			built++
			if berr := c18Build(cfg); berr != nil {
				kind := "fails-to-start"
				if strings.HasPrefix(berr.Error(), "PANIC") {
					kind = "panics"
				}
				r.Violate("C18/accepted-configuration-"+kind+"/"+c18ErrKey(berr), fmt.Sprintf("%v loads but: %v", labels, berr), 10, map[string]interface{}{"fragments": labels, "yaml": sb.String()})
			}
		}
	}
	idx := 0
	mine := func() bool { idx++; return idx%shards == shard }
	base := make([]int, n)
	// singles and all pairs of fragments over an all-valid rest
	for i := 0; i < n; i++ {
		for fi := range c18Sections[i].frags {
			for j := i + 1; j < n; j++ {
				for fj := range c18Sections[j].frags {
					if !mine() {
						continue
					}
					c := append([]int(nil), base...)
					c[i], c[j] = fi, fj
					check(c, true)
				}
			}
		}
	}
	pairs := evals
	if th {
		// all triples of fragments over an all-valid rest
		for i := 0; i < n; i++ {
			for fi := range c18Sections[i].frags {
				for j := i + 1; j < n; j++ {
					for fj := range c18Sections[j].frags {
						for k := j + 1; k < n; k++ {
							for fk := range c18Sections[k].frags {
								if !mine() {
									continue
								}
								c := append([]int(nil), base...)
								c[i], c[j], c[k] = fi, fj, fk
								check(c, false)
							}
						}
					}
				}
			}
		}
		// full product over the first valid and the first invalid fragment of every section
		var lim [][]int
		for _, s := range c18Sections {
			var idxs []int
			nv, ni := 0, 0
			for fi, f := range s.frags {
				if f.ok && nv < 1 {
					idxs = append(idxs, fi)
					nv++
				}
				if !f.ok && ni < 1 {
					idxs = append(idxs, fi)
					ni++
				}
			}
			lim = append(lim, idxs)
		}
		c := make([]int, n)
		var rec func(d int)
		rec = func(d int) {
			if d == n {
				if mine() {
					check(c, false)
				}
				return
			}
			for _, fi := range lim[d] {
				c[d] = fi
				rec(d + 1)
			}
		}
		rec(0)
	}
	r.AddScenario(vres.Scenario{Name: "section-product-vs-reference", Engine: "W", Evaluations: evals, Distinct: int64(outs.N()), Outcomes: outs.N(),
		Rule:       "files assembled from per-section menus of documented valid forms and one invalid form per documented constraint; the real LoadConfig must accept exactly the all-valid files; distinct = (number of invalid sections, accepted) classes",
		Bound:      fmt.Sprintf("all pairs of fragments over an all-valid rest (%d files this shard, %d of them built in-process)%s", pairs, built, map[bool]string{true: " + all triples over an all-valid rest + full product over one valid and one invalid fragment per section", false: ""}[th]),
		Exhaustive: true, Sample: sample, Extra: map[string]interface{}{"wall_s": time.Since(start).Seconds(), "sections": n}})
}

var c18KeyRe = regexp.MustCompile(`[^a-zA-Z0-9]+`)

func c18ErrKey(err error) string {
	s := err.Error()
	s = strings.TrimPrefix(s, "invalid configuration: ")
	if len(s) > 60 {
		s = s[:60]
	}
	return strings.Trim(c18KeyRe.ReplaceAllString(s, "-"), "-")
}

func c18Binary(t *testing.T, r *vres.Report, dir string) {
	bin := os.Getenv("VERIF_HELIOS_BIN")
	shard, _ := shardOf()
	if bin == "" || shard != 0 {
		return
	}
	start := time.Now()
	repo := os.Getenv("VERIF_REPO")
	if repo == "" {
		repo = "/repo"
	}
	var evals int64
	var outs vres.Outcomes
	for _, f := range []string{"helios.yaml", "helios.docker.yaml"} {
		b, err := os.ReadFile(filepath.Join(repo, f))
		if err != nil {
			t.Fatal(err)
		}
		// the shipped file as it is, except that the three listening ports are moved to free ones
		pp, mp, ap := freePort(), freePort(), freePort()
		content := strings.Replace(string(b), "port: 8080", fmt.Sprintf("port: %d", pp), 1)
		content = strings.Replace(content, "port: 9090", fmt.Sprintf("port: %d", mp), 1)
		content = strings.Replace(content, "port: 9091", fmt.Sprintf("port: %d", ap), 1)
		path := filepath.Join(dir, "bin-"+f)
		os.WriteFile(path, []byte(content), 0o644)
		cmd := exec.Command(bin, "-config", path)
		cmd.Dir = repo
		var out bytes.Buffer
		cmd.Stdout, cmd.Stderr = &out, &out
		if err := cmd.Start(); err != nil {
			t.Fatal(err)
		}
		done := make(chan error, 1)
		go func() { done <- cmd.Wait() }()
		status := ""
		deadline := time.Now().Add(15 * time.Second)
		for time.Now().Before(deadline) && status == "" {
			select {
			case err := <-done:
				status = fmt.Sprintf("exited: %v", err)
			case <-time.After(30 * time.Millisecond):
				c, err := net.DialTimeout("tcp", fmt.Sprintf("127.0.0.1:%d", pp), 300*time.Millisecond)
				if err != nil {
					continue
				}
				fmt.Fprintf(c, "GET / HTTP/1.1\r\nHost: x\r\nConnection: close\r\n\r\n")
				c.SetReadDeadline(time.Now().Add(10 * time.Second))
				buf := make([]byte, 12)
				if n, _ := c.Read(buf); n >= 12 && strings.HasPrefix(string(buf), "HTTP/1.1 ") {
					status = "answered " + string(buf[9:12])
				} else {
					status = "no HTTP answer"
				}
				c.Close()
			}
		}
		evals++
		outs.Add(f + ":" + status)
		if !strings.HasPrefix(status, "answered") {
			if status == "" {
				status = "neither answered nor exited within 15s"
			}
			r.Violate("C18/binary-does-not-start-on-shipped-file/"+f, fmt.Sprintf("the real binary on %s (ports moved): %s; output: %s", f, status, lastLines(out.String(), 3)), 1, nil)
		}
		if !strings.HasPrefix(status, "exited") {
			cmd.Process.Kill()
			<-done
		}
	}
	// "an accepted configuration either starts a working proxy or fails with a clear error":
	// configurations the loader accepts but that cannot start (certificate files missing, a
	// plugin that does not exist, the proxy port taken) - with the logging section written out,
	// left out, or partly given - must end the process with a non-zero status and an output
	// that names the reason
	busy, _ := net.Listen("tcp", "127.0.0.1:0")
	busyPort := busy.Addr().(*net.TCPAddr).Port
	defer busy.Close()
	type failing struct {
		name, yaml string
		keywords   []string
	}
	fails := []failing{
		{"tls-files-missing", fmt.Sprintf("server:\n  port: %d\n  tls:\n    enabled: true\n    certFile: /nonexistent/cert.pem\n    keyFile: /nonexistent/key.pem\n", freePort()), []string{"cert", "tls"}},
		{"unknown-plugin", fmt.Sprintf("server:\n  port: %d\nplugins:\n  enabled: true\n  chain:\n    - name: no-such-plugin\n", freePort()), []string{"no-such-plugin", "plugin"}},
		{"proxy-port-taken", fmt.Sprintf("server:\n  port: %d\n", busyPort), []string{"in use", "bind", fmt.Sprint(busyPort)}},
	}
	for _, fc := range fails {
		for lname, logging := range map[string]string{"omitted": "", "level-only": "logging:\n  level: info\n", "format-only": "logging:\n  format: json\n", "both": "logging:\n  level: error\n  format: text\n", "empty-level": "logging:\n  level: \"\"\n"} {
			y := fc.yaml + "backends:\n  - name: b1\n    address: http://127.0.0.1:9\n" + logging
			path := filepath.Join(dir, "fail-"+fc.name+"-"+lname+".yaml")
			os.WriteFile(path, []byte(y), 0o644)
			if _, err := config.LoadConfig(path); err != nil {
				continue // not an accepted configuration: not this clause's business
			}
			cmd := exec.Command(bin, "-config", path)
			cmd.Dir = repo
			var out bytes.Buffer
			cmd.Stdout, cmd.Stderr = &out, &out
			if err := cmd.Start(); err != nil {
				t.Fatal(err)
			}
			done := make(chan error, 1)
			go func() { done <- cmd.Wait() }()
			var werr error
			exited := false
			select {
			case werr = <-done:
				exited = true
			case <-time.After(10 * time.Second):
				cmd.Process.Kill()
				<-done
			}
			evals++
			desc := fmt.Sprintf("accepted configuration that cannot start (%s), logging section %s", fc.name, lname)
			outs.Add(fmt.Sprintf("fail/%s/%s/%v", fc.name, lname, exited))
			named := false
			for _, k := range fc.keywords {
				if strings.Contains(strings.ToLower(out.String()), k) {
					named = true
				}
			}
			switch {
			case !exited:
				r.Violate("C18/unstartable-configuration-keeps-running/"+fc.name, desc+": the process was still running after 10 s; output: "+lastLines(out.String(), 3), 1, nil)
			case werr == nil:
				r.Violate("C18/unstartable-configuration-exits-zero/"+fc.name, desc+": exit status 0; output: "+lastLines(out.String(), 3), 1, nil)
			case !named:
				r.Violate("C18/no-clear-error/"+fc.name, fmt.Sprintf("%s: the process exited (%v) without saying why; its whole output: %q", desc, werr, lastLines(out.String(), 4)), 1, map[string]interface{}{"engine": "P", "test": "TestVerifC18", "yaml": y})
			}
		}
	}
	r.AddScenario(vres.Scenario{Name: "binary-on-shipped-files", Engine: "P", Evaluations: evals, Distinct: int64(outs.N()), Outcomes: outs.N(),
		Rule: "the real binary is started on each shipped file (only the three listening ports moved to free ones) and must answer an HTTP request on the proxy port; on accepted configurations that cannot start it must exit non-zero and name the reason", Bound: "2 files + 3 unstartable configurations x 5 logging sections", Exhaustive: true,
		Sample: outs.Map(), Extra: map[string]interface{}{"wall_s": time.Since(start).Seconds()}})
}

func lastLines(s string, n int) string {
	l := strings.Split(strings.TrimSpace(s), "\n")
	if len(l) > n {
		l = l[len(l)-n:]
	}
	return strings.Join(l, " | ")
}

func TestVerifC18(t *testing.T) {
	r := vres.Open("C18", "W")
	defer func() {
		if err := r.Close(); err != nil {
			t.Fatal(err)
		}
	}()
	dir := t.TempDir()
	shard, _ := shardOf()
	if shard == 0 {
		c18Samples(t, r, dir)
	}
	c18Product(t, r, dir)
	if shard == 1%shardsOfC18() {
		c18PluginNumbers(t, r, dir)
	}
	if shard == 2%shardsOfC18() {
		c18Boundaries(t, r, dir)
	}
	c18Binary(t, r, dir)
	if shard == 3%shardsOfC18() {
		c18Magnitudes(t, r, dir)
	}
	if shard == 4%shardsOfC18() {
		c18Addresses(t, r, dir)
	}
	if shard == 5%shardsOfC18() {
		c18Wiring(t, r, dir)
	}
	if shard == 6%shardsOfC18() {
		c18Listeners(t, r, dir)
	}
}

// c18Listeners: a configuration enables up to three listeners (proxy, metrics, Admin API) and
// names headers the proxy writes. Menus: the metrics path (the documented one, the path the
// metrics server uses itself, relative and odd spellings), every clash of two of the three
// ports, and the ID header names (tokens and non-tokens). Each file the real LoadConfig accepts
// is started with the real binary in front of a real backend; then EVERYTHING the file switches
// on must be there: a proxied request answered 200 by the backend, the metrics document at the
// configured path, the Admin API's health endpoint. Allowed otherwise: the file is refused, or
// the process ends with a non-zero status and no panic trace.
func c18Listeners(t *testing.T, r *vres.Report, dir string) {
	bin := os.Getenv("VERIF_HELIOS_BIN")
	if bin == "" {
		return
	}
	start := time.Now()
	repo := os.Getenv("VERIF_REPO")
	if repo == "" {
		repo = "/repo"
	}
	be := wire.NewBackend("listeners")
	defer be.Close()
	type file struct {
		label                  string
		metricsPath            string
		clash                  string // which two ports are the same ("" = none)
		reqHeader, traceHeader string
		// off: a section that is switched off ("metrics" / "admin"): what it says (a port that
		// another listener uses) is no constraint, the file must load and the rest must work
		off string
	}
	var files []file
	for _, mp := range []string{"/metrics", "/health", "/", "metrics", "/metrics/", "/a b", "//metrics", "/m?x=1", "GET /metrics", "/metrics#x", "/%zz"} {
		files = append(files, file{label: "metrics.path=" + mp, metricsPath: mp})
	}
	for _, c := range []string{"proxy=metrics", "proxy=admin", "metrics=admin"} {
		files = append(files, file{label: "ports:" + c, metricsPath: "/metrics", clash: c})
	}
	for _, c := range [][2]string{{"proxy=metrics", "metrics"}, {"proxy=admin", "admin"}, {"metrics=admin", "metrics"}, {"metrics=admin", "admin"}} {
		files = append(files, file{label: "ports:" + c[0] + "(" + c[1] + " switched off)", metricsPath: "/metrics", clash: c[0], off: c[1]})
	}
	for _, h := range []string{"X-Request-ID", "X Request ID", "X-Request-ID:", "Request\tId", "\u00dcber-Id", "x"} {
		files = append(files, file{label: "request_id.header=" + h, metricsPath: "/metrics", reqHeader: h}, file{label: "trace.header=" + h, metricsPath: "/metrics", traceHeader: h})
	}
	type verdict struct{ outcome, key, what, yaml string }
	res := make([]verdict, len(files))
	var wg sync.WaitGroup
	sem := make(chan struct{}, 8)
	for i, f := range files {
		i, f := i, f
		wg.Add(1)
		sem <- struct{}{}
		go func() {
			defer wg.Done()
			defer func() { <-sem }()
			pp, mp, ap := freePort(), freePort(), freePort()
			switch f.clash {
			case "proxy=metrics":
				mp = pp
			case "proxy=admin":
				ap = pp
			case "metrics=admin":
				ap = mp
			}
			y := fmt.Sprintf("server:\n  port: %d\nbackends:\n  - name: b1\n    address: %s\nmetrics:\n  enabled: %v\n  port: %d\n  path: %q\nadmin_api:\n  enabled: %v\n  port: %d\n", pp, be.URL(), f.off != "metrics", mp, f.metricsPath, f.off != "admin", ap)
			if f.reqHeader != "" || f.traceHeader != "" {
				y += "logging:\n"
				if f.reqHeader != "" {
					y += fmt.Sprintf("  request_id:\n    enabled: true\n    header: %q\n", f.reqHeader)
				}
				if f.traceHeader != "" {
					y += fmt.Sprintf("  trace:\n    enabled: true\n    header: %q\n", f.traceHeader)
				}
			}
			path := filepath.Join(dir, fmt.Sprintf("listeners-%d.yaml", i))
			os.WriteFile(path, []byte(y), 0o644)
			if _, err := config.LoadConfig(path); err != nil {
				res[i] = verdict{outcome: "refused"}
				if f.off != "" {
					res[i] = verdict{"refused", "C18/valid-configuration-rejected/ports", fmt.Sprintf("%s: every documented constraint holds (the section that names the same port is switched off), but the file is refused: %v", f.label, err), y}
				}
				return
			}
			cmd := exec.Command(bin, "-config", path)
			cmd.Dir = repo
			var out bytes.Buffer
			cmd.Stdout, cmd.Stderr = &out, &out
			if err := cmd.Start(); err != nil {
				res[i] = verdict{outcome: "tool", what: err.Error()}
				return
			}
			done := make(chan error, 1)
			go func() { done <- cmd.Wait() }()
			get := func(port int, target string) string {
				c, err := net.DialTimeout("tcp", fmt.Sprintf("127.0.0.1:%d", port), 300*time.Millisecond)
				if err != nil {
					return "no listener"
				}
				defer c.Close()
				fmt.Fprintf(c, "GET %s HTTP/1.1\r\nHost: x\r\nConnection: close\r\n\r\n", target)
				c.SetReadDeadline(time.Now().Add(10 * time.Second))
				b, _ := io.ReadAll(c)
				if len(b) >= 12 && strings.HasPrefix(string(b), "HTTP/1.1 ") {
					st := string(b[9:12])
					if target == "/v1/health" || strings.Contains(string(b), "total_requests") || port == pp {
						return st
					}
					return st + " (not the metrics document)"
				}
				return "no HTTP answer"
			}
			// what the file asks for, at the places the documentation gives
			mt := f.metricsPath
			want := map[string]func() string{
				"proxy":   func() string { return get(pp, "/") },
				"metrics": func() string { return get(mp, (&url.URL{Path: mt}).EscapedPath()) },
				"admin":   func() string { return get(ap, "/v1/health") },
			}
			if f.off == "metrics" {
				delete(want, "metrics")
			}
			if f.off == "admin" {
				delete(want, "admin")
			}
			got := map[string]string{}
			for _, k := range []string{"proxy", "metrics", "admin"} {
				if _, asked := want[k]; !asked {
					got[k] = "200" // switched off: nothing to be there
				}
			}
			exited := ""
			deadline := time.Now().Add(20 * time.Second)
			for time.Now().Before(deadline) && exited == "" {
				select {
				case err := <-done:
					exited = fmt.Sprintf("exited: %v", err)
				case <-time.After(50 * time.Millisecond):
				}
				ok := true
				for k, fn := range want {
					if got[k] != "200" {
						got[k] = fn()
					}
					if got[k] != "200" {
						ok = false
					}
				}
				if ok {
					break
				}
				if time.Since(start) > 0 && got["proxy"] != "no listener" && got["proxy"] != "" && time.Until(deadline) > 17*time.Second {
					// the proxy is up: give the ancillary servers a moment, then stop waiting
					deadline = time.Now().Add(1500 * time.Millisecond)
				}
			}
			if exited == "" {
				cmd.Process.Kill()
				<-done
			}
			o := out.String()
			desc := fmt.Sprintf("%s is accepted by LoadConfig; the real binary", f.label)
			allOK := got["proxy"] == "200" && got["metrics"] == "200" && got["admin"] == "200"
			switch {
			case strings.Contains(o, "panic:") || strings.Contains(o, "goroutine "):
				res[i] = verdict{"crashed", "C18/accepted-configuration-crashes-the-process/" + strings.SplitN(f.label, "=", 2)[0], fmt.Sprintf("%s %s with a Go panic: %s", desc, exited, firstPanic(o)), y}
			case exited == "" && allOK:
				res[i] = verdict{outcome: "works"}
			case strings.HasPrefix(exited, "exited: exit status"):
				res[i] = verdict{outcome: "start-up error"}
			default:
				res[i] = verdict{"half", "C18/accepted-configuration-starts-half-configured/" + strings.SplitN(f.label, "=", 2)[0], fmt.Sprintf("%s runs, but of what the file switches on only part is there: proxied request -> %s, metrics document at %q -> %s, Admin API health -> %s %s", desc, got["proxy"], mt, got["metrics"], got["admin"], exited), y}
			}
		}()
	}
	wg.Wait()
	var outs vres.Outcomes
	for i, v := range res {
		outs.Add(strings.SplitN(files[i].label, "=", 2)[0] + "/" + v.outcome)
		if v.outcome == "tool" {
			t.Fatal(v.what)
		}
		if v.key != "" {
			r.Violate(v.key, v.what, 5, map[string]interface{}{"yaml": v.yaml})
		}
	}
	r.AddScenario(vres.Scenario{Name: "listeners-and-header-names", Engine: "P", Evaluations: int64(len(files)), Distinct: int64(outs.N()), Outcomes: outs.N(),
		Rule:  "one evaluation = one file with proxy, metrics server and Admin API enabled in front of a real backend, loaded with the real LoadConfig and, if accepted, started with the real binary: a proxied request must be answered 200, the metrics document served at the configured path and the Admin API health endpoint answer, or the process must exit non-zero without a panic trace; distinct = (menu, refused / works / start-up error / crashed / half) classes",
		Bound: fmt.Sprintf("%d files: 11 metrics paths, 3 port clashes (and 4 with one of the two sections switched off, which must load), 6 header names for each of the two ID headers", len(files)), Exhaustive: true,
		Extra: map[string]interface{}{"wall_s": time.Since(start).Seconds()}})
}

// c18Wiring: "never starts half-configured" for the settings that are handed on to net/http:
// each timeout of the server section must arrive in the place the documentation names for it
// (read / write / idle on the listening server, backend_read / backend_idle on every backend's
// transport), with its own value, and an omitted one at its documented default. Files give
// all eight settings distinct values, and each one alone with the others omitted; the server is
// built with the real createHTTPServer and the balancer with the real NewLoadBalancer.
func c18Wiring(t *testing.T, r *vres.Report, dir string) {
	start := time.Now()
	names := []string{"read", "write", "idle", "handler", "shutdown", "backend_dial", "backend_read", "backend_idle"}
	defaults := map[string]int{"read": 15, "write": 15, "idle": 60, "backend_read": 30, "backend_idle": 90}
	var files []map[string]int
	all := map[string]int{}
	for i, n := range names {
		all[n] = 101 + i
	}
	files = append(files, all)
	for _, n := range names {
		files = append(files, map[string]int{n: 7}, map[string]int{n: 1})
	}
	files = append(files, map[string]int{})
	// numbers of seconds around and far beyond what a time.Duration can hold (9223372036 s):
	// the product with 10^9 wraps around 2^64 to a negative number, to a small positive one
	// (18446744074 s -> 0.29 s), or to exactly zero (2^62 s) - none of which is the setting
	const maxSec = 9223372036
	for _, n := range names {
		for _, v := range []int{maxSec, maxSec + 1, 18446744074, 20000000000, 1 << 62, 1<<63 - 1} {
			files = append(files, map[string]int{n: v})
		}
	}
	var evals int64
	var outs vres.Outcomes
	for _, set := range files {
		representable := true
		for _, v := range set {
			if v > maxSec {
				representable = false
			}
		}
		y := "server:\n  port: 8080\n"
		if len(set) > 0 {
			y += "  timeouts:\n"
			for _, n := range names {
				if v, ok := set[n]; ok {
					y += fmt.Sprintf("    %s: %d\n", n, v)
				}
			}
		}
		y += "backends:\n  - name: base1\n    address: http://127.0.0.1:9\n  - name: base2\n    address: http://127.0.0.1:10\n"
		cfg, err := c18Load(dir, "wiring.yaml", y)
		evals++
		if err != nil && !representable {
			outs.Add("beyond-a-duration/refused")
			continue
		}
		if err != nil {
			r.Violate("C18/valid-configuration-rejected/timeouts", fmt.Sprintf("timeouts %v: %v", set, err), 5, map[string]interface{}{"yaml": y})
			continue
		}
		if !representable {
			outs.Add("beyond-a-duration/accepted")
			r.Violate("C18/setting-not-in-force/seconds-no-duration-can-hold", fmt.Sprintf("server.timeouts %v is accepted, but no time.Duration holds that many seconds (at most %d): whatever the server runs with (createHTTPServer gives read/write/idle %v/%v/%v), it is not this setting", set, maxSec, createHTTPServer(cfg, nil).ReadTimeout, createHTTPServer(cfg, nil).WriteTimeout, createHTTPServer(cfg, nil).IdleTimeout), 5, map[string]interface{}{"yaml": y})
			continue
		}
		want := func(n string) time.Duration {
			if v, ok := set[n]; ok {
				return time.Duration(v) * time.Second
			}
			return time.Duration(defaults[n]) * time.Second
		}
		srv := createHTTPServer(cfg, nil)
		got := map[string]time.Duration{"read": srv.ReadTimeout, "write": srv.WriteTimeout, "idle": srv.IdleTimeout}
		lb, err := loadbalancer.NewLoadBalancer(cfg)
		if err != nil {
			r.Violate("C18/accepted-configuration-does-not-start/timeouts", fmt.Sprintf("timeouts %v: %v", set, err), 5, map[string]interface{}{"yaml": y})
			continue
		}
		seenBackends := 0
		for i := 0; i < 2; i++ {
			b := lb.NextBackend(httptest.NewRequest("GET", "http://x.test/", nil))
			if b == nil || b.ReverseProxy == nil {
				continue
			}
			if tr, ok := b.ReverseProxy.Transport.(*http.Transport); ok {
				seenBackends++
				got["backend_read@"+b.Name], got["backend_idle@"+b.Name] = tr.ResponseHeaderTimeout, tr.IdleConnTimeout
			}
		}
		lb.Stop()
		if seenBackends == 0 {
			t.Fatal("c18Wiring: no backend transport to inspect")
		}
		for where, g := range got {
			n := where
			if i := strings.Index(n, "@"); i >= 0 {
				n = n[:i]
			}
			outs.Add(fmt.Sprintf("%s/%v", n, g == want(n)))
			if g != want(n) {
				r.Violate("C18/setting-not-in-force/server.timeouts."+n, fmt.Sprintf("server.timeouts %v: %s is documented to be %v here (own value, or the documented default when omitted), the running configuration has %v (%s)", set, n, want(n), g, where), 5, map[string]interface{}{"yaml": y})
			}
		}
	}
	r.AddScenario(vres.Scenario{Name: "timeouts-arrive-where-documented", Engine: "W", Evaluations: evals, Distinct: int64(outs.N()), Outcomes: outs.N(),
		Rule:  "one evaluation = one file loaded with the real LoadConfig, the listening server built with the real createHTTPServer and the balancer with the real NewLoadBalancer; read / write / idle are read off the server, backend_read / backend_idle off every backend's transport; distinct = (setting, as documented) classes",
		Bound: fmt.Sprintf("%d files: all eight timeouts with distinct values, each one alone (7 and 1) with the others omitted, none, and each one alone with 9223372036 s (the most a Duration holds: must be in force) and five larger numbers whose product with 10^9 wraps to a negative, a small positive or a zero Duration (must be refused)", len(files)), Exhaustive: true,
		Extra: map[string]interface{}{"wall_s": time.Since(start).Seconds()}})
}

// c18Addresses: the ways an operator may write the address of one and the same backend (a
// real server on a loopback port), right and wrong: with and without scheme, other schemes,
// scheme in capitals, missing slashes, trailing slash and path, surrounding blanks, no host, a
// bad port. Each file goes through the real LoadConfig and, if accepted, is started like main()
// does behind a real listener; then one request is sent. The statement allows: the file is
// refused (or start-up fails) with an error, or the proxy works - the request reaches that
// server and its answer comes back. A proxy that starts and cannot reach the backend it was
// given is half-configured.
func c18Addresses(t *testing.T, r *vres.Report, dir string) {
	start := time.Now()
	be := wire.NewBackend("addr")
	defer be.Close()
	hp := be.Addr() // 127.0.0.1:port
	port := hp[strings.LastIndex(hp, ":")+1:]
	spellings := []string{
		"http://" + hp, "http://" + hp + "/", "HTTP://" + hp, "Http://" + hp, "http://localhost:" + port, "http://LOCALHOST:" + port,
		hp, "localhost:" + port, "//" + hp, "http:/" + hp, "http:" + hp, "http//" + hp, "://" + hp, "tcp://" + hp, "ftp://" + hp, "ws://" + hp, "h2c://" + hp,
		" http://" + hp, "http://" + hp + " ", "http://", "http:///", "http://:" + port, "http://" + hp + ":1", "http://127.0.0.1:port", "http://127.0.0.1:99999", "http://[" + hp + "]",
		"http://user@" + hp, "http://" + hp + "?x=1", "http://" + hp + "#frag", "unix:///tmp/sock", "127.0.0.1", "localhost",
	}
	// the form the README and the shipped files use: http://host:port (with or without the slash)
	documented := map[string]bool{"http://" + hp: true, "http://" + hp + "/": true, "http://localhost:" + port: true}
	var evals int64
	var outs vres.Outcomes
	for _, a := range spellings {
		evals++
		y := fmt.Sprintf("server:\n  port: 8080\nbackends:\n  - name: base1\n    address: %q\n", a)
		cfg, err := c18Load(dir, "addr.yaml", y)
		if err != nil {
			outs.Add("refused")
			if documented[a] {
				r.Violate("C18/valid-configuration-rejected/backend-address", fmt.Sprintf("backend address %q is written the way the documentation and the shipped files write it, but the file is refused: %v", a, err), 5, map[string]interface{}{"yaml": y})
			}
			continue
		}
		before := be.HitCount()
		outcome, what := func() (o, w string) {
			defer func() {
				if p := recover(); p != nil {
					o, w = "panic", fmt.Sprintf("start-up panics: %v", p)
				}
			}()
			h, err := startHelios(cfg)
			if err != nil {
				return "start-up error", ""
			}
			defer h.stop()
			c, err := wire.Dial(h.addr)
			if err != nil {
				return "tool", "dial: " + err.Error()
			}
			defer c.Close()
			resp := c.Do(&wire.Request{Method: "GET", Target: "/", Header: []wire.HeaderLine{{"Host", "helios.test"}, {"Connection", "close"}}}, 15*time.Second)
			if resp.Err == "" && resp.Status == 200 && be.HitCount() == before+1 {
				return "works", ""
			}
			return "half-configured", fmt.Sprintf("the proxy starts, and a request is answered %d %s (the backend at %s received %d request(s))", resp.Status, resp.Err, hp, be.HitCount()-before)
		}()
		outs.Add(outcome)
		if documented[a] && outcome != "works" {
			r.Violate("C18/valid-configuration-rejected/backend-address", fmt.Sprintf("backend address %q is written the way the documentation and the shipped files write it, but: %s %s", a, outcome, what), 5, map[string]interface{}{"yaml": y})
			continue
		}
		switch outcome {
		case "tool":
			t.Fatal(what)
		case "panic":
			r.Violate("C18/accepted-configuration-panics/backend-address", fmt.Sprintf("backend address %q is accepted by LoadConfig; %s", a, what), 5, map[string]interface{}{"yaml": y})
		case "half-configured":
			r.Violate("C18/accepted-configuration-starts-half-configured/backend-address", fmt.Sprintf("backend address %q (for the server at %s) is accepted by LoadConfig; %s", a, hp, what), 5, map[string]interface{}{"yaml": y})
		}
	}
	r.AddScenario(vres.Scenario{Name: "backend-address-spellings", Engine: "W", Evaluations: evals, Distinct: int64(outs.N()), Outcomes: outs.N(),
		Rule:  "one evaluation = one file whose only backend address is one spelling (right or wrong) of a real server's address, loaded with the real LoadConfig and, if accepted, started like main() does and sent one request; allowed: refused / start-up error / the request reaches that server; distinct = outcome classes",
		Bound: fmt.Sprintf("%d spellings (with and without scheme, other schemes, capitals, missing slashes, blanks, no host, bad port, userinfo, query, fragment)", len(spellings)), Exhaustive: true,
		Extra: map[string]interface{}{"wall_s": time.Since(start).Seconds()}})
}

// c18Magnitudes: the numeric fields that have no documented upper limit, with values of large
// magnitude: around 2^31, 2^53, the largest number of seconds a time.Duration can hold
// (9223372036) and the first that overflows it, and the largest 64-bit integer. The statement
// allows two outcomes for a file: it is refused with a clear error, or the process it starts is
// a working proxy. Each file the real LoadConfig accepts is therefore given to the real binary,
// which must answer on the proxy port and still be running shortly after, or end with a
// non-zero status and an error message - not with a Go panic trace, and not hang.
func c18Magnitudes(t *testing.T, r *vres.Report, dir string) {
	bin := os.Getenv("VERIF_HELIOS_BIN")
	if bin == "" {
		return
	}
	start := time.Now()
	repo := os.Getenv("VERIF_REPO")
	if repo == "" {
		repo = "/repo"
	}
	// (18446744074 and 2^62: as numbers of seconds their product with 10^9 wraps around 2^64 to a
	// small positive Duration and to zero - an overflow that a sign test does not see)
	values := []int{1<<31 - 1, 1 << 31, 9223372036, 9223372037, 18446744074, 1 << 62, 1<<63 - 1}
	if vres.Thorough() {
		values = append(values, 1<<32, 1<<53, 1<<53+1, 9223372035, 9223372038, 20000000000, 1<<63-2)
	}
	type job struct {
		f c18Field
		v int
	}
	var jobs []job
	for _, f := range c18NumericFields() {
		if f.hi != 0 {
			continue
		}
		for _, v := range values {
			jobs = append(jobs, job{f, v})
		}
	}
	type verdict struct{ outcome, key, what, yaml string }
	res := make([]verdict, len(jobs))
	var wg sync.WaitGroup
	sem := make(chan struct{}, 8)
	for i, j := range jobs {
		i, j := i, j
		wg.Add(1)
		sem <- struct{}{}
		go func() {
			defer wg.Done()
			defer func() { <-sem }()
			pp := freePort()
			y, err := mergeYAML(strings.Replace(c18Base, "port: 8080", fmt.Sprintf("port: %d", pp), 1), fmt.Sprintf(j.f.tmpl, j.v))
			if err != nil {
				res[i] = verdict{outcome: "tool", what: err.Error()}
				return
			}
			path := filepath.Join(dir, fmt.Sprintf("mag-%d.yaml", i))
			os.WriteFile(path, []byte(y), 0o644)
			if _, err := config.LoadConfig(path); err != nil {
				res[i] = verdict{outcome: "refused"}
				return
			}
			cmd := exec.Command(bin, "-config", path)
			cmd.Dir = repo
			var out bytes.Buffer
			cmd.Stdout, cmd.Stderr = &out, &out
			if err := cmd.Start(); err != nil {
				res[i] = verdict{outcome: "tool", what: err.Error()}
				return
			}
			done := make(chan error, 1)
			go func() { done <- cmd.Wait() }()
			status := ""
			deadline := time.Now().Add(20 * time.Second)
			for time.Now().Before(deadline) && status == "" {
				select {
				case err := <-done:
					status = fmt.Sprintf("exited: %v", err)
				case <-time.After(30 * time.Millisecond):
					c, err := net.DialTimeout("tcp", fmt.Sprintf("127.0.0.1:%d", pp), 300*time.Millisecond)
					if err != nil {
						continue
					}
					fmt.Fprintf(c, "GET / HTTP/1.1\r\nHost: x\r\nConnection: close\r\n\r\n")
					c.SetReadDeadline(time.Now().Add(15 * time.Second))
					buf := make([]byte, 12)
					if n, _ := io.ReadFull(c, buf); n >= 12 && strings.HasPrefix(string(buf), "HTTP/1.1 ") {
						status = "answered " + string(buf[9:12])
					} else {
						status = "accepted the connection but gave no HTTP answer"
					}
					c.Close()
				}
			}
			if strings.HasPrefix(status, "answered") {
				// a working proxy is still there a moment later
				select {
				case err := <-done:
					status = fmt.Sprintf("answered once, then exited: %v", err)
				case <-time.After(400 * time.Millisecond):
				}
			}
			if !strings.Contains(status, "exited") {
				cmd.Process.Kill()
				<-done
			}
			o := out.String()
			desc := fmt.Sprintf("%s = %d is accepted by LoadConfig; the real binary", j.f.name, j.v)
			switch {
			case strings.Contains(o, "panic:") || strings.Contains(o, "goroutine "):
				res[i] = verdict{"crashed", "C18/accepted-configuration-crashes-the-process/" + j.f.name, fmt.Sprintf("%s %s with a Go panic: %s", desc, status, firstPanic(o)), y}
			case strings.HasPrefix(status, "answered") && !strings.Contains(status, "exited"):
				res[i] = verdict{outcome: "works"}
			case strings.HasPrefix(status, "exited: exit status"):
				res[i] = verdict{outcome: "start-up error"}
			default:
				if status == "" {
					status = "neither answered nor exited within 20 s"
				}
				res[i] = verdict{"broken", "C18/accepted-configuration-neither-works-nor-fails/" + j.f.name, fmt.Sprintf("%s: %s; output: %s", desc, status, lastLines(o, 3)), y}
			}
		}()
	}
	wg.Wait()
	var outs vres.Outcomes
	for i, v := range res {
		outs.Add(jobs[i].f.name + "/" + v.outcome)
		if v.outcome == "tool" {
			t.Fatal(v.what)
		}
		if v.key != "" {
			r.Violate(v.key, v.what, 5, map[string]interface{}{"yaml": v.yaml})
		}
	}
	r.AddScenario(vres.Scenario{Name: "large-magnitudes", Engine: "P", Evaluations: int64(len(jobs)), Distinct: int64(outs.N()), Outcomes: outs.N(),
		Rule:  "one evaluation = one file (minimal valid base + one numeric field without a documented upper limit at a large value) loaded with the real LoadConfig and, if accepted, started with the real binary: it must answer on the proxy port and keep running, or exit non-zero without a panic trace; distinct = (field, refused / works / start-up error / crashed / broken) classes",
		Bound: fmt.Sprintf("%d numeric fields x %d magnitudes (2^31-1, 2^31, 9223372036 = the most seconds a Duration holds, 9223372037, 18446744074, 2^62, 2^63-1%s)", len(jobs)/len(values), len(values), map[bool]string{true: ", 2^32, 2^53, 2^53+1, 9223372035, 9223372038, 20000000000, 2^63-2"}[vres.Thorough()]), Exhaustive: true,
		Extra: map[string]interface{}{"wall_s": time.Since(start).Seconds()}})
}

// firstPanic cuts the output down to the panic message.
func firstPanic(o string) string {
	if i := strings.Index(o, "panic:"); i >= 0 {
		o = o[i:]
	}
	return strings.TrimSpace(strings.SplitN(o, "\n", 2)[0])
}

func shardsOfC18() int {
	_, n := shardOf()
	if n < 1 {
		return 1
	}
	return n
}

// c18PluginNumbers: numeric plugin options in every way YAML writes a number - integers of
// several magnitudes, floats with a zero fraction, floats in exponent notation (what an
// emitter prints for 1e6 and above) - for every numeric option of the built-in plugins. A
// spelling of a documented-valid value must load and build; a value that violates the
// option's documented constraint (non-positive limit, level outside -1..9, not a number)
// must prevent start-up.
func c18PluginNumbers(t *testing.T, r *vres.Report, dir string) {
	start := time.Now()
	var evals int64
	var outs vres.Outcomes
	type opt struct {
		plugin, key string
		rest        string   // the plugin's other mandatory options
		valid       []string // spellings of valid values
		invalid     []string
	}
	magnitudes := []string{"1", "64", "1024", "65536", "999999", "1000000", "1048576", "10485760", "52428800", "2147483648",
		"1.0", "1024.0", "999999.0", "1000000.0", "1048576.0", "2097152.0", "1e3", "1e6", "1.5e6", "1e+06", "1.048576e+06", "2.097152e+06", "1e7", "5.24288e+07", "1E6", "0x400", "0o2000", "1_000_000"}
	opts := []opt{
		{plugin: "gzip", key: "min_size", rest: "        level: 5\n        content_types: [\"text/\"]\n", valid: append([]string{"0", "0.0"}, magnitudes...), invalid: []string{"abc", "[1]", "true", "~", "1e19", "1e300", "9223372036854775808"}},
		{plugin: "gzip", key: "level", rest: "        min_size: 64\n        content_types: [\"text/\"]\n", valid: []string{"-1", "0", "1", "5", "9", "-1.0", "0.0", "5.0", "9.0", "9e0", "0x9"}, invalid: []string{"10", "-2", "10.0", "1e1", "100", "abc", "~", "1e19", "-1e19"}},
		{plugin: "size_limit", key: "max_request_body", rest: "", valid: magnitudes, invalid: []string{"0", "-1", "0.0", "-1024.0", "-1e6", "abc", "true", "1e19", "1e300"}},
		{plugin: "size_limit", key: "max_response_body", rest: "", valid: magnitudes, invalid: []string{"0", "-1", "0.0", "-1024.0", "-1e6", "abc", "true", "1e19", "1e300"}},
	}
	for _, o := range opts {
		rest := o.rest
		for vi, group := range [][]string{o.valid, o.invalid} {
			for _, val := range group {
				y := c18Base + "plugins:\n  enabled: true\n  chain:\n    - name: " + o.plugin + "\n      config:\n        " + o.key + ": " + val + "\n" + rest
				evals++
				cfg, err := c18Load(dir, "num.yaml", y)
				if err == nil {
					err = c18Build(cfg)
				}
				desc := fmt.Sprintf("%s.%s: %s", o.plugin, o.key, val)
				outs.Add(fmt.Sprintf("%s.%s/%v/%v", o.plugin, o.key, vi == 0, err == nil))
				if vi == 0 && err != nil {
					r.Violate("C18/valid-plugin-number-rejected/"+o.plugin+"."+o.key, fmt.Sprintf("%s is a valid value as YAML writes it, but start-up fails: %v", desc, err), len(val), map[string]interface{}{"yaml": y})
				}
				if vi == 1 && err == nil {
					r.Violate("C18/invalid-plugin-number-accepted/"+o.plugin+"."+o.key, fmt.Sprintf("%s violates the option's documented constraint, but the configuration loads and the chain builds", desc), len(val), map[string]interface{}{"yaml": y})
				}
			}
		}
	}
	r.AddScenario(vres.Scenario{Name: "plugin-number-spellings", Engine: "W", Evaluations: evals, Distinct: int64(outs.N()), Outcomes: outs.N(),
		Rule:  "one evaluation = one configuration file loaded with the real LoadConfig and built like main() does; distinct = (option, presented as valid, accepted) classes",
		Bound: "4 numeric plugin options x every listed spelling (integers up to 2^31, zero-fraction floats, exponent notation, hex / octal / underscore integers) + the values each option documents as invalid and numbers too large for the machine's integers (1e19, 1e300, 2^63), which would otherwise wrap around", Exhaustive: true,
		Extra: map[string]interface{}{"wall_s": time.Since(start).Seconds()}})
}

type c18Field struct {
	name string
	tmpl string // YAML fragment with one %d
	lo   int    // smallest valid value
	hi   int    // largest valid value (0 = unbounded)
}

func c18NumericFields() []c18Field {
	fields := []c18Field{
		{"server.port", "server:\n  port: %d\n", 1, 65535},
		{"metrics.port", "metrics:\n  enabled: true\n  port: %d\n  path: /metrics\n", 1, 65535},
		{"admin_api.port", "admin_api:\n  enabled: true\n  port: %d\n", 1, 65535},
		{"backends.weight", "backends:\n  - name: base1\n    address: http://127.0.0.1:9\n    weight: %d\n", 0, 0},
		{"websocket_pool.max_idle", "load_balancer:\n  websocket_pool:\n    enabled: true\n    max_idle: %d\n", 0, 0},
		{"websocket_pool.max_active", "load_balancer:\n  websocket_pool:\n    enabled: true\n    max_active: %d\n", 0, 0},
		{"websocket_pool.idle_timeout_seconds", "load_balancer:\n  websocket_pool:\n    enabled: true\n    idle_timeout_seconds: %d\n", 0, 0},
		{"websocket_pool.max_idle (max_active 5)", "load_balancer:\n  websocket_pool:\n    enabled: true\n    max_active: 5\n    max_idle: %d\n", 0, 5},
		{"active.interval (timeout 1)", "health_checks:\n  active:\n    enabled: true\n    timeout: 1\n    path: /health\n    interval: %d\n", 2, 0},
		{"active.timeout (interval 4)", "health_checks:\n  active:\n    enabled: true\n    interval: 4\n    path: /health\n    timeout: %d\n", 1, 3},
		{"passive.unhealthy_threshold", "health_checks:\n  passive:\n    enabled: true\n    unhealthy_timeout: 30\n    unhealthy_threshold: %d\n", 1, 0},
		{"passive.unhealthy_timeout", "health_checks:\n  passive:\n    enabled: true\n    unhealthy_threshold: 3\n    unhealthy_timeout: %d\n", 1, 0},
		{"rate_limit.max_tokens", "rate_limit:\n  enabled: true\n  refill_rate_seconds: 1\n  max_tokens: %d\n", 1, 0},
		{"rate_limit.refill_rate_seconds", "rate_limit:\n  enabled: true\n  max_tokens: 10\n  refill_rate_seconds: %d\n", 1, 0},
		{"circuit_breaker.failure_threshold", "circuit_breaker:\n  enabled: true\n  success_threshold: 1\n  timeout_seconds: 5\n  interval_seconds: 5\n  failure_threshold: %d\n", 1, 0},
		{"circuit_breaker.success_threshold", "circuit_breaker:\n  enabled: true\n  failure_threshold: 1\n  timeout_seconds: 5\n  interval_seconds: 5\n  success_threshold: %d\n", 1, 0},
		{"circuit_breaker.timeout_seconds", "circuit_breaker:\n  enabled: true\n  failure_threshold: 1\n  success_threshold: 1\n  interval_seconds: 5\n  timeout_seconds: %d\n", 1, 0},
		{"circuit_breaker.interval_seconds", "circuit_breaker:\n  enabled: true\n  failure_threshold: 1\n  success_threshold: 1\n  timeout_seconds: 5\n  interval_seconds: %d\n", 1, 0},
		{"circuit_breaker.max_requests", "circuit_breaker:\n  enabled: true\n  failure_threshold: 1\n  success_threshold: 1\n  timeout_seconds: 5\n  interval_seconds: 5\n  max_requests: %d\n", 0, 0},
	}
	for _, tn := range []string{"read", "write", "idle", "handler", "shutdown", "backend_dial", "backend_read", "backend_idle"} {
		fields = append(fields, c18Field{"server.timeouts." + tn, "server:\n  timeouts:\n    " + tn + ": %d\n", 0, 0})
	}
	return fields
}

// c18Boundaries: every documented numeric constraint at its edges, one field at a time over an
// otherwise valid file: the last invalid value, the first valid one, its neighbour, and for
// bounded ranges the last valid value and the first invalid one above it.
func c18Boundaries(t *testing.T, r *vres.Report, dir string) {
	start := time.Now()
	var evals int64
	var outs vres.Outcomes
	fields := c18NumericFields()
	for _, f := range fields {
		vals := map[int]bool{f.lo - 1: false, f.lo: true, f.lo + 1: true}
		if f.hi > 0 {
			vals[f.hi-1], vals[f.hi], vals[f.hi+1] = f.hi-1 >= f.lo, true, false
		} else {
			vals[f.lo+1000] = true
		}
		for v, valid := range vals {
			y, err := mergeYAML(c18Base, fmt.Sprintf(f.tmpl, v))
			if err != nil {
				t.Fatal(err)
			}
			evals++
			cfg, err := c18Load(dir, "edge.yaml", y)
			if err == nil && valid {
				// a value the documentation allows must also start
				err = c18Build(cfg)
			}
			outs.Add(fmt.Sprintf("%s/%v/%v", f.name, valid, err == nil))
			if valid && err != nil {
				r.Violate("C18/valid-configuration-rejected/boundary/"+f.name, fmt.Sprintf("%s = %d is inside the documented range but the configuration is refused: %v", f.name, v, err), 5, map[string]interface{}{"yaml": y})
			}
			if !valid && err == nil {
				r.Violate("C18/invalid-configuration-accepted/boundary/"+f.name, fmt.Sprintf("%s = %d is outside the documented range but LoadConfig accepts the file", f.name, v), 5, map[string]interface{}{"yaml": y})
			}
		}
	}
	r.AddScenario(vres.Scenario{Name: "constraint-boundaries", Engine: "W", Evaluations: evals, Distinct: int64(outs.N()), Outcomes: outs.N(),
		Rule:  "one evaluation = one file (minimal valid base + one field at an edge of its documented range) loaded with the real LoadConfig and, if valid, built like main() does; distinct = (field, valid, accepted) classes",
		Bound: fmt.Sprintf("%d numeric fields x {lo-1, lo, lo+1} and, where bounded, {hi-1, hi, hi+1}", len(fields)), Exhaustive: true,
		Extra: map[string]interface{}{"wall_s": time.Since(start).Seconds()}})
}
