package ratelimiter

// VerifCleanup exposes the hourly cleanup to harnesses in other packages (overlay only).
func (rl *TokenBucketRateLimiter) VerifCleanup() { rl.cleanup() }
