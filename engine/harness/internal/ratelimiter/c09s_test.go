package ratelimiter

import (
	"fmt"
	"testing"
	"time"

	"github.com/0xReLogic/Helios/internal/zzverif/vh"
	"github.com/0xReLogic/Helios/internal/zzverif/vres"
	"github.com/0xReLogic/Helios/internal/zzverif/vrt"
)

// C09 (schedules): concurrent arrivals of one client at one frozen instant. Whatever the
// interleaving, the number admitted equals what any sequential order admits: min(arrivals,
// tokens available) — no double spend (upper bound: burst clause) and no lost token
// (lower bound: new-client and idle-refill clauses).

type c09sParams struct {
	Max     int
	Mode    string // existing (bucket exists, refilled), first (no bucket yet), cleanup (idle > 1h, hourly cleanup runs concurrently)
	Threads int
	Each    int
}

func c09sScenario(p c09sParams, bound int) vh.SScenario {
	return vh.SScenario{Name: fmt.Sprintf("limiter-conc-%s-max%d-%dx%d", p.Mode, p.Max, p.Threads, p.Each), KeyPrefix: "C09/conc", Bound: bound, Params: p,
		Body: func(x *vh.Exec) {
			s := x.S
			rl := NewTokenBucketRateLimiter(p.Max, time.Second)
			const ip = "10.0.0.1"
			switch p.Mode {
			case "existing":
				rl.Allow(ip)
				s.AdvanceQuiet(time.Duration(p.Max)*time.Second + 300*time.Millisecond)
			case "cleanup":
				rl.Allow(ip)
				s.AdvanceQuiet(time.Hour + 10*time.Minute + 300*time.Millisecond)
			}
			admitted := 0
			total := p.Threads * p.Each
			want := total
			if p.Max < want {
				want = p.Max
			}
			x.Check = func(v vrt.Verdict) (string, string, string, bool) {
				out := fmt.Sprintf("admitted=%d", admitted)
				if v.Kind != vrt.OK {
					return out, "", "", false
				}
				if admitted > want {
					return out, "C09/conc/double-spend/" + p.Mode, fmt.Sprintf("%d of %d simultaneous arrivals of one client admitted with max_tokens=%d (mode %s)", admitted, total, p.Max, p.Mode), true
				}
				if admitted < want {
					return out, "C09/conc/lost-token/" + p.Mode, fmt.Sprintf("only %d of %d simultaneous arrivals admitted although %d tokens were available (mode %s)", admitted, total, want, p.Mode), true
				}
				return out, "", "", true
			}
			s.Branch(true)
			var ths []*vrt.Thread
			for i := 0; i < p.Threads; i++ {
				ths = append(ths, s.Spawn(fmt.Sprintf("client%d", i), func() {
					for j := 0; j < p.Each; j++ {
						if rl.Allow(ip) {
							admitted++
						}
					}
				}))
			}
			if p.Mode == "cleanup" {
				ths = append(ths, s.Spawn("cleanup", func() { rl.cleanup() }))
			}
			s.Join(ths...)
		}}
}

func TestVerifC09S(t *testing.T) {
	r := vres.Open("C09", racePart("S"))
	defer func() {
		if err := r.Close(); err != nil {
			t.Fatal(err)
		}
	}()
	if vres.ReplayPath() != "" {
		var rp vh.SReplay
		var p c09sParams
		rp.Params = &p
		if err := vres.LoadReplay(&rp); err != nil {
			t.Fatal(err)
		}
		vh.ReplayS(c09sScenario(p, 0), rp.Choices)
		return
	}
	bound := 2
	if vres.Thorough() {
		bound = 3
	}
	var scs []vh.SScenario
	for _, mode := range []string{"existing", "first", "cleanup"} {
		for max := 1; max <= 2; max++ {
			scs = append(scs, c09sScenario(c09sParams{Max: max, Mode: mode, Threads: 2, Each: 2}, bound))
			if vres.Thorough() {
				scs = append(scs, c09sScenario(c09sParams{Max: max, Mode: mode, Threads: 3, Each: 1}, bound))
				scs = append(scs, c09sScenario(c09sParams{Max: max + 1, Mode: mode, Threads: 3, Each: 2}, 2))
			}
		}
	}
	for i, sc := range scs {
		if vh.MyShard(i) {
			vh.RunS(r, "TestVerifC09S", sc)
		}
	}
}
