package ratelimiter

import (
	"fmt"
	"sort"
	"strings"
	"testing"
	"time"

	"github.com/0xReLogic/Helios/internal/zzverif/vh"
	"github.com/0xReLogic/Helios/internal/zzverif/vres"
	"github.com/0xReLogic/Helios/internal/zzverif/vrt"
)

// C09 (linearizability from every reachable state). Every limiter state reachable by a short
// history of arrivals and clock steps is the start of 2-3 overlapping operations (arrivals of
// the same or of different clients, the hourly cleanup) at one frozen instant, under every
// schedule up to the preemption bound. Reference: the limiter itself run sequentially - the
// answers to the overlapping arrivals together with the answers to a fixed follow-up script
// must equal what some sequential order of the same operations produces.

var c09lEvents = []string{"A", "B", "+0.6s", "+1s", "+61m"}

type c09lInst struct {
	s   *vrt.Sched
	rl  *TokenBucketRateLimiter
	max int
}

func (in *c09lInst) Step(ev int) *vh.HViol {
	switch ev {
	case 0:
		in.rl.Allow("A")
	case 1:
		in.rl.Allow("B")
	case 2:
		in.s.AdvanceQuiet(600 * time.Millisecond)
	case 3:
		in.s.AdvanceQuiet(time.Second)
	case 4:
		in.s.AdvanceQuiet(61 * time.Minute)
	}
	return nil
}

// Fingerprint: the limiter's whole state, instants relative to the virtual clock (reflective,
// so that it does not depend on field names); ages beyond the one-hour cleanup cutoff merge.
func (in *c09lInst) Fingerprint() string {
	return vh.FingerprintClip(62*time.Minute, in.rl)
}

func c09lSpec(max, depth int) vh.HSpec {
	return vh.HSpec{Name: fmt.Sprintf("limiter-states-max%d", max), Events: c09lEvents, Depth: depth,
		New: func(s *vrt.Sched) vh.HInstance {
			return &c09lInst{s: s, rl: NewTokenBucketRateLimiter(max, time.Second), max: max}
		}}
}

type c09lParams struct {
	Max    int
	Prefix []int
	Ops    string // A / B = arrival of that client, C = cleanup
}

var c09lFollow = []int{0, 0, 1, 3, 0, 1, 0}

func c09lApply(in *c09lInst, op byte) string {
	switch op {
	case 'A':
		return fmt.Sprint(in.rl.Allow("A"))
	case 'B':
		return fmt.Sprint(in.rl.Allow("B"))
	}
	in.rl.cleanup()
	return "-"
}

func c09lFollowUp(in *c09lInst) string {
	out := ""
	for _, ev := range c09lFollow {
		switch ev {
		case 0:
			out += fmt.Sprint(in.rl.Allow("A"))[:1]
		case 1:
			out += fmt.Sprint(in.rl.Allow("B"))[:1]
		default:
			in.Step(ev)
		}
	}
	return out
}

func permutations(n int) [][]int {
	var out [][]int
	var rec func(cur []int, used int)
	rec = func(cur []int, used int) {
		if len(cur) == n {
			out = append(out, append([]int(nil), cur...))
			return
		}
		for i := 0; i < n; i++ {
			if used&(1<<i) == 0 {
				rec(append(cur, i), used|1<<i)
			}
		}
	}
	rec(nil, 0)
	return out
}

func c09lScenario(r *vres.Report, p c09lParams, bound int) vh.SScenario {
	sp := c09lSpec(p.Max, 0)
	// reference: every sequential order of the operations
	ref := map[string]bool{}
	for _, perm := range permutations(len(p.Ops)) {
		res := make([]string, len(p.Ops))
		follow := ""
		vh.RunSeq(r, "C09/lin/reference", func(s *vrt.Sched) {
			in := sp.New(s).(*c09lInst)
			for _, e := range p.Prefix {
				in.Step(e)
			}
			for _, i := range perm {
				res[i] = c09lApply(in, p.Ops[i])
			}
			follow = c09lFollowUp(in)
		})
		ref[strings.Join(res, ",")+"|"+follow] = true
	}
	names := make([]string, len(p.Prefix))
	for i, e := range p.Prefix {
		names[i] = c09lEvents[e]
	}
	return vh.SScenario{Name: fmt.Sprintf("limiter-lin-max%d-from%v-%s", p.Max, names, p.Ops), KeyPrefix: "C09/lin", Bound: bound, Params: p,
		Body: func(x *vh.Exec) {
			s := x.S
			in := sp.New(s).(*c09lInst)
			for _, e := range p.Prefix {
				in.Step(e)
			}
			res := make([]string, len(p.Ops))
			key, what, out := "", "", ""
			x.Check = func(v vrt.Verdict) (string, string, string, bool) {
				if v.Kind != vrt.OK {
					return out, "", "", false
				}
				return out, key, what, true
			}
			s.Branch(true)
			var ths []*vrt.Thread
			for i := range p.Ops {
				i := i
				ths = append(ths, s.Spawn(fmt.Sprintf("op%d(%c)", i, p.Ops[i]), func() { res[i] = c09lApply(in, p.Ops[i]) }))
			}
			s.Join(ths...)
			s.Branch(false)
			out = strings.Join(res, ",") + "|" + c09lFollowUp(in)
			if !ref[out] {
				var want []string
				for k := range ref {
					want = append(want, k)
				}
				sort.Strings(want)
				key = "C09/lin/not-explained-by-any-sequential-order"
				what = fmt.Sprintf("max_tokens=%d, state after %v, overlapping operations %s: answers|follow-up = %s; sequential orders give %v", p.Max, names, p.Ops, out, want)
			}
		}}
}

func TestVerifC09Lin(t *testing.T) {
	r := vres.Open("C09", racePart("Lin"))
	defer func() {
		if err := r.Close(); err != nil {
			t.Fatal(err)
		}
	}()
	if vres.ReplayPath() != "" {
		var rp vh.SReplay
		var p c09lParams
		rp.Params = &p
		if err := vres.LoadReplay(&rp); err != nil {
			t.Fatal(err)
		}
		vh.ReplayS(c09lScenario(r, p, 0), rp.Choices)
		return
	}
	depth, bound := 4, 2
	ops := []string{"AA", "AB", "AC", "AAC", "ABC"}
	maxes := []int{1, 2}
	if vres.Thorough() {
		depth, bound = 4, 3
		ops = append(ops, "AAA", "AAB", "AABC")
		maxes = []int{1, 2, 3}
	}
	if vrt.RaceBuild {
		depth = 3 // the race build repeats the exploration for the detector's sake: fewer start states
	}
	i := 0
	for _, max := range maxes {
		for _, pre := range vh.ReachableH(c09lSpec(max, depth)) {
			for _, o := range ops {
				if vh.MyShard(i) {
					b := bound
					if len(o) > 2 {
						b = 2
					}
					vh.RunS(r, "TestVerifC09Lin", c09lScenario(r, c09lParams{Max: max, Prefix: pre, Ops: o}, b))
				}
				i++
			}
		}
	}
}
