package ratelimiter

import (
	"fmt"
	"strings"
	"testing"
	"time"

	"github.com/0xReLogic/Helios/internal/zzverif/vh"
	"github.com/0xReLogic/Helios/internal/zzverif/vres"
	"github.com/0xReLogic/Helios/internal/zzverif/vrt"
)

// C09 (histories): every arrival history up to a depth is run on the real Allow under the
// virtual clock; the oracles are the bounds of the statement, not a particular algorithm:
//   window:    for every pair of arrivals i<=j of one client, admitted(i..j) <= max + floor((tj-ti)/refill) + 1
//   newburst:  the first max arrivals of a client are admitted
//   idle:      after a gap of >= k periods without arrivals of that client the next min(k,max) arrivals are admitted
//   isolation: a client's outcomes equal those in the history with the other clients' arrivals deleted

// the refill period of the run (1 s except for the step sets that say otherwise)
var c09Refill = time.Second

// c09Sweep in a step set stands for one pass of the limiter's own cleanup sweep (the
// background routine that forgets buckets nobody has used for an hour) instead of a clock step
const c09Sweep = time.Duration(-1)

// clock steps of the history alphabet: the coarse set reaches idle periods of several refills,
// the fine set paces arrivals at fractions of one refill period (0.3, 0.6, 0.9, 1.2 ...)
var c09StepSets = map[string][]time.Duration{
	"coarse": {400 * time.Millisecond, time.Second, 3100 * time.Millisecond},
	"fine":   {300 * time.Millisecond, 600 * time.Millisecond, time.Second},
	// slow refills: the period is long compared with the hour after which the cleanup sweep
	// forgets a bucket (20 min: five tokens take 100 min to come back; 2 h: longer than the hour)
	"sweep-20min": {8 * time.Minute, 20 * time.Minute, 61 * time.Minute, c09Sweep},
	"sweep-2h":    {48 * time.Minute, 61 * time.Minute, 2 * time.Hour, c09Sweep},
	"sweep-1s":    {400 * time.Millisecond, time.Second, 61 * time.Minute, c09Sweep},
}

var c09RefillOf = map[string]time.Duration{"sweep-20min": 20 * time.Minute, "sweep-2h": 2 * time.Hour}
var c09Steps = c09StepSets["coarse"]

func c09UseSteps(name string) {
	if name == "" {
		name = "coarse"
	}
	c09Steps = c09StepSets[name]
	c09Refill = time.Second
	if p, ok := c09RefillOf[name]; ok {
		c09Refill = p
	}
}

type c09Arr struct {
	t  time.Duration
	ok bool
}

// c09Run executes one history on a fresh limiter; events: 0..nc-1 arrivals of client i, nc.. clock steps.
func c09Run(max, nc int, hist []int) (perClient [][]c09Arr, verdict vrt.Verdict) {
	perClient = make([][]c09Arr, nc)
	s := vrt.Run(vrt.Options{}, func(s *vrt.Sched) {
		rl := NewTokenBucketRateLimiter(max, c09Refill)
		for _, e := range hist {
			if e < nc {
				ok := rl.Allow(fmt.Sprintf("10.0.0.%d", e+1))
				perClient[e] = append(perClient[e], c09Arr{s.Clock(), ok})
			} else if st := c09Steps[e-nc]; st == c09Sweep {
				rl.cleanup()
			} else {
				s.AdvanceQuiet(st)
			}
		}
	})
	return perClient, s.Verdict
}

func c09Names(nc int, hist []int) []string {
	out := make([]string, len(hist))
	for i, e := range hist {
		if e < nc {
			out[i] = string(rune('A' + e))
		} else if c09Steps[e-nc] == c09Sweep {
			out[i] = "sweep"
		} else {
			out[i] = "+" + c09Steps[e-nc].String()
		}
	}
	return out
}

type c09Replay struct {
	Max, Clients int
	Steps        string
	Events       []int
	History      []string
}

func c09CheckBounds(max int, arr []c09Arr) (key, what string) {
	// newburst
	for i := 0; i < len(arr) && i < max; i++ {
		if !arr[i].ok {
			return "C09/new-client-burst-short", fmt.Sprintf("arrival %d of a new client was rejected although max_tokens=%d", i+1, max)
		}
	}
	// window
	for i := range arr {
		adm := 0
		for j := i; j < len(arr); j++ {
			if arr[j].ok {
				adm++
			}
			bound := max + int((arr[j].t-arr[i].t)/c09Refill) + 1
			if adm > bound {
				return "C09/window-bound-exceeded", fmt.Sprintf("%d admitted between t=%v and t=%v, bound max+floor(T/refill)+1 = %d (max_tokens=%d)", adm, arr[i].t, arr[j].t, bound, max)
			}
		}
	}
	// idle
	for i := 1; i < len(arr); i++ {
		k := int((arr[i].t - arr[i-1].t) / c09Refill)
		if k > max {
			k = max
		}
		for j := i; j < len(arr) && j < i+k; j++ {
			if !arr[j].ok {
				return "C09/idle-refill-short", fmt.Sprintf("after an idle gap of %v only %d of the next min(k,max)=%d arrivals were admitted (max_tokens=%d)", arr[i].t-arr[i-1].t, j-i, k, max)
			}
		}
	}
	return "", ""
}

func c09Outcome(arr []c09Arr) string {
	var b strings.Builder
	for _, a := range arr {
		if a.ok {
			b.WriteByte('1')
		} else {
			b.WriteByte('0')
		}
	}
	return b.String()
}

func c09Explore(r *vres.Report, max, nc, depth int, steps string) {
	start := time.Now()
	c09UseSteps(steps)
	nev := nc + len(c09Steps)
	hist := make([]int, depth)
	var leaves, evals int64
	var outs vres.Outcomes
	soloCache := map[string]string{}
	viol := func(key, what string, h []int) {
		hh := append([]int(nil), h...)
		r.Violate(key, what+fmt.Sprintf(" | history %v", c09Names(nc, hh)), len(hh), map[string]interface{}{
			"engine": "H", "test": "TestVerifC09H", "scenario": "limiter-histories", "params": c09Replay{Max: max, Clients: nc, Steps: steps, Events: hh, History: c09Names(nc, hh)}})
	}
	var rec func(d int)
	rec = func(d int) {
		if d == depth {
			leaves++
			per, v := c09Run(max, nc, hist)
			evals++
			if v.Kind != vrt.OK {
				viol("C09/"+v.Kind.String(), v.Detail, hist)
				return
			}
			for c := 0; c < nc; c++ {
				if k, w := c09CheckBounds(max, per[c]); k != "" {
					viol(k, w, hist)
				}
				// isolation: project onto client c (+ clock steps)
				if nc > 1 {
					var proj []int
					for _, e := range hist {
						if e == c || e >= nc {
							proj = append(proj, e)
						}
					}
					pk := fmt.Sprint(c, proj)
					solo, ok := soloCache[pk]
					if !ok {
						pp, _ := c09Run(max, nc, proj)
						evals++
						solo = c09Outcome(pp[c])
						soloCache[pk] = solo
					}
					if got := c09Outcome(per[c]); got != solo {
						viol("C09/isolation-broken", fmt.Sprintf("client %c got %s with other clients present but %s alone (max_tokens=%d)", 'A'+c, got, solo, max), hist)
					}
				}
				outs.Add(c09Outcome(per[c]))
			}
			return
		}
		for e := 0; e < nev; e++ {
			// symmetry: the first arrival in a history is client A (clients are interchangeable)
			if e < nc && e > 0 {
				seen := false
				for _, p := range hist[:d] {
					if p == e-1 {
						seen = true
					}
				}
				if !seen {
					continue
				}
			}
			hist[d] = e
			rec(d + 1)
		}
	}
	rec(0)
	r.AddScenario(vres.Scenario{
		Name: fmt.Sprintf("limiter-histories-max%d-clients%d-%s", max, nc, steps), Engine: "H", Executions: evals, States: leaves, Transitions: leaves * int64(depth),
		Outcomes: outs.N(), Bound: fmt.Sprintf("all histories of length %d over {arrival of each of %d clients, clock steps %v (-1ns = one pass of the cleanup sweep)}, refill %v (client symmetry reduced)", depth, nc, c09Steps, c09Refill),
		Exhaustive: true, Sample: map[string]interface{}{"history": c09Names(nc, hist), "max_tokens": max},
		Extra: map[string]interface{}{"wall_s": time.Since(start).Seconds()},
	})
}

func TestVerifC09H(t *testing.T) {
	r := vres.Open("C09", "H")
	defer func() {
		if err := r.Close(); err != nil {
			t.Fatal(err)
		}
	}()
	if vres.ReplayPath() != "" {
		var rp struct{ Params c09Replay }
		if err := vres.LoadReplay(&rp); err != nil {
			t.Fatal(err)
		}
		p := rp.Params
		c09UseSteps(p.Steps)
		per, v := c09Run(p.Max, p.Clients, p.Events)
		fmt.Printf("REPLAY max_tokens=%d history=%v verdict=%s\n", p.Max, c09Names(p.Clients, p.Events), v.Kind)
		for c := range per {
			fmt.Printf("  client %c: %v\n", 'A'+c, per[c])
			k, w := c09CheckBounds(p.Max, per[c])
			fmt.Printf("  bounds: %s %s\n", k, w)
		}
		return
	}
	type cfg struct {
		max, nc, depth int
		steps          string
	}
	var cfgs []cfg
	if vres.Thorough() {
		for m := 1; m <= 5; m++ {
			cfgs = append(cfgs, cfg{m, 2, 10, "coarse"})
		}
		cfgs = append(cfgs, cfg{1, 3, 9, "coarse"}, cfg{2, 3, 9, "coarse"}, cfg{2, 4, 8, "coarse"}, cfg{3, 1, 12, "coarse"},
			cfg{1, 1, 12, "fine"}, cfg{2, 1, 12, "fine"}, cfg{3, 1, 12, "fine"}, cfg{1, 2, 9, "fine"}, cfg{2, 2, 9, "fine"})
	} else {
		for m := 1; m <= 4; m++ {
			cfgs = append(cfgs, cfg{m, 2, 8, "coarse"})
		}
		cfgs = append(cfgs, cfg{2, 3, 7, "coarse"}, cfg{3, 1, 10, "coarse"}, cfg{1, 1, 10, "fine"}, cfg{2, 1, 10, "fine"}, cfg{1, 2, 7, "fine"})
	}
	// the cleanup sweep as an event, with refill periods on both sides of its one-hour horizon
	if vres.Thorough() {
		cfgs = append(cfgs, cfg{5, 1, 11, "sweep-20min"}, cfg{2, 2, 9, "sweep-20min"}, cfg{2, 1, 11, "sweep-2h"}, cfg{1, 2, 9, "sweep-2h"}, cfg{3, 2, 9, "sweep-1s"})
	} else {
		cfgs = append(cfgs, cfg{5, 1, 9, "sweep-20min"}, cfg{2, 1, 9, "sweep-2h"}, cfg{2, 2, 7, "sweep-1s"})
	}
	for i, c := range cfgs {
		if vh.MyShard(i) {
			c09Explore(r, c.max, c.nc, c.depth, c.steps)
		}
	}
	// isolation and the burst bound with many other clients in between (tables of buckets have
	// bounds, sweeps and high-water marks that a handful of clients never reaches)
	crowds := []int{100, 10001}
	if vres.Thorough() {
		crowds = []int{100, 1000, 4097, 10001, 65537, 200000}
	}
	for i, n := range crowds {
		if vh.MyShard(len(cfgs) + i) {
			c09Crowd(r, n)
		}
	}
	if vh.MyShard(len(cfgs) + len(crowds)) {
		c09Magnitudes(r)
	}
	if vh.MyShard(len(cfgs) + len(crowds) + 1) {
		c09Everyone(r)
	}
}

// c09Everyone: every address of a whole network arrives once, then once more: "a new client
// starts with a full burst" and "a client is never admitted more than its burst" for each of
// them, whoever came before. Half a million clients make it all but certain that two of them
// meet wherever the table of buckets is keyed by less than the address (a 32-bit digest of it:
// about 30 pairs among 2^19 addresses).
func c09Everyone(r *vres.Report) {
	start := time.Now()
	var evals int64
	const bits = 19 // 10.0.0.0/13
	refusedNew, admittedTwice := 0, 0
	firstNew, firstTwice := "", ""
	s := vrt.Run(vrt.Options{Horizon: 1 << 30}, func(s *vrt.Sched) {
		rl := NewTokenBucketRateLimiter(1, time.Hour)
		addr := func(i int) string { return fmt.Sprintf("10.%d.%d.%d", i>>16&255, i>>8&255, i&255) }
		for i := 0; i < 1<<bits; i++ {
			evals++
			if !rl.Allow(addr(i)) {
				refusedNew++
				if firstNew == "" {
					firstNew = addr(i)
				}
			}
		}
		for i := 0; i < 1<<bits; i++ {
			evals++
			if rl.Allow(addr(i)) {
				admittedTwice++
				if firstTwice == "" {
					firstTwice = addr(i)
				}
			}
		}
	})
	if s.Verdict.Kind != vrt.OK {
		r.Violate("C09/everyone/"+s.Verdict.Kind.String(), s.Verdict.Detail, 1, nil)
	}
	if refusedNew > 0 {
		r.Violate("C09/isolation-broken/new-client-refused", fmt.Sprintf("max_tokens=1, refill 1h, every address of 10.0.0.0/13 arrives once: %d of them were refused on their first request (the first: %s) - a client that had never been seen found its burst spent by somebody else", refusedNew, firstNew), 1, map[string]interface{}{"engine": "H", "test": "TestVerifC09H", "part": "everyone"})
	}
	if admittedTwice > 0 {
		r.Violate("C09/burst-bound-exceeded/everyone", fmt.Sprintf("max_tokens=1, refill 1h, every address of 10.0.0.0/13 arrives twice at the same instant: %d of them were admitted twice (the first: %s)", admittedTwice, firstTwice), 1, map[string]interface{}{"engine": "H", "test": "TestVerifC09H", "part": "everyone"})
	}
	r.AddScenario(vres.Scenario{Name: "limiter-every-address-of-a-network", Engine: "H", Executions: 1, States: 1 << bits, Transitions: evals, Outcomes: 1,
		Bound: "max_tokens 1, refill 1h: each of the 524288 addresses of 10.0.0.0/13 once (must be admitted), then each once more (must be refused)", Exhaustive: true, Extra: map[string]interface{}{"wall_s": time.Since(start).Seconds()}})
}

// c09Magnitudes: the statement's idle clause for bursts of large magnitude (max_tokens has no
// documented upper limit): a client that has spent j tokens and then stays idle for k refill
// periods is admitted at least min(k, max_tokens) more times, and a new client is admitted.
// max_tokens over {2^31-1, 2^31, 2^53, 2^62, 2^63-2, 2^63-1} x spent 1..3 x idle 1, 2, 5,
// 1000 and 10^9 periods (refill 1 s), on the real limiter under the virtual clock.
func c09Magnitudes(r *vres.Report) {
	start := time.Now()
	var evals int64
	var outs vres.Outcomes
	for _, max := range []int{1<<31 - 1, 1 << 31, 1 << 53, 1 << 62, 1<<63 - 2, 1<<63 - 1} {
		for spent := 1; spent <= 3; spent++ {
			for _, idle := range []int{1, 2, 5, 1000, 1000000000} {
				first, after, fresh := 0, 0, false
				want := idle
				if want > 6 {
					want = 6 // six requests are sent after the idle time
				}
				s := vrt.Run(vrt.Options{Horizon: 1 << 30}, func(s *vrt.Sched) {
					rl := NewTokenBucketRateLimiter(max, time.Second)
					for i := 0; i < spent; i++ {
						if rl.Allow("10.0.0.1") {
							first++
						}
					}
					s.AdvanceQuiet(time.Duration(idle) * time.Second)
					for i := 0; i < 6; i++ {
						if rl.Allow("10.0.0.1") {
							after++
						}
					}
					fresh = rl.Allow("10.0.0.2")
					evals += int64(spent) + 7
				})
				if s.Verdict.Kind != vrt.OK {
					r.Violate("C09/magnitudes/"+s.Verdict.Kind.String(), s.Verdict.Detail, 1, nil)
					continue
				}
				outs.Add(fmt.Sprintf("%d/%d/%v", first, after, fresh))
				desc := fmt.Sprintf("max_tokens=%d, refill 1s: a client sends %d requests, stays idle for %d refill periods and sends 6 more", max, spent, idle)
				switch {
				case first != spent:
					r.Violate("C09/magnitudes/burst-refused", fmt.Sprintf("%s: only %d of the first %d were admitted", desc, first, spent), spent, map[string]interface{}{"engine": "H", "test": "TestVerifC09H", "max": max, "spent": spent, "idle": idle})
				case after < want:
					r.Violate("C09/magnitudes/idle-client-refused", fmt.Sprintf("%s: %d of them were admitted, the statement promises at least min(k, max_tokens) = %d", desc, after, want), spent, map[string]interface{}{"engine": "H", "test": "TestVerifC09H", "max": max, "spent": spent, "idle": idle})
				case !fresh:
					r.Violate("C09/magnitudes/new-client-refused", desc+": a new client was refused its first request", spent, nil)
				}
			}
		}
	}
	r.AddScenario(vres.Scenario{Name: "limiter-large-bursts", Engine: "H", Executions: 90, States: 90, Transitions: evals, Outcomes: outs.N(),
		Bound: "max_tokens {2^31-1, 2^31, 2^53, 2^62, 2^63-2, 2^63-1} x 1..3 tokens spent x idle for 1, 2, 5, 1000, 10^9 refill periods, six requests afterwards, one new client", Exhaustive: true, Extra: map[string]interface{}{"wall_s": time.Since(start).Seconds()}})
}

// c09Crowd: a client spends part of its burst, n other clients arrive once each, the client
// goes on: what it is admitted altogether within one refill period is at most max_tokens, and
// exactly what it is admitted without the crowd.
func c09Crowd(r *vres.Report, n int) {
	start := time.Now()
	var evals int64
	for _, max := range []int{2, 5} {
		for spent := 0; spent <= max; spent++ {
			admitted, alone := 0, 0
			run := func(crowd int) int {
				got := 0
				s := vrt.Run(vrt.Options{Horizon: 1 << 30}, func(s *vrt.Sched) {
					rl := NewTokenBucketRateLimiter(max, time.Hour)
					for i := 0; i < spent; i++ {
						if rl.Allow("10.0.0.1") {
							got++
						}
					}
					for i := 0; i < crowd; i++ {
						rl.Allow(fmt.Sprintf("172.%d.%d.%d", 16+i>>16&15, i>>8&255, i&255))
						evals++
					}
					for i := 0; i < max+2; i++ {
						if rl.Allow("10.0.0.1") {
							got++
						}
					}
				})
				if s.Verdict.Kind != vrt.OK {
					r.Violate("C09/crowd/"+s.Verdict.Kind.String(), s.Verdict.Detail, n, nil)
				}
				return got
			}
			admitted, alone = run(n), run(0)
			if admitted > max || admitted != alone {
				r.Violate("C09/isolation-broken/many-clients", fmt.Sprintf("max_tokens=%d, refill 1h: a client that had spent %d of its burst was admitted %d times altogether with %d other clients arriving in between, %d times without them (bound %d)", max, spent, admitted, n, alone, max), n, map[string]interface{}{"engine": "H", "test": "TestVerifC09H", "crowd": n, "max": max, "spent": spent})
			}
		}
	}
	r.AddScenario(vres.Scenario{Name: fmt.Sprintf("limiter-crowd-of-%d", n), Engine: "H", Executions: evals, States: 9, Transitions: evals, Outcomes: 1,
		Bound: fmt.Sprintf("max_tokens {2,5} x every number of tokens already spent x %d other clients arriving once each in between", n), Exhaustive: true, Extra: map[string]interface{}{"wall_s": time.Since(start).Seconds()}})
}
