package circuitbreaker

import (
	"errors"
	"fmt"
	"testing"
	"time"

	"github.com/0xReLogic/Helios/internal/zzverif/vh"
	"github.com/0xReLogic/Helios/internal/zzverif/vmodel"
	"github.com/0xReLogic/Helios/internal/zzverif/vres"
	"github.com/0xReLogic/Helios/internal/zzverif/vrt"
)

type c07hParams struct{ FT, ST, MR int }

type c07hInst struct {
	s   *vrt.Sched
	cb  *CircuitBreaker
	ref *vmodel.Breaker
	p   c07hParams
	out string
}

func (in *c07hInst) LastOutcome() string { return in.out }

// events 6-8: requests that take time (the clock moves while the protected function runs): an
// outcome belongs to the instant the request ends, e.g. the open period starts when the
// failing request has failed, not when it was admitted
var c07hEvents = []string{"success", "failure", "panic", "clock+0.9s(<interval)", "clock+2.1s(>interval,<timeout)", "clock+3.1s(>timeout)",
	"slow-failure(3.1s)", "slow-success(3.1s)", "slow-failure(0.9s)"}

// what each request event does: outcome (0 success, 1 failure, 2 panic) and how long it takes
var c07hReq = map[int]struct {
	outcome int
	takes   time.Duration
}{0: {0, 0}, 1: {1, 0}, 2: {2, 0}, 6: {1, 3100 * time.Millisecond}, 7: {0, 3100 * time.Millisecond}, 8: {1, 900 * time.Millisecond}}

func stateName(st State) string {
	switch st {
	case StateClosed:
		return "closed"
	case StateOpen:
		return "open"
	case StateHalfOpen:
		return "half"
	}
	return "unknown"
}

func (in *c07hInst) Step(ev int) *vh.HViol {
	switch ev {
	case 3:
		in.s.AdvanceQuiet(900 * time.Millisecond)
		return nil
	case 4:
		in.s.AdvanceQuiet(2100 * time.Millisecond)
		return nil
	case 5:
		in.s.AdvanceQuiet(3100 * time.Millisecond)
		return nil
	}
	now := in.s.Clock()
	want := in.ref.Admit(now)
	called := false
	var err error
	panicked := false
	func() {
		defer func() {
			if r := recover(); r != nil {
				if r != "boom" {
					panic(r)
				}
				panicked = true
			}
		}()
		err = in.cb.Execute(func() error {
			called = true
			if d := c07hReq[ev].takes; d > 0 {
				in.s.AdvanceQuiet(d)
			}
			switch c07hReq[ev].outcome {
			case 1:
				return errTrial
			case 2:
				panic("boom")
			}
			return nil
		})
	}()
	cfg := fmt.Sprintf("ft=%d st=%d mr=%d", in.p.FT, in.p.ST, in.p.MR)
	got := ""
	switch {
	case called:
	case errors.Is(err, ErrCircuitBreakerOpen):
		got = "open"
	case errors.Is(err, ErrTooManyRequests):
		got = "toomany"
	default:
		got = fmt.Sprintf("rejected(%v)", err)
	}
	in.out = got + "/" + in.ref.State
	if want != got {
		kind := "rejects-a-request-the-reference-admits"
		if want != "" && got == "" {
			kind = "admits-a-request-the-reference-rejects(" + want + ")"
		} else if want != "" {
			kind = "wrong-rejection"
		}
		return &vh.HViol{Key: "C07/seq/" + kind + "/in-" + in.ref.State, What: fmt.Sprintf("%s: request at t=%v: reference says %q, breaker says %q (reference state %s)", cfg, now, want, got, in.ref.State)}
	}
	if called {
		oc := c07hReq[ev].outcome
		if oc == 2 && !panicked {
			return &vh.HViol{Key: "C07/seq/panic-swallowed", What: cfg + ": a panicking request did not propagate its panic"}
		}
		if oc == 0 && err != nil || oc == 1 && err != errTrial {
			return &vh.HViol{Key: "C07/seq/result-altered", What: fmt.Sprintf("%s: Execute returned %v for event %s", cfg, err, c07hEvents[ev])}
		}
		in.ref.Done(in.s.Clock(), oc == 0)
	}
	if st := stateName(in.cb.State()); st != in.ref.State {
		return &vh.HViol{Key: fmt.Sprintf("C07/seq/state-%s-where-reference-%s", st, in.ref.State),
			What: fmt.Sprintf("%s: after %s at t=%v breaker state is %s, reference automaton is %s", cfg, c07hEvents[ev], now, st, in.ref.State)}
	}
	return nil
}

func (in *c07hInst) Fingerprint() string {
	// the breaker compares stored instants against the clock with distances interval (2s)
	// and timeout (3s) only, so instants older than 3.2s are interchangeable
	m := in.ref.Canon(in.s.Clock(), 3200*time.Millisecond)
	return vh.FingerprintClip(3200*time.Millisecond, in.cb) + fmt.Sprintf("|%+v", m)
}

func c07hSpec(p c07hParams, depth int) vh.HSpec {
	return vh.HSpec{
		Name: fmt.Sprintf("breaker-seq-ft%d-st%d-mr%d", p.FT, p.ST, p.MR), Events: c07hEvents, Depth: depth, Params: p, KeyPrefix: "C07/seq",
		New: func(s *vrt.Sched) vh.HInstance {
			cb := NewCircuitBreaker(Settings{Name: "t", MaxRequests: uint32(p.MR), Interval: 2 * time.Second, Timeout: 3 * time.Second,
				FailureThreshold: uint32(p.FT), SuccessThreshold: uint32(p.ST)})
			return &c07hInst{s: s, cb: cb, p: p, ref: vmodel.NewBreaker(p.FT, p.ST, p.MR, 2*time.Second, 3*time.Second)}
		},
	}
}

func TestVerifC07H(t *testing.T) {
	r := vres.Open("C07", "H")
	defer func() {
		if err := r.Close(); err != nil {
			t.Fatal(err)
		}
	}()
	// the state space is finite (clock offsets are clipped): with enough depth the search
	// reaches a fixpoint and covers histories of any length over the alphabet
	depth := 12
	if vres.Thorough() {
		depth = 80
	}
	if vres.ReplayPath() != "" {
		var rp vh.HReplay
		var p c07hParams
		rp.Params = &p
		if err := vres.LoadReplay(&rp); err != nil {
			t.Fatal(err)
		}
		vh.ReplayH(c07hSpec(p, depth), rp.Events, rp.Probe)
		return
	}
	i := 0
	for ft := 1; ft <= 3; ft++ {
		for st := 1; st <= 3; st++ {
			for mr := 1; mr <= 3; mr++ {
				if vh.MyShard(i) {
					vh.RunH(r, "TestVerifC07H", c07hSpec(c07hParams{ft, st, mr}, depth))
				}
				i++
			}
		}
	}
}
