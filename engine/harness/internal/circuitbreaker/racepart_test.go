package circuitbreaker

import "github.com/0xReLogic/Helios/internal/zzverif/vrt"

// racePart names the report part after the build: the same scenarios run in a normal build
// (outcome oracles, deadlock, panic) and in a -race build (data races on explored schedules).
func racePart(p string) string {
	if vrt.RaceBuild {
		return p + "-Race"
	}
	return p
}
