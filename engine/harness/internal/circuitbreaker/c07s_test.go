package circuitbreaker

import (
	"errors"
	"fmt"
	"testing"
	"time"

	"github.com/0xReLogic/Helios/internal/zzverif/vh"
	"github.com/0xReLogic/Helios/internal/zzverif/vres"
	"github.com/0xReLogic/Helios/internal/zzverif/vrt"
)

type c07sParams struct {
	FT, ST, MR int
	Callers    int
	Mode       string // "boundary": callers arrive exactly when the timeout has elapsed; "halfopen": one trial already admitted
	Outcomes   string // per caller: s = trial succeeds, f = trial fails
}

var errTrial = errors.New("trial failed")

func c07sScenario(p c07sParams, bound int) vh.SScenario {
	name := fmt.Sprintf("breaker-%s-ft%d-st%d-mr%d-n%d-%s", p.Mode, p.FT, p.ST, p.MR, p.Callers, p.Outcomes)
	return vh.SScenario{Name: name, KeyPrefix: "C07/conc", Bound: bound, Params: p, Body: func(x *vh.Exec) {
		s := x.S
		cb := NewCircuitBreaker(Settings{Name: "t", MaxRequests: uint32(p.MR), Interval: 2 * time.Second,
			Timeout: 3 * time.Second, FailureThreshold: uint32(p.FT), SuccessThreshold: uint32(p.ST)})
		for i := 0; i < p.FT; i++ {
			_ = cb.Execute(func() error { return errTrial })
		}
		if cb.State() != StateOpen {
			vh.ToolError("setup: breaker not open after %d failures", p.FT)
		}
		s.AdvanceQuiet(3*time.Second + 100*time.Millisecond)
		decided, admitted, rejected := 0, 0, 0
		total := p.Callers
		release := false
		if p.Mode == "halfopen" {
			// one trial has already been admitted and is still running when the callers arrive
			total++
			s.Spawn("first-trial", func() {
				_ = cb.Execute(func() error {
					admitted++
					decided++
					s.WaitFor("first-trial-gate", func() bool { return release })
					return nil
				})
			})
			s.Settle()
		}
		inEpisode := 0 // trial bodies entered while every caller is still undecided or parked
		results := make([]string, p.Callers)
		x.Check = func(v vrt.Verdict) (string, string, string, bool) {
			out := fmt.Sprintf("admitted=%d rejected=%d results=%v", admitted, rejected, results)
			if v.Kind != vrt.OK {
				return out, "", "", false
			}
			if p.Mode == "halfopen" {
				inEpisode++ // the trial admitted in the setup belongs to the same episode
			}
			if inEpisode > p.MR {
				return out, fmt.Sprintf("C07/half-open-admits-more-than-max_requests/%s", p.Mode),
					fmt.Sprintf("%d trial requests ran concurrently in one half-open episode with max_requests=%d (ft=%d st=%d, %d callers)", inEpisode, p.MR, p.FT, p.ST, p.Callers), true
			}
			return out, "", "", true
		}
		x.State = func() string {
			return vh.Fingerprint(cb) + fmt.Sprint(admitted)
		}
		s.Branch(true)
		var ths []*vrt.Thread
		for i := 0; i < p.Callers; i++ {
			i := i
			ths = append(ths, s.Spawn(fmt.Sprintf("caller%d", i), func() {
				entered := false
				err := cb.Execute(func() error {
					entered = true
					admitted++
					decided++
					inEpisode++
					// stay inside the trial until every caller has been admitted or rejected:
					// all admitted bodies then belong to the same half-open episode
					s.WaitFor("trial-gate", func() bool { return decided >= total })
					release = true
					if p.Outcomes[i] == 'f' {
						return errTrial
					}
					return nil
				})
				if !entered {
					rejected++
					decided++
				}
				switch {
				case err == nil:
					results[i] = "ok"
				case err == errTrial:
					results[i] = "fail"
				case err == ErrTooManyRequests:
					results[i] = "toomany"
				case err == ErrCircuitBreakerOpen:
					results[i] = "open"
				default:
					results[i] = err.Error()
				}
			}))
		}
		s.Join(ths...)
		release = true
	}}
}

func c07sScenarios() []vh.SScenario {
	bound := 2
	maxCallers := 2
	maxMR := 2
	if vres.Thorough() {
		bound = 3
		maxCallers = 3
		maxMR = 3
	}
	var out []vh.SScenario
	for ft := 1; ft <= 2; ft++ {
		for st := 1; st <= 2; st++ {
			for mr := 1; mr <= maxMR; mr++ {
				for n := 2; n <= maxCallers+1; n++ {
					if n <= mr-1 || (n > maxCallers && mr < 3) {
						continue // cannot exceed the budget
					}
					for _, oc := range []string{"ssss", "fsss", "sfss"} {
						out = append(out, c07sScenario(c07sParams{FT: ft, ST: st, MR: mr, Callers: n, Mode: "boundary", Outcomes: oc[:n]}, bound))
					}
					if st > 1 || mr > 1 {
						out = append(out, c07sScenario(c07sParams{FT: ft, ST: st, MR: mr, Callers: n, Mode: "halfopen", Outcomes: "ssss"[:n]}, bound))
					}
				}
			}
		}
	}
	return out
}

func TestVerifC07S(t *testing.T) {
	r := vres.Open("C07", racePart("S"))
	defer func() {
		if err := r.Close(); err != nil {
			t.Fatal(err)
		}
	}()
	if vres.ReplayPath() != "" {
		var rp vh.SReplay
		var p c07sParams
		rp.Params = &p
		if err := vres.LoadReplay(&rp); err != nil {
			t.Fatal(err)
		}
		vh.ReplayS(c07sScenario(p, 0), rp.Choices)
		return
	}
	for i, sc := range c07sScenarios() {
		if vh.MyShard(i) {
			vh.RunS(r, "TestVerifC07S", sc)
		}
	}
}
