package circuitbreaker

import (
	"errors"
	"fmt"
	"sort"
	"strings"
	"testing"
	"time"

	"github.com/0xReLogic/Helios/internal/zzverif/vh"
	"github.com/0xReLogic/Helios/internal/zzverif/vmodel"
	"github.com/0xReLogic/Helios/internal/zzverif/vres"
	"github.com/0xReLogic/Helios/internal/zzverif/vrt"
)

// C07 (requests that span state changes). The sequential part runs one request at a time and
// the linearizability part overlaps requests within one instant; here requests are *held*
// between admission and completion while other requests run and the clock moves, so that a
// request admitted in one period of the breaker (closed, or an earlier half-open period) ends
// in another. Explicit-state search over histories of
//
//	{success, failure, clock steps, start a request that will succeed / fail, finish held request 1 / 2}
//
// on the real breaker; at most two requests are held at a time.
//
// Oracle: a set of candidate states of the reference automaton, extended with the period
// ("generation") each held request was admitted in. The statement fixes what a request that
// ends in the period it was admitted in does. For a request that ends in a later period it
// says: the breaker closes only after success_threshold *trial* requests succeed - so a late
// success of a request that is not a trial of the current half-open period must not count -
// while it leaves open whether a late failure still counts as a failure (both are candidates).
// A violation is a step after which no candidate explains what the requests were told and the
// state the breaker is in.

type spanModel struct {
	vmodel.Breaker
	Gen int
}

func (m *spanModel) admit(now time.Duration) string {
	st := m.State
	res := m.Breaker.Admit(now)
	if m.State != st {
		m.Gen++
	}
	return res
}

// done returns the candidate successors for the completion of a request admitted in period gen.
func (m *spanModel) done(now time.Duration, success bool, gen int) []*spanModel {
	apply := func() *spanModel {
		c := *m
		st := c.State
		c.Breaker.Done(now, success)
		if c.State != st {
			c.Gen++
		}
		return &c
	}
	if gen == m.Gen {
		return []*spanModel{apply()}
	}
	same := *m
	if success {
		// a late success is not a trial of this period: it changes nothing
		return []*spanModel{&same}
	}
	// a late failure may or may not count as a failure
	return []*spanModel{&same, apply()}
}

type spanHeld struct {
	th       *vrt.Thread
	release  bool
	outcome  bool // true = will succeed
	told     string
	entered  bool
	returned bool
	gens     []int // per candidate: the period it was admitted in
}

type c07spInst struct {
	s     *vrt.Sched
	cb    *CircuitBreaker
	p     c07hParams
	cands []*spanModel
	held  [2]*spanHeld
	out   string
}

var c07spEvents = []string{"success", "failure", "clock+0.9s", "clock+2.1s", "clock+3.1s", "start-s", "start-f", "finish-1", "finish-2"}

func (in *c07spInst) LastOutcome() string { return in.out }

func (in *c07spInst) cfg() string { return fmt.Sprintf("ft=%d st=%d mr=%d", in.p.FT, in.p.ST, in.p.MR) }

func toldOf(entered bool, err error) string {
	switch {
	case entered:
		return ""
	case errors.Is(err, ErrCircuitBreakerOpen):
		return "open"
	case errors.Is(err, ErrTooManyRequests):
		return "toomany"
	}
	return fmt.Sprintf("rejected(%v)", err)
}

// filterState keeps the candidates whose state equals the breaker's.
func (in *c07spInst) filterState(after string) *vh.HViol {
	st := stateName(in.cb.State())
	var keep []*spanModel
	var keepIdx []int
	for i, m := range in.cands {
		if m.State == st {
			keep = append(keep, m)
			keepIdx = append(keepIdx, i)
		}
	}
	if len(keep) == 0 {
		var want []string
		for _, m := range in.cands {
			want = append(want, m.State)
		}
		return &vh.HViol{Key: "C07/span/state-" + st + "-not-explained", What: fmt.Sprintf("%s: after %s at t=%v the breaker is %s; the reference allows %v (a request that ends in a later period than it was admitted in must not count as a trial success)", in.cfg(), after, in.s.Clock(), st, want)}
	}
	for _, h := range in.held {
		if h != nil && h.gens != nil {
			g := make([]int, len(keepIdx))
			for k, i := range keepIdx {
				g[k] = h.gens[i]
			}
			h.gens = g
		}
	}
	in.cands = keep
	return nil
}

func (in *c07spInst) Step(ev int) *vh.HViol {
	e := c07spEvents[ev]
	now := in.s.Clock()
	switch {
	case strings.HasPrefix(e, "clock+"):
		in.s.AdvanceQuiet(map[string]time.Duration{"clock+0.9s": 900 * time.Millisecond, "clock+2.1s": 2100 * time.Millisecond, "clock+3.1s": 3100 * time.Millisecond}[e])
		in.out = ""
		return nil
	case e == "success" || e == "failure":
		entered := false
		err := in.cb.Execute(func() error {
			entered = true
			if e == "failure" {
				return errTrial
			}
			return nil
		})
		told := toldOf(entered, err)
		in.out = told
		var next []*spanModel
		var idx []int
		for i, m := range in.cands {
			c := *m
			if c.admit(now) != told {
				continue
			}
			if told == "" {
				for _, n := range c.done(now, e == "success", c.Gen) {
					next = append(next, n)
					idx = append(idx, i)
				}
			} else {
				cc := c
				next = append(next, &cc)
				idx = append(idx, i)
			}
		}
		if len(next) == 0 {
			return &vh.HViol{Key: "C07/span/answer-not-explained", What: fmt.Sprintf("%s: request at t=%v was told %q; no candidate state of the reference gives that answer", in.cfg(), now, told)}
		}
		in.remap(idx)
		in.cands = next
		return in.filterState(e)
	case e == "start-s" || e == "start-f":
		slot := 0
		if in.held[0] != nil {
			slot = 1
		}
		h := &spanHeld{outcome: e == "start-s"}
		in.held[slot] = h
		h.th = in.s.Spawn("held", func() {
			var err error
			err = in.cb.Execute(func() error {
				h.entered = true
				in.s.WaitFor("held-request", func() bool { return h.release })
				if !h.outcome {
					return errTrial
				}
				return nil
			})
			h.told = toldOf(h.entered, err)
			h.returned = true
		})
		in.s.Settle()
		if !h.entered && !h.returned {
			return &vh.HViol{Key: "C07/span/request-stuck-at-admission", What: in.cfg() + ": a request neither entered its function nor returned"}
		}
		told := ""
		if !h.entered {
			told = h.told
			in.held[slot] = nil
		}
		in.out = "start:" + told
		var next []*spanModel
		var idx []int
		var gens []int
		for i, m := range in.cands {
			c := *m
			if c.admit(now) != told {
				continue
			}
			cc := c
			next = append(next, &cc)
			idx = append(idx, i)
			gens = append(gens, cc.Gen)
		}
		if len(next) == 0 {
			return &vh.HViol{Key: "C07/span/answer-not-explained", What: fmt.Sprintf("%s: request started at t=%v was told %q; no candidate state of the reference gives that answer", in.cfg(), now, told)}
		}
		in.remap(idx)
		in.cands = next
		if told == "" {
			h.gens = gens
		}
		return in.filterState(e)
	default: // finish-1 / finish-2
		slot := map[string]int{"finish-1": 0, "finish-2": 1}[e]
		h := in.held[slot]
		h.release = true
		in.s.Settle()
		if !h.returned {
			return &vh.HViol{Key: "C07/span/held-request-never-returned", What: in.cfg() + ": a released request never returned"}
		}
		in.held[slot] = nil
		in.out = fmt.Sprintf("finish:%v", h.outcome)
		var next []*spanModel
		var idx []int
		for i, m := range in.cands {
			for _, n := range m.done(now, h.outcome, h.gens[i]) {
				next = append(next, n)
				idx = append(idx, i)
			}
		}
		in.remap(idx)
		in.cands = next
		return in.filterState(fmt.Sprintf("the %s of a request admitted earlier", map[bool]string{true: "success", false: "failure"}[h.outcome]))
	}
}

// remap re-indexes the per-candidate admission periods of the held requests after the
// candidate list was rebuilt (idx[k] = old index of new candidate k).
func (in *c07spInst) remap(idx []int) {
	for _, h := range in.held {
		if h != nil && h.gens != nil {
			g := make([]int, len(idx))
			for k, i := range idx {
				g[k] = h.gens[i]
			}
			h.gens = g
		}
	}
}

func (in *c07spInst) Fingerprint() string {
	now := in.s.Clock()
	var cs []string
	for i, m := range in.cands {
		c := m.Breaker.Canon(now, 3200*time.Millisecond)
		s := fmt.Sprintf("%+v", c)
		for _, h := range in.held {
			if h != nil && h.gens != nil {
				s += fmt.Sprintf("/h%v:%d", h.outcome, m.Gen-h.gens[i])
			}
		}
		cs = append(cs, s)
	}
	sort.Strings(cs)
	hs := ""
	for _, h := range in.held {
		if h == nil {
			hs += "-"
		} else {
			hs += fmt.Sprintf("[%v]", h.outcome)
		}
	}
	return vh.FingerprintClip(3200*time.Millisecond, in.cb) + "|" + hs + "|" + strings.Join(cs, ";")
}

func c07spSpec(p c07hParams, depth int) vh.HSpec {
	return vh.HSpec{
		Name: fmt.Sprintf("breaker-span-ft%d-st%d-mr%d", p.FT, p.ST, p.MR), Events: c07spEvents, Depth: depth, Params: p, KeyPrefix: "C07/span",
		New: func(s *vrt.Sched) vh.HInstance {
			cb := NewCircuitBreaker(Settings{Name: "t", MaxRequests: uint32(p.MR), Interval: 2 * time.Second, Timeout: 3 * time.Second,
				FailureThreshold: uint32(p.FT), SuccessThreshold: uint32(p.ST)})
			m := &spanModel{Breaker: *vmodel.NewBreaker(p.FT, p.ST, p.MR, 2*time.Second, 3*time.Second)}
			return &c07spInst{s: s, cb: cb, p: p, cands: []*spanModel{m}}
		},
		Enabled: func(inst vh.HInstance, ev int) bool {
			in := inst.(*c07spInst)
			switch c07spEvents[ev] {
			case "start-s", "start-f":
				return in.held[0] == nil || in.held[1] == nil
			case "finish-1":
				return in.held[0] != nil
			case "finish-2":
				return in.held[1] != nil
			}
			return true
		},
	}
}

func TestVerifC07Span(t *testing.T) {
	r := vres.Open("C07", "Span")
	defer func() {
		if err := r.Close(); err != nil {
			t.Fatal(err)
		}
	}()
	depth := 8
	if vres.Thorough() {
		depth = 13
	}
	if vres.ReplayPath() != "" {
		var rp vh.HReplay
		var p c07hParams
		rp.Params = &p
		if err := vres.LoadReplay(&rp); err != nil {
			t.Fatal(err)
		}
		vh.ReplayH(c07spSpec(p, depth), rp.Events, rp.Probe)
		return
	}
	cfgs := [][3]int{{1, 1, 1}, {2, 1, 1}, {1, 2, 2}, {2, 2, 2}, {1, 1, 2}, {3, 2, 3}}
	if vres.Thorough() {
		cfgs = nil
		for ft := 1; ft <= 3; ft++ {
			for st := 1; st <= 3; st++ {
				for mr := 1; mr <= 3; mr++ {
					cfgs = append(cfgs, [3]int{ft, st, mr})
				}
			}
		}
	}
	for i, c := range cfgs {
		if vh.MyShard(i) {
			vh.RunH(r, "TestVerifC07Span", c07spSpec(c07hParams{c[0], c[1], c[2]}, depth))
		}
	}
}
