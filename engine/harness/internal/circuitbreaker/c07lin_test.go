package circuitbreaker

import (
	"errors"
	"fmt"
	"strings"
	"testing"
	"time"

	"github.com/0xReLogic/Helios/internal/zzverif/vh"
	"github.com/0xReLogic/Helios/internal/zzverif/vmodel"
	"github.com/0xReLogic/Helios/internal/zzverif/vres"
	"github.com/0xReLogic/Helios/internal/zzverif/vrt"
)

// C07 (linearizability from every reachable control state). The sequential part explores the
// breaker's reachable states; here every one of them (one shortest history per distinct state
// fingerprint) is the starting point of 2-3 overlapping requests with fixed outcomes, under
// every schedule up to the preemption bound. Oracle: some interleaving of the requests'
// admission and completion steps, applied to the reference automaton, explains what each
// request was told AND how the breaker behaves afterwards (a fixed follow-up script compared
// step by step). Deadlocks, lost unlocks and panics surface as verdicts of the scheduler.

type c07lParams struct {
	FT, ST, MR int
	Prefix     []int  // events of c07hEvents leading to the start state
	Outcomes   string // per overlapping request: s, f or p (panic)
	Suffix     int    // index into c07lSuffixes
}

// follow-up scripts (events of c07hEvents: 0 success, 1 failure, 5 clock+3.1s)
var c07lSuffixes = [][]int{
	{1, 1, 5, 0, 0, 0, 1},
	{0, 0, 0, 1, 1, 1, 5, 0},
}

type c07lStep struct {
	caller int
	done   bool
}

// interleavings of the callers' [admit, done] step pairs
func c07lOrders(n int) [][]c07lStep {
	var out [][]c07lStep
	pos := make([]int, n) // 0 = nothing yet, 1 = admitted, 2 = done
	var cur []c07lStep
	var rec func()
	rec = func() {
		if len(cur) == 2*n {
			out = append(out, append([]c07lStep(nil), cur...))
			return
		}
		for c := 0; c < n; c++ {
			if pos[c] < 2 {
				cur = append(cur, c07lStep{c, pos[c] == 1})
				pos[c]++
				rec()
				pos[c]--
				cur = cur[:len(cur)-1]
			}
		}
	}
	rec()
	return out
}

func c07lScenario(p c07lParams, bound int) vh.SScenario {
	name := fmt.Sprintf("breaker-lin-ft%d-st%d-mr%d-from%v-%s-suffix%d", p.FT, p.ST, p.MR, p.Prefix, p.Outcomes, p.Suffix)
	return vh.SScenario{Name: name, KeyPrefix: "C07/lin", Bound: bound, Params: p, Body: func(x *vh.Exec) {
		s := x.S
		in := c07hSpec(c07hParams{p.FT, p.ST, p.MR}, 0).New(s).(*c07hInst)
		for _, e := range p.Prefix {
			if v := in.Step(e); v != nil {
				vh.ToolError("start state %v is not clean: %s", p.Prefix, v.What)
			}
		}
		cb, ref0 := in.cb, *in.ref
		now := s.Clock()
		n := len(p.Outcomes)
		told := make([]string, n) // "" admitted, "open", "toomany"
		returned := make([]bool, n)
		key, what, out := "", "", ""
		x.Check = func(v vrt.Verdict) (string, string, string, bool) {
			if v.Kind != vrt.OK {
				return out, "", "", false
			}
			return out, key, what, true
		}
		s.Branch(true)
		var ths []*vrt.Thread
		for i := 0; i < n; i++ {
			i := i
			ths = append(ths, s.Spawn(fmt.Sprintf("req%d(%c)", i, p.Outcomes[i]), func() {
				defer func() {
					if r := recover(); r != nil && r != "boom" {
						panic(r)
					}
					returned[i] = true
				}()
				entered := false
				err := cb.Execute(func() error {
					entered = true
					switch p.Outcomes[i] {
					case 'f':
						return errTrial
					case 'p':
						panic("boom")
					}
					return nil
				})
				switch {
				case entered:
				case errors.Is(err, ErrCircuitBreakerOpen):
					told[i] = "open"
				case errors.Is(err, ErrTooManyRequests):
					told[i] = "toomany"
				default:
					told[i] = fmt.Sprintf("rejected(%v)", err)
				}
			}))
		}
		s.Join(ths...)
		s.Branch(false)
		for i := range returned {
			if !returned[i] {
				key, what = "C07/lin/request-never-returned", fmt.Sprintf("request %d never returned", i)
				return
			}
		}
		// candidate explanations: reference automata after each interleaving that tells every
		// request what it was really told
		var cands []*vmodel.Breaker
		for _, ord := range c07lOrders(n) {
			m := ref0
			admitted := make([]bool, n)
			ok := true
			for _, st := range ord {
				if !st.done {
					res := m.Admit(now)
					if res != told[st.caller] {
						ok = false
						break
					}
					admitted[st.caller] = res == ""
				} else if admitted[st.caller] {
					m.Done(now, p.Outcomes[st.caller] == 's')
				}
			}
			if ok {
				mm := m
				cands = append(cands, &mm)
			}
		}
		out = fmt.Sprintf("told=%q", told)
		cfg := fmt.Sprintf("ft=%d st=%d mr=%d, start state after %v (reference: %s), overlapping requests %s", p.FT, p.ST, p.MR, in.names(p.Prefix), ref0.State, p.Outcomes)
		if len(cands) == 0 {
			key, what = "C07/lin/answers-not-explained-by-any-order", fmt.Sprintf("%s: the requests were told %q; no order of their admission and completion steps gives these answers on the reference automaton", cfg, told)
			return
		}
		filter := func(pred func(m *vmodel.Breaker) bool) {
			var keep []*vmodel.Breaker
			for _, m := range cands {
				if pred(m) {
					keep = append(keep, m)
				}
			}
			cands = keep
		}
		st := stateName(cb.State())
		filter(func(m *vmodel.Breaker) bool { return m.State == st })
		if len(cands) == 0 {
			key, what = "C07/lin/state-not-explained-by-any-order", fmt.Sprintf("%s: told %q and the breaker is %s afterwards; no order of the steps explains both", cfg, told, st)
			return
		}
		// follow-up script, sequential
		for k, ev := range c07lSuffixes[p.Suffix] {
			if ev >= 3 {
				in.Advance(ev)
				continue
			}
			tnow := s.Clock()
			entered := false
			err := cb.Execute(func() error {
				entered = true
				if ev == 1 {
					return errTrial
				}
				return nil
			})
			got := ""
			switch {
			case entered:
			case errors.Is(err, ErrCircuitBreakerOpen):
				got = "open"
			case errors.Is(err, ErrTooManyRequests):
				got = "toomany"
			default:
				got = fmt.Sprintf("rejected(%v)", err)
			}
			st := stateName(cb.State())
			filter(func(m *vmodel.Breaker) bool {
				if m.Admit(tnow) != got {
					return false
				}
				if got == "" {
					m.Done(tnow, ev == 0)
				}
				return m.State == st
			})
			out += "/" + got + ":" + st
			if len(cands) == 0 {
				key, what = "C07/lin/later-behaviour-not-explained-by-any-order", fmt.Sprintf("%s: told %q; follow-up step %d (%s) was answered %q leaving the breaker %s: no order of the overlapping requests' steps explains the answers together with this behaviour", cfg, told, k, c07hEvents[ev], got, st)
				return
			}
		}
	}}
}

func (in *c07hInst) names(h []int) []string {
	out := make([]string, len(h))
	for i, e := range h {
		out[i] = c07hEvents[e]
	}
	return out
}

// Advance applies one of the clock events of c07hEvents.
func (in *c07hInst) Advance(ev int) {
	in.s.AdvanceQuiet([]time.Duration{900 * time.Millisecond, 2100 * time.Millisecond, 3100 * time.Millisecond}[ev-3])
}

func TestVerifC07Lin(t *testing.T) {
	r := vres.Open("C07", racePart("Lin"))
	defer func() {
		if err := r.Close(); err != nil {
			t.Fatal(err)
		}
	}()
	if vres.ReplayPath() != "" {
		var rp vh.SReplay
		var p c07lParams
		rp.Params = &p
		if err := vres.LoadReplay(&rp); err != nil {
			t.Fatal(err)
		}
		vh.ReplayS(c07lScenario(p, 0), rp.Choices)
		return
	}
	cfgs := [][3]int{{1, 1, 1}, {2, 1, 1}, {2, 2, 2}}
	depth, bound := 4, 2
	outs := []string{"ss", "sf", "ff", "sp", "fp"}
	if vres.Thorough() {
		cfgs = append(cfgs, [3]int{3, 2, 1}, [3]int{1, 2, 3}, [3]int{3, 3, 3})
		depth = 6
		outs = append(outs, "pp", "ssf", "sff", "sfp")
	}
	i := 0
	for _, c := range cfgs {
		starts := vh.ReachableH(c07hSpec(c07hParams{c[0], c[1], c[2]}, depth))
		for _, pre := range starts {
			for _, o := range outs {
				for sx := range c07lSuffixes {
					if len(o) == 3 && sx > 0 {
						continue
					}
					if vh.MyShard(i) {
						b := bound
						if len(o) == 3 {
							b = 2
						}
						vh.RunS(r, "TestVerifC07Lin", c07lScenario(c07lParams{FT: c[0], ST: c[1], MR: c[2], Prefix: pre, Outcomes: o, Suffix: sx}, b))
					}
					i++
				}
			}
		}
	}
	_ = strings.TrimSpace
}
