package loadbalancer_test

import "github.com/0xReLogic/Helios/internal/zzverif/vrt"

func racePart(p string) string {
	if vrt.RaceBuild {
		return p + "-Race"
	}
	return p
}
