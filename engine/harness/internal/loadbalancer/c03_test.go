package loadbalancer

import (
	"fmt"
	"strings"
	"testing"
	"time"

	"github.com/0xReLogic/Helios/internal/config"
	"github.com/0xReLogic/Helios/internal/zzverif/vh"
	"github.com/0xReLogic/Helios/internal/zzverif/vres"
	"github.com/0xReLogic/Helios/internal/zzverif/vrt"
)

// C03 (virtual-time part): every fault history over {ok, 500, refused, aborted response} and
// clock steps with breaker, limiter and passive checks on/off, on the real wiring under the
// scheduler: no step may deadlock or panic, and from every reachable state the recovery
// script (faults off, windows and timeouts elapsed, five requests) ends with three 200s and
// idle gauges. The wall-clock clauses (timeouts) are the wire-level part's business.

type c03Params struct {
	Strategy                  string
	Breaker, Limiter, Passive bool
	Active                    bool // active health checks: probe rounds with faulted probes are events too
}

// slow-*: the fault takes time (the virtual clock moves while the request is in flight): a
// backend that answers after 11 s, one that hangs for 61 s before the transport gives up, one
// whose answer takes over an hour
var c03Events = []string{"req-ok", "req-500", "req-refused", "req-abort", "clock+1.1s", "clock+11s", "req-garbage", "req-eof", "req-timeout", "req-103-then-500",
	"slow-11s-ok", "slow-61s-timeout", "slow-3601s-500", "slow-11s-abort", "req-503-retry-after-a-day",
	// the body of a 200 arrives in three pieces with the backend silent in between: for 29 s
	// (less than backend_read, the whole body must arrive) and for 31 s (the proxy must give up)
	"body-silent-29s", "body-silent-31s",
	// the same with pieces that fill the proxy's 32 KiB copy buffer exactly, one byte less and
	// one byte more: where in the body the silence falls must not matter
	"body-silent-31s-after-32768-byte-pieces", "body-silent-31s-after-32767-byte-pieces", "body-silent-31s-after-32769-byte-pieces", "body-silent-29s-after-32768-byte-pieces"}

// with active checks: one probe round in which every backend answers the probe that way
var c03ProbeEvents = []string{"probes-ok", "probes-500", "probes-refuse", "probes-garbage", "probes-eof", "probes-timeout"}

func c03EventsOf(p c03Params) []string {
	if p.Active {
		return append(append([]string(nil), c03Events...), c03ProbeEvents...)
	}
	return c03Events
}

type c03Inst struct {
	s   *vrt.Sched
	k   *kit
	p   c03Params
	out string
}

func (in *c03Inst) LastOutcome() string { return in.out }

func (in *c03Inst) Step(ev int) *vh.HViol {
	switch ev {
	case 4:
		in.s.AdvanceQuiet(1100 * time.Millisecond)
		return nil
	case 5:
		in.s.AdvanceQuiet(11 * time.Second)
		return nil
	}
	if ev >= len(c03Events) {
		mode := c03ProbeEvents[ev-len(c03Events)][len("probes-"):]
		for _, st := range in.k.stubs {
			st.probeMode = mode
		}
		if tk := in.s.TickerByPeriod(kitProbePeriod); tk != nil {
			tk.Fire()
		}
		in.s.Settle()
		for _, st := range in.k.stubs {
			st.probeMode = "ok"
		}
		in.out = "probed"
		return nil
	}
	mode := []string{"ok", "500", "refuse", "abort", "", "", "garbage", "eof", "timeout", "103+500", "slow11+ok", "slow61+timeout", "slow3601+500", "slow11+abort", "500ra", "pieces29000ms+ok", "pieces31000ms+ok", "pieces31000msx32768+ok", "pieces31000msx32767+ok", "pieces31000msx32769+ok", "pieces29000msx32768+ok"}[ev]
	res := in.k.requestMode("10.0.0.1", mode)
	in.out = fmt.Sprintf("%d/%v", res.Status, res.Aborted)
	switch {
	case strings.HasPrefix(mode, "pieces29000ms"):
		if want := 10; res.Status == 200 && (res.Aborted || !strings.HasPrefix(res.Body, "ok from ") || (strings.Contains(mode, "x") && len(res.Body) < 3*32767) || len(res.Body) < want) {
			return &vh.HViol{Key: "C03/seq/patient-backend-cut-off", What: fmt.Sprintf("a backend that is silent for 29 s between the pieces of its answer (backend_read is 30 s) had its answer cut off: %d bytes of body (%.20q...) aborted=%v (%s)", len(res.Body), res.Body, res.Aborted, mode)}
		}
	case strings.HasPrefix(mode, "pieces31000ms"):
		if res.Status == 200 && !res.Aborted && strings.HasPrefix(res.Body, "ok from ") && (!strings.Contains(mode, "x") || len(res.Body) >= 3*32767) {
			return &vh.HViol{Key: "C03/seq/silent-backend-waited-for", What: fmt.Sprintf("a backend that was silent for 31 s in the middle of its answer (backend_read is 30 s) was waited for: the client got the whole body (%d bytes, %.20q...) after more than a minute (%s)", len(res.Body), res.Body, mode)}
		}
	}
	if res.Status == 0 && !res.Aborted {
		return &vh.HViol{Key: "C03/seq/request-without-answer", What: "a request ended with neither a response nor an aborted connection"}
	}
	return nil
}

func (in *c03Inst) Fingerprint() string { return in.k.ControlState() }

func (in *c03Inst) Probe() *vh.HViol {
	in.s.AdvanceQuiet(11 * time.Second)
	cfg := fmt.Sprintf("%s breaker=%v limiter=%v passive=%v active=%v", in.p.Strategy, in.p.Breaker, in.p.Limiter, in.p.Passive, in.p.Active)
	if in.p.Active {
		// a healthy probe round, as the running loop would deliver
		if tk := in.s.TickerByPeriod(kitProbePeriod); tk != nil {
			tk.Fire()
		}
		in.s.Settle()
	}
	var seq []int
	for i := 0; i < 5; i++ {
		seq = append(seq, in.k.requestMode(fmt.Sprintf("10.8.0.%d", i), "ok").Status)
	}
	if seq[2] != 200 || seq[3] != 200 || seq[4] != 200 {
		return &vh.HViol{Key: "C03/seq/no-recovery-after-faults", What: fmt.Sprintf("%s: with healthy backends and all windows/timeouts elapsed five requests got %v", cfg, seq)}
	}
	for _, b := range in.k.lb.strategy.GetBackends() {
		if n := b.GetActiveConnections(); n != 0 {
			return &vh.HViol{Key: "C03/seq/gauge-not-zero-at-quiescence", What: fmt.Sprintf("%s: backend %s has active_connections=%d with nothing in flight", cfg, b.Name, n)}
		}
	}
	return nil
}

func c03Spec(p c03Params, depth int) vh.HSpec {
	name := fmt.Sprintf("faults-%s-breaker%v-limiter%v-passive%v", p.Strategy, p.Breaker, p.Limiter, p.Passive)
	if p.Active {
		name += "-active"
	}
	return vh.HSpec{Name: name, KeyPrefix: "C03/seq", Events: c03EventsOf(p), Depth: depth, Params: p,
		New: func(s *vrt.Sched) vh.HInstance {
			o := kitOpts{Strategy: p.Strategy, N: 2, Window: 10, Active: p.Active}
			if p.Passive {
				o.PassiveThr = 2
			}
			if p.Breaker {
				o.Breaker = &config.CircuitBreakerConfig{Enabled: true, MaxRequests: 1, IntervalSeconds: 5, TimeoutSeconds: 3, FailureThreshold: 2, SuccessThreshold: 2}
			}
			if p.Limiter {
				o.Limiter = &config.RateLimitConfig{Enabled: true, MaxTokens: 3, RefillRate: 1}
			}
			in := &c03Inst{s: s, k: newKit(s, o), p: p}
			if p.Active {
				s.Settle() // initial probe round of the health-check loop
			}
			return in
		}}
}

func TestVerifC03S(t *testing.T) {
	r := vres.Open("C03", "S")
	defer func() {
		if err := r.Close(); err != nil {
			t.Fatal(err)
		}
	}()
	depth := 7
	if vres.Thorough() {
		depth = 9
	}
	if vres.ReplayPath() != "" {
		var rp vh.HReplay
		var p c03Params
		rp.Params = &p
		if err := vres.LoadReplay(&rp); err != nil {
			t.Fatal(err)
		}
		vh.ReplayH(c03Spec(p, depth), rp.Events, rp.Probe)
		return
	}
	i := 0
	strategies := []string{"round_robin", "least_connections"}
	if vres.Thorough() {
		strategies = allStrategies
	}
	for _, st := range strategies {
		for m := 0; m < 8; m++ {
			if vh.MyShard(i) {
				vh.RunH(r, "TestVerifC03S", c03Spec(c03Params{Strategy: st, Breaker: m&1 != 0, Limiter: m&2 != 0, Passive: m&4 != 0}, depth))
			}
			i++
		}
		// with the active health-check loop: probe rounds answered by every kind of fault
		for _, m := range []int{0, 5, 7} {
			if !vres.Thorough() && m == 5 {
				continue
			}
			if vh.MyShard(i) {
				vh.RunH(r, "TestVerifC03S", c03Spec(c03Params{Strategy: st, Breaker: m&1 != 0, Limiter: m&2 != 0, Passive: m&4 != 0, Active: true}, depth-2))
			}
			i++
		}
	}
}

// C03 (schedules): faulted requests racing the active health-check loop. A backend that is
// ejected by a failing request while its probe is in flight, an aborted response while probes
// run, must never crash (panic / fatal unlock) or deadlock the proxy, and afterwards healthy
// traffic is served again.
type c03cParams struct {
	Strategy string
	Modes    []string
}

func c03cScenario(p c03cParams, bound int) vh.SScenario {
	return vh.SScenario{Name: fmt.Sprintf("faults-vs-probes-%s-%v", p.Strategy, p.Modes), KeyPrefix: "C03/conc", Bound: bound, Params: p, Horizon: 3000, Body: func(x *vh.Exec) {
		s := x.S
		k := newKit(s, kitOpts{Strategy: p.Strategy, N: 2, PassiveThr: 1, Window: 10, Active: true,
			Breaker: &config.CircuitBreakerConfig{Enabled: true, MaxRequests: 1, IntervalSeconds: 5, TimeoutSeconds: 3, FailureThreshold: 3, SuccessThreshold: 1}})
		s.Settle()
		recovered := ""
		x.Check = func(v vrt.Verdict) (string, string, string, bool) {
			if v.Kind != vrt.OK {
				return recovered, "", "", false
			}
			if recovered != "ok" {
				return recovered, "C03/conc/no-recovery-after-faults-racing-probes", "after faulted requests raced a probe round, healthy traffic is not served: " + recovered, true
			}
			return recovered, "", "", true
		}
		s.Branch(true)
		var ths []*vrt.Thread
		for i, m := range p.Modes {
			i, m := i, m
			ths = append(ths, s.Spawn(fmt.Sprintf("req-%s", m), func() { k.requestMode(fmt.Sprintf("10.0.0.%d", i+1), m) }))
		}
		ths = append(ths, s.Spawn("ticker", func() {
			if tk := s.TickerByPeriod(kitProbePeriod); tk != nil {
				tk.Fire()
			}
		}))
		s.Join(ths...)
		s.Settle()
		s.Branch(false)
		s.AdvanceQuiet(11 * time.Second)
		var seq []int
		for i := 0; i < 5; i++ {
			seq = append(seq, k.requestMode(fmt.Sprintf("10.8.0.%d", i), "ok").Status)
		}
		if seq[2] == 200 && seq[3] == 200 && seq[4] == 200 {
			recovered = "ok"
		} else {
			recovered = fmt.Sprint(seq)
		}
	}}
}

func TestVerifC03Conc(t *testing.T) {
	r := vres.Open("C03", racePart("Conc"))
	defer func() {
		if err := r.Close(); err != nil {
			t.Fatal(err)
		}
	}()
	if vres.ReplayPath() != "" {
		var rp vh.SReplay
		var p c03cParams
		rp.Params = &p
		if err := vres.LoadReplay(&rp); err != nil {
			t.Fatal(err)
		}
		vh.ReplayS(c03cScenario(p, 0), rp.Choices)
		return
	}
	bound := 1
	strategies := []string{"round_robin", "ip_hash"}
	if vres.Thorough() {
		bound = 2
		strategies = allStrategies
	}
	i := 0
	// the two-request scenarios are by far the largest: enumerate them first so that the
	// scenario-level sharding puts each on a shard of its own
	for _, m := range [][]string{{"500", "abort"}, {"500"}, {"abort"}, {"refuse"}} {
		for _, st := range strategies {
			if vh.MyShard(i) {
				vh.RunS(r, "TestVerifC03Conc", c03cScenario(c03cParams{st, m}, bound))
			}
			i++
		}
	}
}
