package loadbalancer

import (
	"fmt"
	"testing"
	"time"

	"github.com/0xReLogic/Helios/internal/config"
	"github.com/0xReLogic/Helios/internal/zzverif/vh"
	"github.com/0xReLogic/Helios/internal/zzverif/vres"
	"github.com/0xReLogic/Helios/internal/zzverif/vrt"
)

// C07 (the pool changes under a request). What a proxied request means to the breaker - a
// failure that counts, a successful trial - does not depend on what the Admin API does to the
// pool while the request is in flight: the backend was asked and has answered. Differential
// check: every history of the form
//
//	prefix (fresh / breaker open and timeout over, so that the next request is the trial)
//	a request is sent on and held at its backend
//	[nothing | another backend is added and the held request's backend removed | the strategy is switched]
//	the held request ends (200 / 500 / aborted response)
//	two more requests
//
// is run with and without the middle step, for every (failure_threshold, success_threshold,
// max_requests) in 1..2: breaker state, counts and the fate of the later requests must agree.
func TestVerifC07Removed(t *testing.T) {
	r := vres.Open("C07", "Removed")
	defer func() {
		if err := r.Close(); err != nil {
			t.Fatal(err)
		}
	}()
	start := time.Now()
	var evals int64
	var outs vres.Outcomes
	run := func(ft, st, mr int, strat, prefix, middle, end string) (string, bool) {
		out, ok := "", true
		s := vrt.Run(vrt.Options{Horizon: 1 << 30}, func(s *vrt.Sched) {
			k := newKit(s, kitOpts{Strategy: strat, N: 1, Breaker: &config.CircuitBreakerConfig{Enabled: true, MaxRequests: mr, IntervalSeconds: 2, TimeoutSeconds: 3, FailureThreshold: ft, SuccessThreshold: st}})
			k.AutoAdopt()
			if prefix == "trial" {
				for i := 0; i < ft; i++ {
					k.requestMode("10.0.0.1", "500")
				}
				s.AdvanceQuiet(3100 * time.Millisecond)
			}
			h := k.startHeld("10.0.0.2")
			if h.at == nil || h.done {
				out, ok = "held request was not forwarded", false
				return
			}
			switch middle {
			case "remove":
				if err := k.lb.AddBackend(config.BackendConfig{Name: "other", Address: "http://other.test:80", Weight: 1}); err != nil {
					vh.ToolError("add: %v", err)
				}
				k.AdoptAll()
				k.lb.RemoveBackend("b0")
			case "switch":
				if err := k.lb.SetStrategy("least_connections"); err != nil {
					vh.ToolError("switch: %v", err)
				}
			}
			was := h.at.mode
			h.at.mode = end
			k.release(h.at)
			h.at.mode = was
			evals++
			out = fmt.Sprintf("held:%d/%v state=%s", h.res.Status, h.res.Aborted, k.lb.circuitBreaker.State())
			fc, sc, rc := k.lb.circuitBreaker.Counts()
			out += fmt.Sprintf(" counts=%d/%d/%d", fc, sc, rc)
			for i := 0; i < 2; i++ {
				res := k.requestMode("10.0.0.3", "ok")
				out += fmt.Sprintf(" next:%d", res.Status)
				evals++
			}
			out += " state=" + k.lb.circuitBreaker.State().String()
		})
		if s.Verdict.Kind != vrt.OK {
			return s.Verdict.Kind.String() + ": " + s.Verdict.Detail, false
		}
		return out, ok
	}
	for ft := 1; ft <= 2; ft++ {
		for st := 1; st <= 2; st++ {
			for mr := 1; mr <= 2; mr++ {
				for _, strat := range []string{"round_robin", "ip_hash"} {
					for _, prefix := range []string{"fresh", "trial"} {
						for _, end := range []string{"ok", "500", "abort", "refuse"} {
							base, ok := run(ft, st, mr, strat, prefix, "", end)
							if !ok {
								r.Violate("C07/removed/"+base, base, 1, nil)
								continue
							}
							for _, middle := range []string{"remove", "switch"} {
								got, ok := run(ft, st, mr, strat, prefix, middle, end)
								outs.Add(fmt.Sprintf("%s/%s/%s/%v", prefix, middle, end, got == base))
								if !ok || got != base {
									what := map[string]string{"remove": "another backend was added and the request's backend removed", "switch": "the strategy was switched"}[middle]
									r.Violate("C07/removed/outcome-depends-on-the-pool-change/"+middle, fmt.Sprintf("%s ft=%d st=%d mr=%d, %s, a request held at its backend ends with %q: without a change to the pool: %s; when %s while it was in flight: %s", strat, ft, st, mr, map[string]string{"fresh": "breaker closed", "trial": "the held request is the half-open trial"}[prefix], end, base, what, got), ft+st+mr,
										map[string]interface{}{"engine": "H", "test": "TestVerifC07Removed", "ft": ft, "st": st, "mr": mr, "strategy": strat, "prefix": prefix, "middle": middle, "end": end})
								}
							}
						}
					}
				}
			}
		}
	}
	r.AddScenario(vres.Scenario{Name: "breaker-outcome-vs-pool-changes", Engine: "H", Executions: evals, States: evals, Transitions: evals, Outcomes: outs.N(),
		Bound: "(ft, st, mr) in 1..2 x 2 strategies x {breaker closed, held request is the half-open trial} x 4 ends of the held request x {backend removed, strategy switched} vs. no change; two follow-up requests", Exhaustive: true,
		Extra: map[string]interface{}{"wall_s": time.Since(start).Seconds()}})
}
