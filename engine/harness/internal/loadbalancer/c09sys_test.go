package loadbalancer

import (
	"fmt"
	"net/http"
	"testing"
	"time"

	"github.com/0xReLogic/Helios/internal/config"
	"github.com/0xReLogic/Helios/internal/zzverif/vh"
	"github.com/0xReLogic/Helios/internal/zzverif/vres"
	"github.com/0xReLogic/Helios/internal/zzverif/vrt"
)

// C09 at system level: the limiter sits in front of everything; a rejected request gets
// 429 and is not forwarded, an admitted one is forwarded; the per-client window bound
// holds whatever way the client address is spelled in the headers.

type c09ySpelling struct {
	name   string
	client int // identity the spelling denotes (0 = X, 1 = Y)
	edit   func(r *http.Request)
}

var c09ySpellings = []c09ySpelling{
	{"X:remote", 0, func(r *http.Request) { r.RemoteAddr = "10.1.1.1:5555" }},
	{"X:xff", 0, func(r *http.Request) { r.RemoteAddr = "172.16.0.9:1"; r.Header.Set("X-Forwarded-For", "10.1.1.1") }},
	{"X:xff-list", 0, func(r *http.Request) {
		r.RemoteAddr = "172.16.0.9:2"
		r.Header.Set("X-Forwarded-For", "10.1.1.1, 172.16.0.1")
	}},
	{"X:xff-spaces", 0, func(r *http.Request) {
		r.RemoteAddr = "172.16.0.9:3"
		r.Header.Set("X-Forwarded-For", "  10.1.1.1 ,172.16.0.1")
	}},
	{"X:real-ip", 0, func(r *http.Request) { r.RemoteAddr = "172.16.0.9:4"; r.Header.Set("X-Real-IP", "10.1.1.1") }},
	{"Y:remote-v6", 1, func(r *http.Request) { r.RemoteAddr = "[2001:db8::7]:443" }},
	{"Y:xff-v6", 1, func(r *http.Request) { r.RemoteAddr = "172.16.0.9:5"; r.Header.Set("X-Forwarded-For", "2001:db8::7") }},
}

type c09yArr struct {
	t  time.Duration
	ok bool
}

func c09yRun(max int, hist []int) (per [2][]c09yArr, key, what string, v vrt.Verdict) {
	s := vrt.Run(vrt.Options{}, func(s *vrt.Sched) {
		k := newKit(s, kitOpts{N: 2, Limiter: &config.RateLimitConfig{Enabled: true, MaxTokens: max, RefillRate: 1}})
		for _, e := range hist {
			if e >= len(c09ySpellings) {
				s.AdvanceQuiet(1100 * time.Millisecond)
				continue
			}
			sp := c09ySpellings[e]
			before := 0
			for _, h := range k.hitsVector() {
				before += h
			}
			res := k.requestWith("172.16.0.9", nil, sp.edit)
			after := 0
			for _, h := range k.hitsVector() {
				after += h
			}
			sent := after - before
			switch {
			case res.Status == 429 && sent != 0:
				key, what = "C09/sys/rejected-request-forwarded", fmt.Sprintf("%s answered 429 but a backend was contacted", sp.name)
			case res.Status != 429 && sent != 1:
				key, what = "C09/sys/admitted-request-not-forwarded", fmt.Sprintf("%s answered %d with %d backend contacts", sp.name, res.Status, sent)
			}
			per[sp.client] = append(per[sp.client], c09yArr{s.Clock(), res.Status != 429})
		}
	})
	return per, key, what, s.Verdict
}

func c09yBound(max int, arr []c09yArr) (string, string) {
	for i := 0; i < len(arr) && i < max; i++ {
		if !arr[i].ok {
			return "C09/sys/new-client-burst-short", fmt.Sprintf("arrival %d of a new client rejected with max_tokens=%d", i+1, max)
		}
	}
	for i := range arr {
		adm := 0
		for j := i; j < len(arr); j++ {
			if arr[j].ok {
				adm++
			}
			if bound := max + int((arr[j].t-arr[i].t)/time.Second) + 1; adm > bound {
				return "C09/sys/window-bound-exceeded-across-spellings", fmt.Sprintf("%d requests of one client admitted between t=%v and t=%v, bound %d (max_tokens=%d)", adm, arr[i].t, arr[j].t, bound, max)
			}
		}
	}
	return "", ""
}

func c09yNames(h []int) []string {
	out := make([]string, len(h))
	for i, e := range h {
		if e < len(c09ySpellings) {
			out[i] = c09ySpellings[e].name
		} else {
			out[i] = "+1.1s"
		}
	}
	return out
}

type c09yReplay struct {
	Max    int
	Events []int
}

func TestVerifC09Sys(t *testing.T) {
	r := vres.Open("C09", "Sys")
	defer func() {
		if err := r.Close(); err != nil {
			t.Fatal(err)
		}
	}()
	if vres.ReplayPath() != "" {
		var rp struct{ Params c09yReplay }
		if err := vres.LoadReplay(&rp); err != nil {
			t.Fatal(err)
		}
		per, k, w, v := c09yRun(rp.Params.Max, rp.Params.Events)
		fmt.Println("REPLAY", c09yNames(rp.Params.Events), per, k, w, v.Kind)
		return
	}
	depth := 4
	if vres.Thorough() {
		depth = 5
	}
	nev := len(c09ySpellings) + 1
	for max := 1; max <= 2; max++ {
		start := time.Now()
		var evals int64
		var outs vres.Outcomes
		hist := make([]int, depth)
		var rec func(d int)
		rec = func(d int) {
			if d == depth {
				per, key, what, v := c09yRun(max, hist)
				evals++
				if v.Kind != vrt.OK {
					key, what = "C09/sys/"+v.Kind.String(), v.Detail
				}
				for c := 0; c < 2 && key == ""; c++ {
					key, what = c09yBound(max, per[c])
				}
				o := ""
				for c := 0; c < 2; c++ {
					for _, a := range per[c] {
						if a.ok {
							o += "1"
						} else {
							o += "0"
						}
					}
					o += "|"
				}
				outs.Add(o)
				if key != "" {
					hh := append([]int(nil), hist...)
					r.Violate(key, what+fmt.Sprintf(" | history %v", c09yNames(hh)), len(hh), map[string]interface{}{"engine": "H", "test": "TestVerifC09Sys", "params": c09yReplay{max, hh}})
				}
				return
			}
			for e := 0; e < nev; e++ {
				if d == 0 && !vh.MyShard(e) {
					continue
				}
				hist[d] = e
				rec(d + 1)
			}
		}
		rec(0)
		r.AddScenario(vres.Scenario{Name: fmt.Sprintf("limiter-sys-max%d", max), Engine: "H", Executions: evals, States: evals, Transitions: evals * int64(depth),
			Outcomes: outs.N(), Bound: fmt.Sprintf("all histories of length %d over %d address spellings of two clients and a clock step, through ServeHTTP", depth, len(c09ySpellings)),
			Exhaustive: true, Sample: map[string]interface{}{"history": c09yNames(hist)}, Extra: map[string]interface{}{"wall_s": time.Since(start).Seconds()}})
	}
}
