package loadbalancer

import (
	"fmt"
	"net/http"
	"strings"
	"testing"
	"time"

	"github.com/0xReLogic/Helios/internal/config"
	"github.com/0xReLogic/Helios/internal/zzverif/vh"
	"github.com/0xReLogic/Helios/internal/zzverif/vres"
	"github.com/0xReLogic/Helios/internal/zzverif/vrt"
)

// C09 at system level: the limiter sits in front of everything; a rejected request gets
// 429 and is not forwarded, an admitted one is forwarded; the per-client window bound
// holds whatever way the client address is spelled in the headers.

type c09ySpelling struct {
	name   string
	client int // identity the spelling denotes (0 = X, 1 = Y)
	edit   func(r *http.Request)
}

var c09ySpellings = []c09ySpelling{
	{"X:remote", 0, func(r *http.Request) { r.RemoteAddr = "10.1.1.1:5555" }},
	{"X:xff", 0, func(r *http.Request) { r.RemoteAddr = "172.16.0.9:1"; r.Header.Set("X-Forwarded-For", "10.1.1.1") }},
	{"X:xff-list", 0, func(r *http.Request) {
		r.RemoteAddr = "172.16.0.9:2"
		r.Header.Set("X-Forwarded-For", "10.1.1.1, 172.16.0.1")
	}},
	{"X:xff-spaces", 0, func(r *http.Request) {
		r.RemoteAddr = "172.16.0.9:3"
		r.Header.Set("X-Forwarded-For", "  10.1.1.1 ,172.16.0.1")
	}},
	{"X:real-ip", 0, func(r *http.Request) { r.RemoteAddr = "172.16.0.9:4"; r.Header.Set("X-Real-IP", "10.1.1.1") }},
	{"Y:remote-v6", 1, func(r *http.Request) { r.RemoteAddr = "[2001:db8::7]:443" }},
	{"Y:xff-v6", 1, func(r *http.Request) { r.RemoteAddr = "172.16.0.9:5"; r.Header.Set("X-Forwarded-For", "2001:db8::7") }},
	// front proxies that write the source port along, or put an IPv6 address in brackets
	{"X:xff-port", 0, func(r *http.Request) {
		r.RemoteAddr = "172.16.0.9:6"
		r.Header.Set("X-Forwarded-For", "10.1.1.1:50123")
	}},
	{"X:real-ip-port", 0, func(r *http.Request) { r.RemoteAddr = "172.16.0.9:7"; r.Header.Set("X-Real-IP", "10.1.1.1:40000") }},
	{"Y:xff-v6-port", 1, func(r *http.Request) {
		r.RemoteAddr = "172.16.0.9:8"
		r.Header.Set("X-Forwarded-For", "[2001:db8::7]:8443")
	}},
	{"Y:xff-v6-bracketed", 1, func(r *http.Request) { r.RemoteAddr = "172.16.0.9:9"; r.Header.Set("X-Forwarded-For", "[2001:db8::7]") }},
}

type c09yArr struct {
	t  time.Duration
	ok bool
}

func c09yRun(max int, hist []int) (per [2][]c09yArr, key, what string, v vrt.Verdict) {
	s := vrt.Run(vrt.Options{}, func(s *vrt.Sched) {
		k := newKit(s, kitOpts{N: 2, Limiter: &config.RateLimitConfig{Enabled: true, MaxTokens: max, RefillRate: 1}})
		for _, e := range hist {
			if e >= len(c09ySpellings) {
				s.AdvanceQuiet(1100 * time.Millisecond)
				continue
			}
			sp := c09ySpellings[e]
			before := 0
			for _, h := range k.hitsVector() {
				before += h
			}
			res := k.requestWith("172.16.0.9", nil, sp.edit)
			after := 0
			for _, h := range k.hitsVector() {
				after += h
			}
			sent := after - before
			switch {
			case res.Status == 429 && sent != 0:
				key, what = "C09/sys/rejected-request-forwarded", fmt.Sprintf("%s answered 429 but a backend was contacted", sp.name)
			case res.Status != 429 && sent != 1:
				key, what = "C09/sys/admitted-request-not-forwarded", fmt.Sprintf("%s answered %d with %d backend contacts", sp.name, res.Status, sent)
			}
			per[sp.client] = append(per[sp.client], c09yArr{s.Clock(), res.Status != 429})
		}
	})
	return per, key, what, s.Verdict
}

func c09yBound(max int, arr []c09yArr) (string, string) {
	for i := 0; i < len(arr) && i < max; i++ {
		if !arr[i].ok {
			return "C09/sys/new-client-burst-short", fmt.Sprintf("arrival %d of a new client rejected with max_tokens=%d", i+1, max)
		}
	}
	for i := range arr {
		adm := 0
		for j := i; j < len(arr); j++ {
			if arr[j].ok {
				adm++
			}
			if bound := max + int((arr[j].t-arr[i].t)/time.Second) + 1; adm > bound {
				return "C09/sys/window-bound-exceeded-across-spellings", fmt.Sprintf("%d requests of one client admitted between t=%v and t=%v, bound %d (max_tokens=%d)", adm, arr[i].t, arr[j].t, bound, max)
			}
		}
	}
	return "", ""
}

func c09yNames(h []int) []string {
	out := make([]string, len(h))
	for i, e := range h {
		if e < len(c09ySpellings) {
			out[i] = c09ySpellings[e].name
		} else {
			out[i] = "+1.1s"
		}
	}
	return out
}

// backend outcomes: what the backend answers (or that it fails) does not change what the
// limiter has spent - a request that was forwarded cost a token whatever became of it.
var c09yModes = []string{"ok", "404", "500", "refuse", "abort", "timeout", "103+500"}

type c09yOutcomeReplay struct {
	Max     int
	Feature string
	Events  []int
}

func c09yRunOutcomes(max int, feature string, hist []int) (key, what, out string, v vrt.Verdict) {
	s := vrt.Run(vrt.Options{}, func(s *vrt.Sched) {
		o := kitOpts{N: 2, Limiter: &config.RateLimitConfig{Enabled: true, MaxTokens: max, RefillRate: 1}}
		switch feature {
		case "breaker":
			o.Breaker = &config.CircuitBreakerConfig{Enabled: true, MaxRequests: 1, IntervalSeconds: 5, TimeoutSeconds: 3, FailureThreshold: 2, SuccessThreshold: 1}
		case "passive":
			o.PassiveThr, o.Window = 1, 10
		}
		k := newKit(s, o)
		type arr struct {
			t         time.Duration
			forwarded bool
			limited   bool
		}
		var arrs []arr
		for _, e := range hist {
			if e >= len(c09yModes) {
				s.AdvanceQuiet(1100 * time.Millisecond)
				out += "+"
				continue
			}
			before := 0
			for _, h := range k.hitsVector() {
				before += h
			}
			res := k.requestMode("10.1.1.1", c09yModes[e])
			after := 0
			for _, h := range k.hitsVector() {
				after += h
			}
			if res.Status == 429 && after != before {
				key, what = "C09/sys/rejected-request-forwarded", fmt.Sprintf("a request answered 429 reached a backend (backend behaviour %s)", c09yModes[e])
			}
			arrs = append(arrs, arr{s.Clock(), after != before, res.Status == 429})
			out += fmt.Sprintf("%d,", res.Status)
		}
		for i := range arrs {
			fwd, adm := 0, 0
			for j := i; j < len(arrs); j++ {
				if arrs[j].forwarded {
					fwd++
				}
				if !arrs[j].limited {
					adm++
				}
				bound := max + int((arrs[j].t-arrs[i].t)/time.Second) + 1
				if fwd > bound && key == "" {
					key, what = "C09/sys/more-forwarded-than-the-bound", fmt.Sprintf("%d requests of one client were forwarded to a backend between t=%v and t=%v, bound max+floor(T/refill)+1 = %d (max_tokens=%d): what the backend answered gave tokens back", fwd, arrs[i].t, arrs[j].t, bound, max)
				}
				if adm > bound && key == "" {
					key, what = "C09/sys/more-admitted-than-the-bound", fmt.Sprintf("%d requests of one client got an answer other than 429 between t=%v and t=%v, bound %d (max_tokens=%d)", adm, arrs[i].t, arrs[j].t, bound, max)
				}
			}
		}
	})
	return key, what, out, s.Verdict
}

func c09yOutcomeNames(h []int) []string {
	out := make([]string, len(h))
	for i, e := range h {
		if e < len(c09yModes) {
			out[i] = "req:" + c09yModes[e]
		} else {
			out[i] = "+1.1s"
		}
	}
	return out
}

type c09yReplay struct {
	Max    int
	Events []int
}

func TestVerifC09Sys(t *testing.T) {
	r := vres.Open("C09", "Sys")
	defer func() {
		if err := r.Close(); err != nil {
			t.Fatal(err)
		}
	}()
	if vres.ReplayPath() != "" {
		var rp struct{ Params c09yReplay }
		if err := vres.LoadReplay(&rp); err != nil {
			t.Fatal(err)
		}
		per, k, w, v := c09yRun(rp.Params.Max, rp.Params.Events)
		fmt.Println("REPLAY", c09yNames(rp.Params.Events), per, k, w, v.Kind)
		return
	}
	depth := 4
	if vres.Thorough() {
		depth = 5
	}
	nev := len(c09ySpellings) + 1
	for max := 1; max <= 2; max++ {
		start := time.Now()
		var evals int64
		var outs vres.Outcomes
		hist := make([]int, depth)
		var rec func(d int)
		rec = func(d int) {
			if d == depth {
				per, key, what, v := c09yRun(max, hist)
				evals++
				if v.Kind != vrt.OK {
					key, what = "C09/sys/"+v.Kind.String(), v.Detail
				}
				for c := 0; c < 2 && key == ""; c++ {
					key, what = c09yBound(max, per[c])
				}
				o := ""
				for c := 0; c < 2; c++ {
					for _, a := range per[c] {
						if a.ok {
							o += "1"
						} else {
							o += "0"
						}
					}
					o += "|"
				}
				outs.Add(o)
				if key != "" {
					hh := append([]int(nil), hist...)
					r.Violate(key, what+fmt.Sprintf(" | history %v", c09yNames(hh)), len(hh), map[string]interface{}{"engine": "H", "test": "TestVerifC09Sys", "params": c09yReplay{max, hh}})
				}
				return
			}
			for e := 0; e < nev; e++ {
				if d == 0 && !vh.MyShard(e) {
					continue
				}
				hist[d] = e
				rec(d + 1)
			}
		}
		rec(0)
		r.AddScenario(vres.Scenario{Name: fmt.Sprintf("limiter-sys-max%d", max), Engine: "H", Executions: evals, States: evals, Transitions: evals * int64(depth),
			Outcomes: outs.N(), Bound: fmt.Sprintf("all histories of length %d over %d address spellings of two clients and a clock step, through ServeHTTP", depth, len(c09ySpellings)),
			Exhaustive: true, Sample: map[string]interface{}{"history": c09yNames(hist)}, Extra: map[string]interface{}{"wall_s": time.Since(start).Seconds()}})
	}
	// header values that are no address at all, or lists with empty elements: whatever client
	// such a request is attributed to, it is *some* client - the burst bound holds for it, and a
	// request answered 429 is not forwarded
	if vh.MyShard(3) {
		start := time.Now()
		var evals int64
		values := []string{", 10.1.2.3", ",10.9.9.9", ",", ", ,", " ", "unknown", "-", "_hidden", "10.1.2.3,", "[", "::", "999.999.999.999", "a b", strings.Repeat("7", 4096)}
		for _, where := range []string{"X-Forwarded-For", "X-Real-IP"} {
			for _, val := range values {
				for max := 1; max <= 3; max++ {
					admitted, forwarded := 0, 0
					s := vrt.Run(vrt.Options{Horizon: 1 << 30}, func(s *vrt.Sched) {
						k := newKit(s, kitOpts{N: 2, Limiter: &config.RateLimitConfig{Enabled: true, MaxTokens: max, RefillRate: 1}})
						for i := 0; i < max+4; i++ {
							before := 0
							for _, h := range k.hitsVector() {
								before += h
							}
							res := k.requestWith("172.16.0.9", nil, func(r *http.Request) { r.RemoteAddr = "172.16.0.9:1"; r.Header.Set(where, val) })
							after := 0
							for _, h := range k.hitsVector() {
								after += h
							}
							evals++
							if res.Status != 429 {
								admitted++
							}
							forwarded += after - before
						}
					})
					if s.Verdict.Kind != vrt.OK {
						r.Violate("C09/sys/"+s.Verdict.Kind.String(), s.Verdict.Detail, 1, nil)
						continue
					}
					if admitted > max || forwarded > max {
						r.Violate("C09/sys/burst-bound-exceeded/odd-header-value", fmt.Sprintf("max_tokens=%d: %d requests at the same instant with %s: %.40q: %d admitted, %d forwarded to a backend", max, max+4, where, val, admitted, forwarded), len(val), map[string]interface{}{"engine": "H", "test": "TestVerifC09Sys", "header": where, "value": val, "max": max})
					}
				}
			}
		}
		r.AddScenario(vres.Scenario{Name: "limiter-sys-odd-header-values", Engine: "H", Executions: evals, States: evals, Transitions: evals, Outcomes: 1,
			Bound: fmt.Sprintf("%d values that are no address or have empty list elements x {X-Forwarded-For, X-Real-IP} x max_tokens 1..3, max_tokens+4 simultaneous requests each", len(values)), Exhaustive: true,
			Extra: map[string]interface{}{"wall_s": time.Since(start).Seconds()}})
	}
	// backend outcomes x features
	odepth := 5
	if vres.Thorough() {
		odepth = 6
	}
	onev := len(c09yModes) + 1
	shardNo := 0
	for _, feature := range []string{"plain", "breaker", "passive"} {
		for max := 1; max <= 2; max++ {
			shardNo++
			if !vh.MyShard(shardNo) {
				continue
			}
			start := time.Now()
			var evals int64
			var outs vres.Outcomes
			hist := make([]int, odepth)
			var rec func(d int)
			rec = func(d int) {
				if d == odepth {
					key, what, out, v := c09yRunOutcomes(max, feature, hist)
					evals++
					if v.Kind != vrt.OK {
						key, what = "C09/sys/"+v.Kind.String(), v.Detail
					}
					outs.Add(out)
					if key != "" {
						hh := append([]int(nil), hist...)
						r.Violate(key, fmt.Sprintf("max_tokens=%d, %s: %s | history %v", max, feature, what, c09yOutcomeNames(hh)), len(hh), map[string]interface{}{"engine": "H", "test": "TestVerifC09Sys", "outcomes": c09yOutcomeReplay{max, feature, hh}})
					}
					return
				}
				for e := 0; e < onev; e++ {
					hist[d] = e
					rec(d + 1)
				}
			}
			rec(0)
			r.AddScenario(vres.Scenario{Name: fmt.Sprintf("limiter-sys-backend-outcomes-%s-max%d", feature, max), Engine: "H", Executions: evals, States: evals, Transitions: evals * int64(odepth),
				Outcomes: outs.N(), Bound: fmt.Sprintf("all histories of length %d of one client over %d backend behaviours and a clock step, through ServeHTTP, feature %s", odepth, len(c09yModes), feature),
				Exhaustive: true, Extra: map[string]interface{}{"wall_s": time.Since(start).Seconds()}})
		}
	}
}
