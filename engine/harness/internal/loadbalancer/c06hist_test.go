package loadbalancer

import (
	"fmt"
	"testing"
	"time"

	"github.com/0xReLogic/Helios/internal/config"
	"github.com/0xReLogic/Helios/internal/zzverif/vh"
	"github.com/0xReLogic/Helios/internal/zzverif/vres"
	"github.com/0xReLogic/Helios/internal/zzverif/vrt"
)

// C06 (history part): the affinity and the append clause on an instance with a past. The
// affinity part asks fresh instances; here an explicit-state search runs histories of ejections,
// windows running out, appended backends and a crowd of other clients over one instance and asks
// a fixed set of clients after every event. Monitor, straight from the statement:
//   - between two observations of a client with no change of the pool or of the eligible set in
//     between, the client is served by the same backend ("for as long as the set of eligible
//     backends is unchanged");
//   - across an append (ip_hash_consistent), with the eligible set otherwise the same, a client
//     is where it was or at the appended backend;
//   - the choice is an eligible backend.
// Whatever the strategies remember from earlier requests (a table of earlier answers, a cursor)
// has to agree with this.

var c06hEvents = []string{"eject:b0-for-10s", "eject:b1-for-10s", "eject:b2-for-10s", "clock+11s", "append-a-backend", "1100-other-clients-once-each"}

var c06hClients = []string{"10.0.0.1", "10.0.0.2", "10.1.2.3", "192.168.1.77", "203.0.113.9", "2001:db8::1", "172.20.0.9", "198.51.100.23"}

type c06hParams struct{ Strategy string }

type c06hInst struct {
	s        *vrt.Sched
	k        *kit
	p        c06hParams
	out      string
	appended int
	crowds   int
	// epoch counts the changes of the pool and of the eligible set; seen[c] is where client c
	// was served and in which epoch
	epoch   int
	until   map[string]time.Duration // ejected backends: end of the window
	seenAt  []int
	seenIn  []int
	lastAdd string // the backend appended by the event just run ("" otherwise)
}

func (in *c06hInst) LastOutcome() string { return in.out }

func (in *c06hInst) eligible(name string) bool {
	u, ok := in.until[name]
	return !ok || in.s.Clock() >= u
}

func (in *c06hInst) Step(ev int) *vh.HViol {
	in.lastAdd = ""
	onlyAppend := false
	switch {
	case ev <= 2:
		name := fmt.Sprintf("b%d", ev)
		in.k.lb.MarkBackendUnhealthy(in.k.backendByName(name), 10*time.Second)
		in.until[name] = in.s.Clock() + 10*time.Second
		in.epoch++
	case ev == 3:
		before := 0
		for n := range in.until {
			if !in.eligible(n) {
				before++
			}
		}
		in.s.AdvanceQuiet(11 * time.Second)
		for n := range in.until {
			if in.eligible(n) {
				delete(in.until, n)
			}
		}
		if before > 0 {
			in.epoch++
		}
	case ev == 4:
		name := fmt.Sprintf("x%d", in.appended)
		in.appended++
		if err := in.k.lb.AddBackend(config.BackendConfig{Name: name, Address: "http://" + name + ".test:80", Weight: 1}); err != nil {
			vh.ToolError("add: %v", err)
		}
		in.k.adopt(in.k.backendByName(name))
		in.lastAdd = name
		in.epoch++
		onlyAppend = true
	case ev == 5:
		in.crowds++
		for i := 0; i < 1100; i++ {
			in.k.request(fmt.Sprintf("172.%d.%d.%d", 16+in.crowds, i>>8&255, i&255), nil)
		}
	}
	anyEligible := false
	for _, st := range in.k.stubs {
		if in.eligible(st.name) {
			anyEligible = true
		}
	}
	in.out = ""
	for ci, c := range c06hClients {
		before := in.k.hitsVector()
		res := in.k.request(c, nil)
		got := -1
		for i, h := range in.k.hitsVector() {
			if h > before[i] {
				got = i
			}
		}
		in.out += fmt.Sprint(got, " ")
		desc := fmt.Sprintf("%s, %d backends", in.p.Strategy, len(in.k.stubs))
		if got < 0 {
			if anyEligible {
				return &vh.HViol{Key: "C06/history/" + in.p.Strategy + "/choice-not-eligible", What: fmt.Sprintf("%s: client %s was answered %d by no backend although an eligible backend exists", desc, c, res.Status)}
			}
			in.seenAt[ci], in.seenIn[ci] = -1, in.epoch
			continue
		}
		name := in.k.stubs[got].name
		if !in.eligible(name) {
			return &vh.HViol{Key: "C06/history/" + in.p.Strategy + "/choice-not-eligible", What: fmt.Sprintf("%s: client %s was served by %s, which is inside its unhealthy window", desc, c, name)}
		}
		was := in.seenAt[ci]
		switch {
		case was >= 0 && in.seenIn[ci] == in.epoch && got != was:
			return &vh.HViol{Key: "C06/history/" + in.p.Strategy + "/affinity-broken/eligible-set-unchanged", What: fmt.Sprintf("%s: client %s was served by %s and, with neither the pool nor the set of eligible backends changed since, by %s after %q", desc, c, in.k.stubs[was].name, name, c06hEvents[ev])}
		case onlyAppend && in.p.Strategy == "ip_hash_consistent" && was >= 0 && in.seenIn[ci] == in.epoch-1 && got != was && name != in.lastAdd:
			return &vh.HViol{Key: "C06/history/ip_hash_consistent/append/moved-to-an-old-backend", What: fmt.Sprintf("%s: appending %s moved client %s from %s to %s", desc, in.lastAdd, c, in.k.stubs[was].name, name)}
		}
		in.seenAt[ci], in.seenIn[ci] = got, in.epoch
	}
	return nil
}

func (in *c06hInst) Fingerprint() string {
	// the monitor's memory relative to the current epoch, the windows that run, and whatever the
	// strategy keeps
	mem := ""
	for ci := range c06hClients {
		mem += fmt.Sprintf("%d@%d,", in.seenAt[ci], in.epoch-in.seenIn[ci])
	}
	win := ""
	for _, st := range in.k.stubs {
		win += fmt.Sprint(in.eligible(st.name), ",")
	}
	return vh.FingerprintClip(12*time.Second, in.k.lb.strategy) + "|" + mem + "|" + win + fmt.Sprint("|", in.appended, in.crowds) + in.k.novel()
}

func c06hSpec(p c06hParams, depth int) vh.HSpec {
	return vh.HSpec{
		Name: "affinity-with-a-past-" + p.Strategy, KeyPrefix: "C06/history", Events: c06hEvents, Depth: depth, Params: p,
		New: func(s *vrt.Sched) vh.HInstance {
			k := newKit(s, kitOpts{Strategy: p.Strategy, N: 3})
			in := &c06hInst{s: s, k: k, p: p, until: map[string]time.Duration{}, seenAt: make([]int, len(c06hClients)), seenIn: make([]int, len(c06hClients))}
			for i := range in.seenAt {
				in.seenAt[i] = -1
			}
			return in
		},
		Enabled: func(inst vh.HInstance, ev int) bool {
			in := inst.(*c06hInst)
			switch ev {
			case 4:
				return in.appended < 2
			case 5:
				return in.crowds < 1
			}
			return true
		},
	}
}

func TestVerifC06Hist(t *testing.T) {
	r := vres.Open("C06", "Hist")
	defer func() {
		if err := r.Close(); err != nil {
			t.Fatal(err)
		}
	}()
	depth := 5
	if vres.Thorough() {
		depth = 7
	}
	if vres.ReplayPath() != "" {
		var rp vh.HReplay
		var p c06hParams
		rp.Params = &p
		if err := vres.LoadReplay(&rp); err != nil {
			t.Fatal(err)
		}
		vh.ReplayH(c06hSpec(p, depth), rp.Events, rp.Probe)
		return
	}
	for i, strat := range []string{"ip_hash", "ip_hash_consistent"} {
		if vh.MyShard(i) {
			vh.RunH(r, "TestVerifC06Hist", c06hSpec(c06hParams{strat}, depth))
		}
	}
}
