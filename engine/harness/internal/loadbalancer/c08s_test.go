package loadbalancer

import (
	"fmt"
	"testing"
	"time"

	"github.com/0xReLogic/Helios/internal/circuitbreaker"
	"github.com/0xReLogic/Helios/internal/config"
	"github.com/0xReLogic/Helios/internal/zzverif/vh"
	"github.com/0xReLogic/Helios/internal/zzverif/vres"
	"github.com/0xReLogic/Helios/internal/zzverif/vrt"
)

// C08 (schedules): state changes triggered from concurrent and from panicking requests,
// with the balancer's real OnStateChange callback installed, never block request
// processing; afterwards the recovery script still closes the breaker.

type c08sParams struct {
	FT, ST, MR int
	Start      string // "closed", "open-expired" (tripped, timeout elapsed), "closed-stale-failure" or "reached"
	Prefix     []int  // Start "reached": events of c08Events (interval 2s, timeout 3s) leading to the start state
	Modes      []string
}

func c08sScenario(p c08sParams, bound int) vh.SScenario {
	name := fmt.Sprintf("breaker-conc-%s-ft%d-st%d-mr%d-%v", p.Start, p.FT, p.ST, p.MR, p.Modes)
	if p.Start == "reached" {
		name = fmt.Sprintf("breaker-conc-reached%v-ft%d-st%d-mr%d-%v", p.Prefix, p.FT, p.ST, p.MR, p.Modes)
	}
	return vh.SScenario{Name: name, KeyPrefix: "C08/conc", Bound: bound, Params: p, Body: func(x *vh.Exec) {
		s := x.S
		k := newKit(s, kitOpts{N: 1, Breaker: &config.CircuitBreakerConfig{Enabled: true, MaxRequests: p.MR, IntervalSeconds: 2,
			TimeoutSeconds: 3, FailureThreshold: p.FT, SuccessThreshold: p.ST}})
		st := k.stubs[0]
		if p.Start == "open-expired" {
			st.mode = "500"
			for i := 0; i < p.FT; i++ {
				k.request("10.0.0.1", nil)
			}
			if k.lb.circuitBreaker.State() != circuitbreaker.StateOpen {
				vh.ToolError("setup: breaker not open after %d failed requests", p.FT)
			}
			s.AdvanceQuiet(3100 * time.Millisecond)
		}
		if p.Start == "closed-stale-failure" {
			// CLOSED with one failure on record whose counting interval (2s) has lapsed: the next
			// arrivals take the counter-reset path
			st.mode = "500"
			k.request("10.0.0.1", nil)
			if k.lb.circuitBreaker.State() != circuitbreaker.StateClosed {
				vh.ToolError("setup: breaker not closed after one failed request with failure_threshold %d", p.FT)
			}
			s.AdvanceQuiet(2100 * time.Millisecond)
		}
		var in *c08Inst
		if p.Start == "reached" {
			in = &c08Inst{s: s, k: k, p: c08Params{FT: p.FT, ST: p.ST, MR: p.MR, Interval: 2, Timeout: 3}}
			for _, e := range p.Prefix {
				in.Step(e)
			}
		}
		results := make([]reqResult, len(p.Modes))
		done := make([]bool, len(p.Modes))
		recovered := ""
		premature := ""
		x.Check = func(v vrt.Verdict) (string, string, string, bool) {
			out := ""
			for i := range results {
				out += fmt.Sprintf("%d/%v ", results[i].Status, results[i].Aborted)
			}
			out += recovered
			if v.Kind != vrt.OK {
				return out, "", "", false
			}
			for i, d := range done {
				if !d {
					return out, "C08/conc/request-never-returned", fmt.Sprintf("request %d (%s) never returned", i, p.Modes[i]), true
				}
			}
			if premature != "" {
				return out, "C08/conc/rejected-request-counted-against-the-breaker", premature, true
			}
			if recovered != "closed" {
				return out, "C08/conc/no-recovery-after-concurrent-transitions", "after the concurrent requests and a healthy backend the breaker did not close: " + recovered, true
			}
			return out, "", "", true
		}
		x.State = func() string { return vh.FingerprintClip(3200*time.Millisecond, k.lb.circuitBreaker) }
		s.Branch(true)
		var ths []*vrt.Thread
		for i := range p.Modes {
			i := i
			ths = append(ths, s.Spawn(fmt.Sprintf("req%d", i), func() {
				// each request's backend behaviour is fixed by its thread
				results[i] = k.requestMode("10.0.0.1", p.Modes[i])
				done[i] = true
			}))
		}
		s.Join(ths...)
		s.Branch(false)
		allOK := true
		for _, m := range p.Modes {
			if m != "ok" {
				allOK = false
			}
		}
		for _, r := range results {
			if r.Status == 503 {
				allOK = false // arrived while the breaker was (still) open: it stays open
			}
		}
		if allOK && k.lb.circuitBreaker.State() == circuitbreaker.StateOpen {
			premature = fmt.Sprintf("every concurrent request succeeded (or was turned away by the breaker itself), yet the breaker is OPEN afterwards (start %s)", p.Start)
		}
		// recovery script
		st.mode = "ok"
		if in != nil && in.held != nil {
			// the start state has a request in flight at the backend (it stayed there while the
			// others overlapped): requests succeed again, so does that one
			k.release(in.held.at)
			in.held = nil
		}
		s.AdvanceQuiet(3100 * time.Millisecond)
		for i := 0; i < p.ST+p.MR+2; i++ {
			k.request("10.0.0.1", nil)
		}
		last := k.request("10.0.0.1", nil)
		if last.Status == 200 && k.lb.circuitBreaker.State() == circuitbreaker.StateClosed {
			recovered = "closed"
		} else {
			recovered = fmt.Sprintf("last=%d state=%s", last.Status, k.lb.circuitBreaker.State())
		}
	}}
}

func c08sScenarios() []vh.SScenario {
	bound := 2
	if vres.Thorough() {
		bound = 3
	}
	var out []vh.SScenario
	pairs := [][]string{{"abort", "abort"}, {"500", "abort"}, {"ok", "abort"}, {"500", "500"}, {"ok", "500"}, {"ok", "ok"}, {"ok", "ok", "ok"}}
	for _, start := range []string{"closed", "open-expired"} {
		for _, c := range [][3]int{{1, 1, 1}, {2, 2, 1}, {1, 2, 2}} {
			for _, m := range pairs {
				if len(m) == 3 && (start == "closed" || c != [3]int{1, 1, 1}) {
					continue // the triple only where a trial can be in flight while others arrive
				}
				out = append(out, c08sScenario(c08sParams{FT: c[0], ST: c[1], MR: c[2], Start: start, Modes: m}, bound))
			}
		}
	}
	for _, m := range [][]string{{"ok", "500"}, {"500", "500"}, {"ok", "ok"}, {"500", "abort"}} {
		out = append(out, c08sScenario(c08sParams{FT: 2, ST: 1, MR: 1, Start: "closed-stale-failure", Modes: m}, bound))
	}
	if vres.Thorough() {
		out = append(out, c08sScenario(c08sParams{FT: 3, ST: 1, MR: 1, Start: "closed-stale-failure", Modes: []string{"ok", "500", "500"}}, 2))
		for _, m := range [][]string{{"abort", "500", "ok"}, {"abort", "abort", "abort"}} {
			out = append(out, c08sScenario(c08sParams{FT: 2, ST: 1, MR: 1, Start: "closed", Modes: m}, 2))
			out = append(out, c08sScenario(c08sParams{FT: 1, ST: 2, MR: 2, Start: "open-expired", Modes: m}, 2))
		}
	}
	return out
}

func TestVerifC08S(t *testing.T) {
	r := vres.Open("C08", racePart("S"))
	defer func() {
		if err := r.Close(); err != nil {
			t.Fatal(err)
		}
	}()
	if vres.ReplayPath() != "" {
		var rp vh.SReplay
		var p c08sParams
		rp.Params = &p
		if err := vres.LoadReplay(&rp); err != nil {
			t.Fatal(err)
		}
		vh.ReplayS(c08sScenario(p, 0), rp.Choices)
		return
	}
	for i, sc := range c08sScenarios() {
		if vh.MyShard(i) {
			vh.RunS(r, "TestVerifC08S", sc)
		}
	}
}

// TestVerifC08Reach: the same overlapping requests, started from every control state the
// sequential search (c08Spec) reaches within a few events instead of from hand-picked ones.
func TestVerifC08Reach(t *testing.T) {
	r := vres.Open("C08", racePart("Reach"))
	defer func() {
		if err := r.Close(); err != nil {
			t.Fatal(err)
		}
	}()
	if vres.ReplayPath() != "" {
		var rp vh.SReplay
		var p c08sParams
		rp.Params = &p
		if err := vres.LoadReplay(&rp); err != nil {
			t.Fatal(err)
		}
		vh.ReplayS(c08sScenario(p, 0), rp.Choices)
		return
	}
	cfgs := [][3]int{{1, 1, 1}, {2, 2, 1}}
	depth, bound := 3, 2
	pairs := [][]string{{"ok", "ok"}, {"ok", "500"}, {"500", "abort"}}
	if vrt.RaceBuild {
		depth = 2
	}
	if vres.Thorough() {
		cfgs = append(cfgs, [3]int{2, 1, 2}, [3]int{3, 2, 2})
		depth = 4
		if vrt.RaceBuild {
			depth = 3
		}
		pairs = append(pairs, []string{"ok", "abort"}, []string{"500", "500"})
	}
	i := 0
	for _, c := range cfgs {
		for _, pre := range vh.ReachableH(c08Spec(c08Params{FT: c[0], ST: c[1], MR: c[2], Interval: 2, Timeout: 3}, depth)) {
			for _, m := range pairs {
				if vh.MyShard(i) {
					vh.RunS(r, "TestVerifC08Reach", c08sScenario(c08sParams{FT: c[0], ST: c[1], MR: c[2], Start: "reached", Prefix: pre, Modes: m}, bound))
				}
				i++
			}
		}
	}
}
