package loadbalancer

import (
	"fmt"
	"github.com/0xReLogic/Helios/internal/circuitbreaker"
	"net/http"
	"testing"
	"time"

	"github.com/0xReLogic/Helios/internal/config"
	"github.com/0xReLogic/Helios/internal/zzverif/vh"
	"github.com/0xReLogic/Helios/internal/zzverif/vmodel"
	"github.com/0xReLogic/Helios/internal/zzverif/vres"
	"github.com/0xReLogic/Helios/internal/zzverif/vrt"
)

// C07 at system level: proxied failures (5xx, unreachable, aborted response) are what
// trips the breaker; while it is open nothing reaches a backend.

type c07yParams struct {
	Strategy   string
	FT, ST, MR int
}

var c07yEvents = []string{"req-ok", "req-500", "req-refused(502)", "req-abort", "clock+0.9s(<interval)", "clock+2.1s(>interval,<timeout)", "clock+3.1s(>timeout)",
	"req-103-then-500", "req-103-then-ok", "req-garbage(502)", "req-timeout(502)",
	// every request is subject to the breaker, whatever its kind: requests that ask for a protocol
	// upgrade (which the backend declines with an ordinary answer), other methods
	"upgrade-request-ok", "upgrade-request-500", "POST-500", "HEAD-ok", "OPTIONS-500",
	// the client has gone before the backend answers (its request context is cancelled): an
	// aborted exchange, which counts as a failure - in particular it is no successful trial
	"req-client-gone",
	// every backend is taken out of rotation for 10 s (as the passive health checks do after
	// failed responses): a request the breaker admits then finds no backend and is answered
	// 503 by the balancer itself - no backend was asked, so that is neither a successful nor a
	// failed trial
	"eject-all-backends-for-10s", "clock+11s",
	// exchanges that fail on the client's side after the backend has been asked: the upload
	// cannot be read to its end (502), the client does not take the response body (aborted).
	// Failed proxied requests like any other: the statement counts 5xx and aborted responses
	"req-bad-upload(502)", "req-client-refuses-body"}

type c07yInst struct {
	s   *vrt.Sched
	k   *kit
	p   c07yParams
	ref *vmodel.Breaker
	out string
	// ejectedUntil: every backend is outside the rotation until then (injected)
	ejectedUntil time.Duration
}

func (in *c07yInst) LastOutcome() string { return in.out }

func (in *c07yInst) Step(ev int) *vh.HViol {
	modes := []string{"ok", "500", "refuse", "abort", "", "", "", "103+500", "103+ok", "garbage", "timeout", "ok", "500", "500", "ok", "500", "client-gone", "", "", "bad-upload", "client-refuses"}
	edits := map[int]func(*http.Request){
		11: func(r *http.Request) { r.Header.Set("Connection", "Upgrade"); r.Header.Set("Upgrade", "h2c") },
		12: func(r *http.Request) {
			r.Header.Set("Connection", "keep-alive, Upgrade")
			r.Header.Set("Upgrade", "websocket")
		},
		13: func(r *http.Request) { r.Method = "POST" },
		14: func(r *http.Request) { r.Method = "HEAD" },
		15: func(r *http.Request) { r.Method = "OPTIONS" },
	}
	switch ev {
	case 4:
		in.s.AdvanceQuiet(900 * time.Millisecond)
		return nil
	case 5:
		in.s.AdvanceQuiet(2100 * time.Millisecond)
		return nil
	case 6:
		in.s.AdvanceQuiet(3100 * time.Millisecond)
		return nil
	case 17:
		for _, b := range in.k.lb.strategy.GetBackends() {
			in.k.lb.MarkBackendUnhealthy(b, 10*time.Second)
		}
		in.ejectedUntil = in.s.Clock() + 10*time.Second
		in.out = "ejected"
		return nil
	case 18:
		in.s.AdvanceQuiet(11 * time.Second)
		return nil
	}
	for _, st := range in.k.stubs {
		st.mode = modes[ev]
	}
	now := in.s.Clock()
	want := in.ref.Admit(now)
	before := 0
	for _, h := range in.k.hitsVector() {
		before += h
	}
	var res reqResult
	if modes[ev] == "client-gone" {
		res = in.k.requestCancelled("10.0.0.1")
	} else if modes[ev] == "bad-upload" {
		for _, st := range in.k.stubs {
			st.mode = "ok"
		}
		res = in.k.requestBadUpload("10.0.0.1")
	} else if modes[ev] == "client-refuses" {
		for _, st := range in.k.stubs {
			st.mode = "ok"
		}
		res = in.k.requestClientRefuses("10.0.0.1")
	} else {
		res = in.k.requestWith("10.0.0.1", nil, edits[ev])
	}
	after := 0
	for _, h := range in.k.hitsVector() {
		after += h
	}
	sent := after - before
	cfg := fmt.Sprintf("%s ft=%d st=%d mr=%d", in.p.Strategy, in.p.FT, in.p.ST, in.p.MR)
	in.out = fmt.Sprintf("%d/sent%d/%s", res.Status, sent, in.ref.State)
	if want != "" {
		// must be rejected without contacting a backend
		if sent != 0 {
			return &vh.HViol{Key: "C07/sys/backend-contacted-while-" + want, What: fmt.Sprintf("%s: at t=%v the reference breaker rejects (%s) but a backend was contacted (status %d)", cfg, now, want, res.Status)}
		}
		if want == "open" && res.Status != 503 || want == "toomany" && res.Status != 429 && res.Status != 503 {
			return &vh.HViol{Key: "C07/sys/wrong-rejection-status", What: fmt.Sprintf("%s: rejected (%s) with status %d", cfg, want, res.Status)}
		}
		return nil
	}
	if sent == 0 && now <= in.ejectedUntil && res.Status == 503 {
		// admitted by the breaker, answered by the balancer: no backend was asked. Whether the
		// trial slot it took is given back is left open (the reference follows the breaker's own
		// count); what the statement fixes is that such a request is no successful trial - the
		// breaker must not close on it - and, being no failed proxied request, no failure either
		was := in.ref.State
		if st := stateName07(in.k.lb.circuitBreaker.State()); st != was {
			return &vh.HViol{Key: "C07/sys/state-changed-by-a-request-that-reached-no-backend", What: fmt.Sprintf("%s: at t=%v the breaker was %s and a request it admitted was answered 503 \"no healthy backend\" by the balancer itself, without a backend being asked; afterwards the breaker is %s (a trial that reaches no backend is neither a successful nor a failed one)", cfg, now, was, st)}
		}
		if was == "half" {
			_, _, rc := in.k.lb.circuitBreaker.Counts()
			in.ref.Req = int(rc)
		}
		return nil
	}
	if sent == 0 {
		return &vh.HViol{Key: "C07/sys/request-not-forwarded/ref-" + in.ref.State, What: fmt.Sprintf("%s: at t=%v the reference breaker (%s) admits the request but no backend was contacted (status %d)", cfg, now, in.ref.State, res.Status)}
	}
	in.ref.Done(now, modes[ev] == "ok" || modes[ev] == "103+ok")
	return nil
}

func stateName07(st circuitbreaker.State) string {
	switch st {
	case circuitbreaker.StateClosed:
		return "closed"
	case circuitbreaker.StateOpen:
		return "open"
	}
	return "half"
}

func (in *c07yInst) Fingerprint() string {
	m := in.ref.Canon(in.s.Clock(), 3200*time.Millisecond)
	return vh.FingerprintClip(3200*time.Millisecond, in.k.lb.circuitBreaker, in.k.lb.strategy) + fmt.Sprintf("|%+v", m) + in.k.novel() + fmt.Sprint("|ejected:", in.ejectedUntil >= in.s.Clock())
}

func c07ySpec(p c07yParams, depth int) vh.HSpec {
	return vh.HSpec{
		Name: fmt.Sprintf("breaker-sys-%s-ft%d-st%d-mr%d", p.Strategy, p.FT, p.ST, p.MR), KeyPrefix: "C07/sys", Events: c07yEvents, Depth: depth, Params: p,
		New: func(s *vrt.Sched) vh.HInstance {
			k := newKit(s, kitOpts{Strategy: p.Strategy, N: 2, Breaker: &config.CircuitBreakerConfig{Enabled: true, MaxRequests: p.MR,
				IntervalSeconds: 2, TimeoutSeconds: 3, FailureThreshold: p.FT, SuccessThreshold: p.ST}})
			return &c07yInst{s: s, k: k, p: p, ref: vmodel.NewBreaker(p.FT, p.ST, p.MR, 2*time.Second, 3*time.Second)}
		},
	}
}

var allStrategies = []string{"round_robin", "least_connections", "weighted_round_robin", "ip_hash", "ip_hash_consistent"}

func TestVerifC07Sys(t *testing.T) {
	r := vres.Open("C07", "Sys")
	defer func() {
		if err := r.Close(); err != nil {
			t.Fatal(err)
		}
	}()
	depth := 6
	if vres.Thorough() {
		depth = 9
	}
	if vres.ReplayPath() != "" {
		var rp vh.HReplay
		var p c07yParams
		rp.Params = &p
		if err := vres.LoadReplay(&rp); err != nil {
			t.Fatal(err)
		}
		vh.ReplayH(c07ySpec(p, depth), rp.Events, rp.Probe)
		return
	}
	i := 0
	for _, strat := range allStrategies {
		for _, c := range [][3]int{{1, 1, 1}, {2, 1, 1}, {2, 2, 2}, {3, 1, 2}, {1, 2, 3}} {
			if !vres.Thorough() && strat != "round_robin" && strat != "least_connections" && c != [3]int{2, 1, 1} {
				continue
			}
			if vh.MyShard(i) {
				vh.RunH(r, "TestVerifC07Sys", c07ySpec(c07yParams{strat, c[0], c[1], c[2]}, depth))
			}
			i++
		}
	}
}
