package loadbalancer

import (
	"fmt"
	"net/http"
	"reflect"
	"testing"
	"time"

	"github.com/0xReLogic/Helios/internal/config"
	"github.com/0xReLogic/Helios/internal/zzverif/vres"
)

// C18 (settings that are converted on their way into the balancer). The circuit breaker keeps
// its thresholds as 32-bit numbers; the configuration has plain integers. For each of the three
// counts and the magnitudes around 2^31 and 2^32: a configuration that config.Validate accepts
// must give a breaker that has exactly that count in force ("never starts half-configured");
// refusing the value is the other allowed outcome.
func TestVerifC18Breaker(t *testing.T) {
	r := vres.Open("C18", "Breaker")
	defer func() {
		if err := r.Close(); err != nil {
			t.Fatal(err)
		}
	}()
	start := time.Now()
	var evals int64
	var outs vres.Outcomes
	http.DefaultTransport = &stubRT{probe: true}
	fields := []struct{ yaml, field string }{{"failure_threshold", "failureThreshold"}, {"success_threshold", "successThreshold"}, {"max_requests", "maxRequests"}}
	for _, f := range fields {
		for _, v := range []int{1, 2, 1000, 1<<31 - 1, 1 << 31, 1<<32 - 1, 1 << 32, 1<<32 + 1, 1<<32 + 5, 1 << 40, 1<<63 - 1} {
			cfg := kitConfig(kitOpts{N: 1, Breaker: &config.CircuitBreakerConfig{Enabled: true, MaxRequests: 1, IntervalSeconds: 5, TimeoutSeconds: 3, FailureThreshold: 2, SuccessThreshold: 1}})
			switch f.yaml {
			case "failure_threshold":
				cfg.CircuitBreaker.FailureThreshold = v
			case "success_threshold":
				cfg.CircuitBreaker.SuccessThreshold = v
			case "max_requests":
				cfg.CircuitBreaker.MaxRequests = v
			}
			evals++
			if err := cfg.Validate(); err != nil {
				outs.Add(f.yaml + "/refused")
				continue
			}
			lb, err := NewLoadBalancer(cfg)
			if err != nil {
				outs.Add(f.yaml + "/start-up error")
				continue
			}
			got := reflect.ValueOf(lb.circuitBreaker).Elem().FieldByName(f.field)
			lb.Stop()
			if !got.IsValid() {
				t.Fatalf("the breaker has no field %s any more: adapt the harness", f.field)
			}
			outs.Add(fmt.Sprintf("%s/%v", f.yaml, got.Uint() == uint64(v)))
			if got.Uint() != uint64(v) {
				r.Violate("C18/setting-not-in-force/circuit_breaker."+f.yaml, fmt.Sprintf("circuit_breaker.%s = %d is accepted by config.Validate, the breaker runs with %d", f.yaml, v, got.Uint()), 5, map[string]interface{}{"engine": "H", "test": "TestVerifC18Breaker", "field": f.yaml, "value": v})
			}
		}
	}
	r.AddScenario(vres.Scenario{Name: "breaker-counts-in-force", Engine: "H", Executions: evals, States: evals, Transitions: evals, Outcomes: outs.N(),
		Bound: "failure_threshold, success_threshold, max_requests x {1, 2, 1000, 2^31-1, 2^31, 2^32-1, 2^32, 2^32+1, 2^32+5, 2^40, 2^63-1}: accepted values are read back from the breaker NewLoadBalancer builds", Exhaustive: true,
		Extra: map[string]interface{}{"wall_s": time.Since(start).Seconds()}})
}
