package loadbalancer

import (
	"fmt"
	"strings"
	"testing"
	"time"

	"github.com/0xReLogic/Helios/internal/config"
	"github.com/0xReLogic/Helios/internal/zzverif/vh"
	"github.com/0xReLogic/Helios/internal/zzverif/vres"
	"github.com/0xReLogic/Helios/internal/zzverif/vrt"
)

// C04 health state machine. The oracle is a monitor, not a generator: it watches the
// responses the scripted backends produce and the health flag Helios publishes
// (ListBackends = /v1/backends, metrics mirror = /metrics and /health) and checks
//   permitted: an ejection shows up only after >= threshold recorded failures since the last
//              ejection (passive) or a failed probe; never after a successful probe
//   required:  after threshold consecutive failed responses, or a failed probe, the backend is ejected
//   isolation: no client traffic reaches a backend inside its window
//   honesty:   neither endpoint says healthy for a backend inside its window
//   recovery:  (probe on every state) once every window has elapsed a sweep of requests
//              reaches every listed backend again — with active checks on, after one tick

type c04Params struct {
	Strategy string
	N        int
	Thr      int // passive threshold; 0 = passive off
	Active   bool
	Held     bool // the held-request alphabet (see c04Events)
	Gone     bool `json:",omitempty"` // the alphabet with clients that go away (see c04Events)
}

const c04Window = 10 * time.Second

type c04Mon struct {
	consec, cum int
	until       time.Duration // -1: not ejected
}

type c04Inst struct {
	s      *vrt.Sched
	k      *kit
	p      c04Params
	events []string
	mon    []*c04Mon
	out    string
	held   *held
	// heldGone: the backend the held request is in flight at was removed (and registered anew)
	heldGone bool
}

func c04Events(p c04Params) []string {
	ev := []string{"req:10.0.0.1", "req:10.0.0.2"}
	for i := 0; i < p.N; i++ {
		ev = append(ev, fmt.Sprintf("flip-500:b%d", i))
	}
	// a backend that accepts and never answers in time: the failure arrives as a timeout error;
	// and one whose 500 follows an interim response (103 Early Hints): a failed response all the same
	ev = append(ev, "flip-timeout:b0", "flip-103+500:b0", "flip-500ra:b0")
	// a backend whose failing answers take 11 s: the unhealthy window starts when the failure is
	// known, not when the request was sent
	ev = append(ev, "flip-slow+500:b0")
	if vres.Thorough() {
		ev = append(ev, "flip-refuse:b0", "flip-garbage:b0")
	}
	// the operator takes b0 out and registers it again (same name and address): a new backend,
	// which has no failed responses on record and is not ejected
	ev = append(ev, "readd:b0")
	if p.Held {
		// a request that stays in flight at its backend while other events happen (the backend is
		// ejected, its window lapses ...) and ends later with a 200: separate, smaller searches
		// (c04HeldSpec) in which ejections are injected, so that the windows are known exactly
		// finish-held-500: it ends badly instead; readd:b0 while it is in flight: what it ends
		// with is the business of the backend that is gone, not of the one registered since
		return []string{"req:10.0.0.1", "req:10.0.0.2", "start-held", "finish-held", "eject:b0", "eject:b1", "clock+4s(<window)", "clock+11s(>window)", "finish-held-500", "readd:b0"}
	}
	if p.Gone {
		// clients that go away before their request is sent on, or while it is in flight at the
		// backend: the client gets nothing (the proxy writes a 502 nobody reads), but that is no
		// failed response of the backend - separate, smaller searches
		// likewise a client whose upload breaks off (malformed chunk) and one that does not take
		// the response body (broken pipe): the exchange fails, the backend has not
		return []string{"req:10.0.0.1", "req:10.0.0.2", "req-gone:10.0.0.1", "req-gone-midway:10.0.0.2", "flip-500:b0", "flip-500:b1", "clock+4s(<window)", "clock+11s(>window)",
			"req-gone-bad-upload:10.0.0.1", "req-gone-refuses-body:10.0.0.2"}
	}
	if p.Active {
		ev = append(ev, "tick")
	}
	ev = append(ev, "clock+4s(<window)", "clock+11s(>window)", "clock+9.7s(just-inside)", "clock+0.6s")
	return ev
}

func (in *c04Inst) LastOutcome() string { return in.out }

func (in *c04Inst) cfg() string {
	return fmt.Sprintf("%s n=%d threshold=%d active=%v", in.p.Strategy, in.p.N, in.p.Thr, in.p.Active)
}

// observe compares the published health with the monitor after an event.
// probeFailed / probeOK: which backends had a probe answered during this event.
func (in *c04Inst) observe(probeFailed, probeOK map[int]bool) *vh.HViol {
	now := in.s.Clock()
	infos := in.k.lb.ListBackends()
	mm := in.k.lb.GetMetricsCollector().GetMetrics()
	for i, m := range in.mon {
		name := fmt.Sprintf("b%d", i)
		flag := true
		for _, bi := range infos {
			if bi.Name == name {
				flag = bi.Healthy
			}
		}
		inside := m.until >= 0 && now <= m.until
		if !flag && !inside && !(m.until >= 0 && now > m.until) {
			// a new ejection became visible
			okPassive := in.p.Thr > 0 && m.cum >= in.p.Thr
			if !okPassive && !probeFailed[i] {
				why := fmt.Sprintf("%d failed response(s) recorded since the last ejection, threshold %d", m.cum, in.p.Thr)
				if probeOK[i] {
					return &vh.HViol{Key: "C04/ejected-after-successful-probe", What: fmt.Sprintf("%s: %s ejected although its probe succeeded (%s)", in.cfg(), name, why)}
				}
				return &vh.HViol{Key: "C04/ejected-too-early", What: fmt.Sprintf("%s: %s ejected with %s and no failed probe", in.cfg(), name, why)}
			}
			m.until, m.consec = now+c04Window, 0
			if okPassive {
				// failures are counted since the last passive ejection (the statement does not
				// say that a probe-caused ejection forgets earlier failed responses)
				m.cum = 0
			}
			inside = true
		}
		if !flag && m.until >= 0 && now > m.until {
			// stale flag after the window: allowed (lazy expiry) unless a fresh cause exists
			if okPassive := in.p.Thr > 0 && m.cum >= in.p.Thr; okPassive || probeFailed[i] {
				m.until, m.consec = now+c04Window, 0
				if okPassive {
					m.cum = 0
				}
				inside = true
			}
		}
		if flag && m.until >= 0 && now > m.until {
			m.until = -1
		}
		if flag && inside {
			return &vh.HViol{Key: "C04/reported-healthy-inside-window/backends-endpoint", What: fmt.Sprintf("%s: /v1/backends says %s healthy at t=%v inside its unhealthy window (until t=%v)", in.cfg(), name, now, m.until)}
		}
		if bm, ok := mm.BackendMetrics[name]; ok && bm.IsHealthy && inside {
			return &vh.HViol{Key: "C04/reported-healthy-inside-window/metrics", What: fmt.Sprintf("%s: metrics/health endpoint says %s healthy at t=%v inside its unhealthy window (until t=%v)", in.cfg(), name, now, m.until)}
		}
		if flag && in.p.Thr > 0 && m.consec >= in.p.Thr {
			return &vh.HViol{Key: "C04/not-ejected-after-threshold", What: fmt.Sprintf("%s: %s still healthy after %d consecutive failed responses", in.cfg(), name, m.consec)}
		}
		if flag && probeFailed[i] {
			return &vh.HViol{Key: "C04/not-ejected-after-failed-probe", What: fmt.Sprintf("%s: %s still healthy after a failed active probe", in.cfg(), name)}
		}
	}
	return nil
}

func (in *c04Inst) doRequest(client string) *vh.HViol {
	now := in.s.Clock()
	before := in.k.hitsVector()
	res := in.k.request(client, nil)
	in.out = fmt.Sprint(res.Status)
	for i, h := range in.k.hitsVector() {
		if h > before[i] {
			m := in.mon[i]
			if m.until >= 0 && now <= m.until {
				return &vh.HViol{Key: "C04/traffic-inside-window/" + in.p.Strategy, What: fmt.Sprintf("%s: b%d received a client request at t=%v inside its unhealthy window (until t=%v)", in.cfg(), i, now, m.until)}
			}
			if res.Status >= 500 {
				m.consec++
				m.cum++
			} else {
				m.consec = 0
			}
		}
	}
	return nil
}

func (in *c04Inst) tick() (failed, ok map[int]bool) {
	failed, ok = map[int]bool{}, map[int]bool{}
	before := make([]int, len(in.k.stubs))
	for i, st := range in.k.stubs {
		before[i] = st.probes
	}
	if tk := in.s.TickerByPeriod(kitProbePeriod); tk != nil {
		tk.Fire()
	}
	in.s.Settle()
	for i, st := range in.k.stubs {
		if st.probes > before[i] {
			if st.probeMode == "ok" {
				ok[i] = true
			} else {
				failed[i] = true
			}
		}
	}
	return
}

func (in *c04Inst) Step(ev int) *vh.HViol {
	e := in.events[ev]
	in.out = ""
	var pf, pok map[int]bool
	switch {
	case strings.HasPrefix(e, "req:"):
		if v := in.doRequest(e[4:]); v != nil {
			return v
		}
	case strings.HasPrefix(e, "req-gone"):
		now := in.s.Clock()
		before := in.k.hitsVector()
		var res reqResult
		if strings.HasPrefix(e, "req-gone-midway:") {
			res = in.k.requestGoneMidway(e[len("req-gone-midway:"):])
		} else if strings.HasPrefix(e, "req-gone-bad-upload:") {
			res = in.k.requestBadUpload(e[len("req-gone-bad-upload:"):])
		} else if strings.HasPrefix(e, "req-gone-refuses-body:") {
			res = in.k.requestClientRefuses(e[len("req-gone-refuses-body:"):])
		} else {
			res = in.k.requestCancelled(e[len("req-gone:"):])
		}
		in.out = fmt.Sprint(res.Status)
		for i, h := range in.k.hitsVector() {
			// neither a failed nor a good response of the backend: the monitor's counts stay
			if m := in.mon[i]; h > before[i] && m.until >= 0 && now <= m.until {
				return &vh.HViol{Key: "C04/traffic-inside-window/" + in.p.Strategy, What: fmt.Sprintf("%s: b%d received a client request at t=%v inside its unhealthy window (until t=%v)", in.cfg(), i, now, m.until)}
			}
		}
	case strings.HasPrefix(e, "flip-"):
		bad := e[len("flip-"):strings.Index(e, ":")]
		st := in.k.stub(e[strings.Index(e, ":")+1:])
		if st.mode == "ok" {
			st.mode, st.probeMode = bad, strings.TrimSuffix(strings.TrimPrefix(strings.TrimPrefix(bad, "103+"), "slow+"), "ra")
		} else {
			st.mode, st.probeMode = "ok", "ok"
		}
		in.out = st.mode
	case e == "start-held":
		if in.held != nil {
			in.out = "already-held"
			break
		}
		now := in.s.Clock()
		before := in.k.hitsVector()
		h := in.k.startHeld("10.0.0.3")
		for i, n := range in.k.hitsVector() {
			if n > before[i] {
				if m := in.mon[i]; m.until >= 0 && now <= m.until {
					return &vh.HViol{Key: "C04/traffic-inside-window/" + in.p.Strategy, What: fmt.Sprintf("%s: b%d received a client request at t=%v inside its unhealthy window (until t=%v)", in.cfg(), i, now, m.until)}
				}
			}
		}
		if h.done || h.at == nil {
			in.out = fmt.Sprintf("not-held:%d", h.res.Status)
		} else {
			in.held = h
			in.out = "held-at:" + h.at.name
		}
	case e == "finish-held" || e == "finish-held-500":
		if in.held == nil {
			in.out = "nothing-held"
			break
		}
		h := in.held
		in.held = nil
		was := h.at.mode
		if e == "finish-held-500" {
			h.at.mode = "500"
		}
		in.k.release(h.at)
		h.at.mode = was
		in.out = fmt.Sprintf("held-finished:%d", h.res.Status)
		gone := in.heldGone
		in.heldGone = false
		for i, st := range in.k.stubs {
			if st == h.at && !gone {
				if h.res.Status >= 500 {
					in.mon[i].consec++
					in.mon[i].cum++
					// a request that was on its way when its backend was ejected may complete the
					// threshold while the backend is out: the backend is ejected anew from this
					// moment and the count starts afresh (the flag was down already, so no new
					// ejection "becomes visible" for observe to notice)
					if m, now := in.mon[i], in.s.Clock(); in.p.Thr > 0 && m.cum >= in.p.Thr && m.until >= 0 && now <= m.until {
						m.until, m.consec, m.cum = now+c04Window, 0, 0
					}
				} else {
					in.mon[i].consec = 0
				}
			}
		}
	case strings.HasPrefix(e, "eject:"):
		i := int(e[len(e)-1] - '0')
		in.k.lb.MarkBackendUnhealthy(in.k.backendByName(fmt.Sprintf("b%d", i)), c04Window)
		// like an ejection by a failed probe: the failed responses on record stay on record
		in.mon[i].until, in.mon[i].consec = in.s.Clock()+c04Window, 0
		in.out = "ejected"
	case e == "readd:b0":
		if in.held != nil && in.held.at != nil && in.held.at.name == "b0" {
			in.heldGone = true
		}
		in.k.lb.RemoveBackend("b0")
		if err := in.k.lb.AddBackend(config.BackendConfig{Name: "b0", Address: "http://b0.test:80"}); err != nil {
			vh.ToolError("re-adding b0: %v", err)
		}
		in.k.adopt(in.k.backendByName("b0"))
		*in.mon[0] = c04Mon{until: -1}
		in.out = "re-registered"
	case e == "tick":
		pf, pok = in.tick()
		in.out = fmt.Sprintf("probes-failed=%d ok=%d", len(pf), len(pok))
	case e == "clock+4s(<window)":
		in.s.AdvanceQuiet(4 * time.Second)
	case e == "clock+11s(>window)":
		in.s.AdvanceQuiet(11 * time.Second)
	case e == "clock+9.7s(just-inside)":
		in.s.AdvanceQuiet(9700 * time.Millisecond)
	case e == "clock+0.6s":
		in.s.AdvanceQuiet(600 * time.Millisecond)
	}
	return in.observe(pf, pok)
}

// Probe: recovery. Everything answers ok again; all windows elapse; (tick;) a sweep of
// requests must reach every backend.
func (in *c04Inst) Probe() *vh.HViol {
	for _, st := range in.k.stubs {
		st.mode, st.probeMode = "ok", "ok"
	}
	if in.held != nil {
		in.k.release(in.held.at)
		in.held = nil
	}
	in.s.AdvanceQuiet(11 * time.Second)
	if in.p.Active {
		in.tick()
	}
	before := in.k.hitsVector()
	if in.p.Strategy == "least_connections" {
		// least_connections only spreads overlapping requests: keep one in flight per backend
		var hs []*held
		for i := 0; i < in.p.N; i++ {
			hs = append(hs, in.k.startHeld("10.9.0.1"))
		}
		for _, h := range hs {
			if h.at != nil {
				in.k.release(h.at)
			}
		}
		for i, h := range in.k.hitsVector() {
			if h == before[i] {
				return &vh.HViol{Key: "C04/recovery/no-traffic-after-window/" + in.p.Strategy, What: fmt.Sprintf("%s: b%d received none of %d overlapping requests after its unhealthy window elapsed", in.cfg(), i, in.p.N)}
			}
		}
		return nil
	}
	for c := 0; c < 48; c++ {
		res := in.k.request(fmt.Sprintf("10.9.%d.%d", c/7, c*37%251), nil)
		if res.Status != 200 {
			return &vh.HViol{Key: "C04/recovery/request-failed-after-windows-elapsed/" + in.p.Strategy, What: fmt.Sprintf("%s: with every backend answering and all windows elapsed a request got %d", in.cfg(), res.Status)}
		}
	}
	for i, h := range in.k.hitsVector() {
		if h == before[i] {
			return &vh.HViol{Key: "C04/recovery/no-traffic-after-window/" + in.p.Strategy, What: fmt.Sprintf("%s: b%d received none of 48 requests (48 client addresses) after its unhealthy window elapsed: it never returns to rotation", in.cfg(), i)}
		}
	}
	return nil
}

func (in *c04Inst) Fingerprint() string {
	now := in.s.Clock()
	var b strings.Builder
	b.WriteString(strategyState(in.k.lb.strategy))
	b.WriteString(vh.FingerprintClip(c04Window+time.Second, in.k.lb.healthChecks))
	for i, m := range in.mon {
		rem := m.until
		if rem >= 0 {
			if rem -= now; rem < 0 {
				rem = -2
			}
		}
		be := in.k.backendByName(fmt.Sprintf("b%d", i))
		ur := be.UnhealthyUntil.Sub(vrt.Now())
		if ur < 0 {
			ur = -1
		}
		fmt.Fprintf(&b, "|%d:%d:%d:%v:%v:%v:%s", i, m.consec, m.cum, rem, be.IsHealthy, ur, in.k.stubs[i].mode)
	}
	mm := in.k.lb.GetMetricsCollector().GetMetrics()
	for i := range in.mon {
		if bm, ok := mm.BackendMetrics[fmt.Sprintf("b%d", i)]; ok {
			fmt.Fprintf(&b, "|m%v", bm.IsHealthy)
		}
	}
	if in.held != nil {
		b.WriteString("|held:" + in.held.at.name + fmt.Sprint(in.heldGone))
	}
	b.WriteString(in.k.novel())
	return b.String()
}

func c04Spec(p c04Params, depth int) vh.HSpec {
	ev := c04Events(p)
	return vh.HSpec{
		Name: fmt.Sprintf("health-%s-n%d-thr%d-active%v%s", p.Strategy, p.N, p.Thr, p.Active, map[bool]string{true: "-held-requests"}[p.Held]+map[bool]string{true: "-clients-going-away"}[p.Gone]), KeyPrefix: "C04", Events: ev, Depth: depth, Params: p,
		New: func(s *vrt.Sched) vh.HInstance {
			k := newKit(s, kitOpts{Strategy: p.Strategy, N: p.N, Weights: []int{2, 1, 1}[:p.N], PassiveThr: p.Thr, Window: 10, Active: p.Active})
			in := &c04Inst{s: s, k: k, p: p, events: ev}
			for i := 0; i < p.N; i++ {
				in.mon = append(in.mon, &c04Mon{until: -1})
			}
			if p.Active {
				s.Settle() // the initial round of probes
			}
			return in
		},
	}
}

func TestVerifC04H(t *testing.T) {
	r := vres.Open("C04", "H")
	defer func() {
		if err := r.Close(); err != nil {
			t.Fatal(err)
		}
	}()
	depth := 7
	if vres.Thorough() {
		depth = 10
	}
	if vres.ReplayPath() != "" {
		var rp vh.HReplay
		var p c04Params
		rp.Params = &p
		if err := vres.LoadReplay(&rp); err != nil {
			t.Fatal(err)
		}
		vh.ReplayH(c04Spec(p, depth), rp.Events, rp.Probe)
		return
	}
	i := 0
	for _, strat := range allStrategies {
		for _, active := range []bool{false, true} {
			for thr := 0; thr <= 3; thr++ {
				if thr == 0 && !active {
					continue // no health checking at all
				}
				if !vres.Thorough() && thr == 3 && active {
					continue
				}
				n := 2
				if vh.MyShard(i) {
					vh.RunH(r, "TestVerifC04H", c04Spec(c04Params{Strategy: strat, N: n, Thr: thr, Active: active}, depth))
				}
				i++
			}
		}
	}
	// requests held in flight across ejections and lapsing windows (injected ejections, passive
	// and active checks off or on): see c04Events
	for _, strat := range allStrategies {
		for _, cfg := range [][2]int{{0, 1}, {2, 0}} {
			if vh.MyShard(i) {
				vh.RunH(r, "TestVerifC04H", c04Spec(c04Params{Strategy: strat, N: 2, Thr: cfg[0], Active: cfg[1] == 1, Held: true}, depth-1))
			}
			i++
		}
	}
	// clients that go away: see c04Events
	for _, strat := range allStrategies {
		for thr := 1; thr <= 3; thr++ {
			if vh.MyShard(i) {
				vh.RunH(r, "TestVerifC04H", c04Spec(c04Params{Strategy: strat, N: 2, Thr: thr, Gone: true}, depth-1))
			}
			i++
		}
	}
	// a long-lived process: many backend names have come and gone through the admin API before
	// the ejection (tables keyed by backend name have a history then)
	for _, churn := range []int{10, 999, 1100} {
		if vh.MyShard(i) {
			c04Churn(r, churn)
		}
		i++
	}
	// large deployments, on both sides of the metrics table's limit of 1000 names
	for _, n := range []int{998, 1000, 1001, 1100} {
		if vh.MyShard(i) {
			c04Pool(r, n)
		}
		i++
	}
	if vres.Thorough() {
		for _, strat := range allStrategies {
			if vh.MyShard(i) {
				vh.RunH(r, "TestVerifC04H", c04Spec(c04Params{Strategy: strat, N: 3, Thr: 2, Active: true}, depth-2))
			}
			i++
			if vh.MyShard(i) {
				vh.RunH(r, "TestVerifC04H", c04Spec(c04Params{Strategy: strat, N: 3, Thr: 4, Active: false}, depth-1))
			}
			i++
		}
	}
}

// c04Pool: a deployment of n backends (around the metrics table's limit of 1000 names): the
// first and the last backend answer 500 (threshold 1); both endpoints must report them unhealthy
// and they must get no traffic.
func c04Pool(r *vres.Report, n int) {
	start := time.Now()
	var evals int64
	vh.RunSeq(r, "C04/sequential", func(s *vrt.Sched) {
		k := newKit(s, kitOpts{Strategy: "round_robin", N: n, PassiveThr: 1, Window: 10})
		victims := []string{"b0", fmt.Sprintf("b%d", n-1)}
		for _, v := range victims {
			k.stub(v).mode = "500"
		}
		for i := 0; i < n; i++ { // one round: every backend is sent one request
			k.request("10.0.0.1", nil)
			evals++
		}
		for _, v := range victims {
			k.stub(v).mode = "ok"
		}
		mm := k.lb.GetMetricsCollector().GetMetrics()
		for _, v := range victims {
			desc := fmt.Sprintf("pool of %d backends, %s answered 500 (threshold 1)", n, v)
			for _, bi := range k.lb.ListBackends() {
				if bi.Name == v && bi.Healthy {
					r.Violate("C04/not-ejected-after-threshold/large-pool", desc+": /v1/backends still lists it healthy", n, nil)
					return
				}
			}
			if bm, ok := mm.BackendMetrics[v]; ok && bm.IsHealthy {
				r.Violate("C04/reported-healthy-inside-window/metrics/large-pool", desc+" and is ejected, but the metrics / health endpoint reports it healthy", n, map[string]interface{}{"engine": "H", "test": "TestVerifC04H", "pool": n})
				return
			}
		}
		before := k.stub(victims[0]).hits + k.stub(victims[1]).hits
		for i := 0; i < n+2; i++ {
			k.request("10.0.0.1", nil)
			evals++
		}
		if k.stub(victims[0]).hits+k.stub(victims[1]).hits != before {
			r.Violate("C04/traffic-inside-window/large-pool", fmt.Sprintf("pool of %d backends: an ejected backend still receives client requests", n), n, nil)
		}
	})
	r.AddScenario(vres.Scenario{Name: fmt.Sprintf("health-in-a-pool-of-%d", n), Engine: "H", Executions: 1, States: 1, Transitions: evals, Outcomes: 1,
		Bound: fmt.Sprintf("deployment of %d backends, first and last ejected by one failed response each, one more round of requests", n), Exhaustive: true, Extra: map[string]interface{}{"wall_s": time.Since(start).Seconds()}})
}

// c04Churn: churn names are added and removed again, then b0 is ejected (one failed response,
// threshold 1): both endpoints must report it unhealthy and it must get no traffic.
func c04Churn(r *vres.Report, churn int) {
	start := time.Now()
	var evals int64
	vh.RunSeq(r, "C04/sequential", func(s *vrt.Sched) {
		k := newKit(s, kitOpts{Strategy: "round_robin", N: 2, PassiveThr: 1, Window: 10})
		for i := 0; i < churn; i++ {
			name := fmt.Sprintf("tmp%04d", i)
			if err := k.lb.AddBackend(config.BackendConfig{Name: name, Address: "http://" + name + ".test:80"}); err != nil {
				vh.ToolError("add: %v", err)
			}
			k.lb.RemoveBackend(name)
			evals += 2
		}
		k.stub("b0").mode = "500"
		for i := 0; i < 2; i++ { // round robin: one of the two requests reaches b0
			k.request("10.0.0.1", nil)
		}
		k.stub("b0").mode = "ok"
		desc := fmt.Sprintf("after %d backend names were added and removed again, b0 answered 500 (threshold 1)", churn)
		for _, bi := range k.lb.ListBackends() {
			if bi.Name == "b0" && bi.Healthy {
				r.Violate("C04/not-ejected-after-threshold/after-churn", desc+": /v1/backends still lists it healthy", churn, nil)
				return
			}
		}
		if bm, ok := k.lb.GetMetricsCollector().GetMetrics().BackendMetrics["b0"]; !ok || bm.IsHealthy {
			r.Violate("C04/reported-healthy-inside-window/metrics/after-churn", fmt.Sprintf("%s and is ejected, but the metrics / health endpoint reports it healthy (entry present: %v)", desc, ok), churn, map[string]interface{}{"engine": "H", "test": "TestVerifC04H", "churn": churn})
			return
		}
		before := k.stub("b0").hits
		for i := 0; i < 4; i++ {
			k.request("10.0.0.1", nil)
			evals++
		}
		if k.stub("b0").hits != before {
			r.Violate("C04/traffic-inside-window/after-churn", desc+" and is ejected, but it still receives client requests", churn, nil)
		}
	})
	r.AddScenario(vres.Scenario{Name: fmt.Sprintf("health-after-%d-names-churned", churn), Engine: "H", Executions: 1, States: 1, Transitions: evals, Outcomes: 1,
		Bound: fmt.Sprintf("%d names added and removed through AddBackend/RemoveBackend, then one ejection", churn), Exhaustive: true, Extra: map[string]interface{}{"wall_s": time.Since(start).Seconds()}})
}
