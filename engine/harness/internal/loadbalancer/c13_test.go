package loadbalancer_test

import (
	"encoding/json"
	"fmt"
	"net/http"
	"net/http/httptest"
	"strings"
	"testing"
	"time"

	"github.com/0xReLogic/Helios/internal/adminapi"
	"github.com/0xReLogic/Helios/internal/config"
	lbp "github.com/0xReLogic/Helios/internal/loadbalancer"
	"github.com/0xReLogic/Helios/internal/zzverif/vh"
	"github.com/0xReLogic/Helios/internal/zzverif/vres"
	"github.com/0xReLogic/Helios/internal/zzverif/vrt"
)

// C13 accounting: after every step of every history the *published* numbers (the real
// /v1/metrics and /v1/backends handlers) must add up against the harness' own tallies.

type c13Sys struct {
	// before[name]: requests sent under the name before its backend was removed and registered
	// again: they are the business of the backend that is gone
	before  map[string]int
	orphans int
	k       *lbp.VKit
	mux     http.Handler
	issued  int
}

type c13Metrics struct {
	Total       uint64 `json:"total_requests"`
	Successful  uint64 `json:"successful_requests"`
	Failed      uint64 `json:"failed_requests"`
	RateLimited uint64 `json:"rate_limited_requests"`
	Backends    map[string]struct {
		Total  uint64 `json:"total_requests"`
		Active int32  `json:"active_connections"`
	} `json:"backend_metrics"`
}

func newC13Sys(s *vrt.Sched, strategy string, breaker, limiter bool) *c13Sys {
	return newC13SysN(s, strategy, 2, breaker, limiter)
}

func newC13SysN(s *vrt.Sched, strategy string, n int, breaker, limiter bool) *c13Sys {
	o := lbp.VKitOpts{Strategy: strategy, N: n, PassiveThr: 2, Window: 10}
	if breaker {
		o.Breaker = &config.CircuitBreakerConfig{Enabled: true, MaxRequests: 1, IntervalSeconds: 5, TimeoutSeconds: 3, FailureThreshold: 3, SuccessThreshold: 1}
	}
	if limiter {
		o.Limiter = &config.RateLimitConfig{Enabled: true, MaxTokens: 3, RefillRate: 1}
	}
	k := lbp.VNewKit(s, o)
	return &c13Sys{k: k, mux: adminapi.NewMux(k.LB(), k.Config(), k.LB().GetMetricsCollector())}
}

func (y *c13Sys) get(path string, into interface{}) error {
	req := httptest.NewRequest("GET", "http://admin.test"+path, nil)
	req.RemoteAddr = "127.0.0.1:1"
	rec := httptest.NewRecorder()
	y.mux.ServeHTTP(rec, req)
	if rec.Code != 200 {
		return fmt.Errorf("%s answered %d", path, rec.Code)
	}
	return json.Unmarshal(rec.Body.Bytes(), into)
}

// audit compares the published numbers with the harness' tallies; inflight[name] = requests really in flight.
func (y *c13Sys) audit(inflight map[string]int) (string, string) {
	var m c13Metrics
	if err := y.get("/v1/metrics", &m); err != nil {
		return "C13/metrics-endpoint-failed", err.Error()
	}
	var infos []lbp.BackendInfo
	if err := y.get("/v1/backends", &infos); err != nil {
		return "C13/backends-endpoint-failed", err.Error()
	}
	if int(m.Total) != y.issued {
		return "C13/total-requests-wrong", fmt.Sprintf("total_requests=%d but %d requests reached the balancer", m.Total, y.issued)
	}
	// (a request still in flight has no outcome yet)
	pending := uint64(y.orphans) // requests in flight at a backend that has been removed meanwhile
	for _, n := range inflight {
		pending += uint64(n)
	}
	if m.Successful+m.Failed+m.RateLimited+pending != m.Total {
		return "C13/request-not-counted-in-exactly-one-outcome", fmt.Sprintf("successful(%d)+failed(%d)+rate_limited(%d) = %d, %d still in flight, but total_requests = %d", m.Successful, m.Failed, m.RateLimited, m.Successful+m.Failed+m.RateLimited, pending, m.Total)
	}
	// (backend names are not unique: the published numbers of a name are those of all the
	// backends registered under it)
	sent := map[string]int{}
	for _, st := range y.k.Stubs() {
		sent[strings.SplitN(st.Host(), ".", 2)[0]] += st.Hits()
	}
	for name, n := range y.before {
		sent[name] -= n // what a backend of that name was sent before it was removed and registered anew
	}
	for _, st := range y.k.Stubs() {
		name := strings.SplitN(st.Host(), ".", 2)[0]
		// (a request still in flight is booked when it ends)
		if got := int(m.Backends[name].Total); got != sent[name]-inflight[name] {
			return "C13/per-backend-total-differs-from-requests-sent", fmt.Sprintf("backend %s was sent %d requests (%d of them still in flight) but its published total_requests is %d", name, sent[name], inflight[name], got)
		}
		if got := int(m.Backends[name].Active); got != inflight[name] {
			return "C13/gauge/metrics-mirror-differs-from-in-flight", fmt.Sprintf("backend %s has %d requests in flight but the metrics endpoint publishes active_connections=%d", name, inflight[name], got)
		}
	}
	listed := map[string]int{}
	for _, bi := range infos {
		listed[bi.Name] += int(bi.ActiveConnections)
	}
	// what is published is about the backends there are: no entry for a name that is not
	// registered (any more)
	for name := range m.Backends {
		if _, registered := listed[name]; !registered {
			return "C13/metrics-entry-for-a-backend-that-is-not-registered", fmt.Sprintf("the metrics endpoint publishes an entry for backend %q, which is not registered (any more)", name)
		}
	}
	for _, bi := range infos {
		if listed[bi.Name] != inflight[bi.Name] {
			return "C13/gauge/backends-endpoint-differs-from-in-flight", fmt.Sprintf("backend %s has %d requests in flight but /v1/backends publishes active_connections=%d (all entries of that name together)", bi.Name, inflight[bi.Name], listed[bi.Name])
		}
	}
	return "", ""
}

// start-held / finish-held: a request that stays in flight at its backend while other events
// happen (ejections, windows lapsing, the breaker tripping) and is answered 200 when released:
// the gauges count it for exactly as long as it is in flight
var c13Events = []string{"req-ok", "req-404", "req-500", "req-refused", "req-abort", "eject-all", "clock+1.1s", "clock+11s", "req-client-gone", "req-103-then-500",
	"start-held", "finish-held", "req-upgrade-declined",
	// a backend registered at run time (once per history): it starts with no requests on record
	"add-backend",
	// a second backend registered under a name already in use (names are not unique; once per
	// history): what is on record for the name stays on record
	"add-same-name",
	// b0 is removed and registered again under the same name and address (once per history),
	// possibly while a request is in flight at it: the new backend starts with nothing on record,
	// and what the old one still finishes is not booked to it
	"readd-b0",
	// b1 is removed for good (once per history), possibly while a request is in flight at it
	"remove-b1"}

type c13Params struct {
	Strategy         string
	Breaker, Limiter bool
}

type c13Inst struct {
	s     *vrt.Sched
	y     *c13Sys
	p     c13Params
	out   string
	held  *lbp.VHeld
	added bool
	twin  bool
	// readded: b0 has been removed and registered again; heldGone: the held request is in
	// flight at the b0 that is gone
	readded, heldGone bool
	removed           bool
}

func (in *c13Inst) inflight() map[string]int {
	m := map[string]int{}
	if in.held != nil && in.held.At() != "" && !in.held.Finished() && !in.heldGone {
		m[strings.SplitN(in.held.At(), ".", 2)[0]] = 1
	}
	return m
}

func (in *c13Inst) LastOutcome() string { return in.out }

func (in *c13Inst) Step(ev int) *vh.HViol {
	e := c13Events[ev]
	switch e {
	case "eject-all":
		in.y.k.EjectByNameFor("b0", 10*time.Second)
		in.y.k.EjectByNameFor("b1", 10*time.Second)
		in.out = "ejected"
	case "clock+1.1s":
		in.s.AdvanceQuiet(1100 * time.Millisecond)
	case "clock+11s":
		in.s.AdvanceQuiet(11 * time.Second)
	case "start-held":
		if in.held != nil {
			in.out = "already-held"
			break
		}
		in.y.issued++
		in.held = in.y.k.StartHeld("10.0.0.1")
		if in.held.Finished() {
			// turned away before it reached a backend (rate limited, breaker, nobody healthy)
			in.out = fmt.Sprintf("held-not-forwarded:%d", in.held.Result().Status)
			in.held = nil
		} else {
			in.out = "held-at:" + in.held.At()
		}
	case "finish-held":
		if in.held == nil {
			in.out = "nothing-held"
			break
		}
		in.y.k.ReleaseHeld(in.held)
		in.out = fmt.Sprintf("held-finished:%d", in.held.Result().Status)
		in.held, in.heldGone, in.y.orphans = nil, false, 0
	case "add-backend":
		if in.added {
			in.out = "already-added"
			break
		}
		in.added = true
		if err := in.y.k.LB().AddBackend(config.BackendConfig{Name: "late", Address: "http://late.test:80", Weight: 1}); err != nil {
			return &vh.HViol{Key: "C13/add-failed", What: err.Error()}
		}
		in.y.k.AdoptAll()
		in.out = "added"
	case "readd-b0":
		if in.readded || in.twin {
			in.out = "not-again"
			break
		}
		in.readded = true
		in.y.k.LB().RemoveBackend("b0")
		if err := in.y.k.LB().AddBackend(config.BackendConfig{Name: "b0", Address: "http://b0.test:80", Weight: 1}); err != nil {
			return &vh.HViol{Key: "C13/add-failed", What: err.Error()}
		}
		in.y.k.AdoptAll()
		if in.y.before == nil {
			in.y.before = map[string]int{}
		}
		for _, st := range in.y.k.Stubs() {
			if st.Host() == "b0.test:80" {
				in.y.before["b0"] = st.Hits()
			}
		}
		if in.held != nil && in.held.At() == "b0.test:80" {
			in.heldGone = true
			in.y.orphans = 1
		}
		in.out = "re-registered"
	case "remove-b1":
		if in.removed {
			in.out = "not-again"
			break
		}
		in.removed = true
		in.y.k.LB().RemoveBackend("b1")
		if in.held != nil && in.held.At() == "b1.test:80" {
			in.heldGone = true
			in.y.orphans = 1
		}
		in.y.k.Forget("b1")
		in.out = "removed"
	case "add-same-name":
		if in.twin || in.readded {
			in.out = "already-added"
			break
		}
		in.twin = true
		if err := in.y.k.LB().AddBackend(config.BackendConfig{Name: "b0", Address: "http://b0.twin.test:80", Weight: 1}); err != nil {
			return &vh.HViol{Key: "C13/add-failed", What: err.Error()}
		}
		in.y.k.AdoptAll()
		in.out = "added"
	case "req-upgrade-declined":
		in.y.issued++
		res := in.y.k.RequestUpgradeDeclined("10.0.0.1")
		in.out = fmt.Sprintf("%d/%v", res.Status, res.Aborted)
	case "req-client-gone":
		// the client has hung up before the balancer gets to see the request (context cancelled)
		in.y.issued++
		res := in.y.k.RequestCancelled("10.0.0.1")
		in.out = fmt.Sprintf("%d/%v", res.Status, res.Aborted)
	default:
		mode := map[string]string{"req-ok": "ok", "req-404": "404", "req-500": "500", "req-refused": "refuse", "req-abort": "abort", "req-103-then-500": "103+500"}[e]
		in.y.issued++
		res := in.y.k.RequestMode("10.0.0.1", mode)
		in.out = fmt.Sprintf("%d/%v", res.Status, res.Aborted)
	}
	if k, w := in.y.audit(in.inflight()); k != "" {
		return &vh.HViol{Key: k + "/after-" + e, What: fmt.Sprintf("%s breaker=%v limiter=%v: after %s (%s): %s", in.p.Strategy, in.p.Breaker, in.p.Limiter, e, in.out, w)}
	}
	return nil
}

func (in *c13Inst) Fingerprint() string {
	// counters grow without bound; what matters for the future is the control state
	h := "-"
	if in.held != nil {
		h = in.held.At()
	}
	return in.y.k.ControlState() + "|held:" + h + fmt.Sprint("|added:", in.added, in.twin, in.readded, in.heldGone, in.removed)
}

func c13Spec(p c13Params, depth int) vh.HSpec {
	return vh.HSpec{Name: fmt.Sprintf("accounting-%s-breaker%v-limiter%v", p.Strategy, p.Breaker, p.Limiter), KeyPrefix: "C13", Events: c13Events, Depth: depth, Params: p,
		New: func(s *vrt.Sched) vh.HInstance {
			return &c13Inst{s: s, y: newC13Sys(s, p.Strategy, p.Breaker, p.Limiter), p: p}
		}}
}

func TestVerifC13H(t *testing.T) {
	r := vres.Open("C13", "H")
	defer func() {
		if err := r.Close(); err != nil {
			t.Fatal(err)
		}
	}()
	depth := 5
	if vres.Thorough() {
		depth = 8
	}
	if vres.ReplayPath() != "" {
		var rp vh.HReplay
		var p c13Params
		rp.Params = &p
		if err := vres.LoadReplay(&rp); err != nil {
			t.Fatal(err)
		}
		vh.ReplayH(c13Spec(p, depth), rp.Events, rp.Probe)
		return
	}
	i := 0
	for _, st := range []string{"round_robin", "least_connections", "weighted_round_robin", "ip_hash", "ip_hash_consistent"} {
		for _, bl := range [][2]bool{{true, true}, {false, false}, {true, false}, {false, true}} {
			if !vres.Thorough() && st != "round_robin" && bl != [2]bool{true, true} {
				continue
			}
			if vh.MyShard(i) {
				d := depth
				if vres.Thorough() && st == "weighted_round_robin" && bl[0] {
					// (the smooth weighted rotation has by far the most control states: one level
					// less keeps the search of this one specification - a single process - at a
					// quarter of an hour instead of three quarters)
					d--
				}
				vh.RunH(r, "TestVerifC13H", c13Spec(c13Params{st, bl[0], bl[1]}, d))
			}
			i++
		}
	}
	// deployment size: the numbers must add up for every pool below the documented cap of 1000
	// backends, not only for the two-backend pools of the history search. Sizes sit on both
	// sides of every bound and power of two a per-backend table could have.
	sizes := []int{3, 101, 999}
	if vres.Thorough() {
		sizes = []int{1, 3, 16, 17, 64, 65, 99, 100, 101, 128, 129, 255, 256, 257, 500, 512, 513, 998, 999}
	}
	for _, n := range sizes {
		if vh.MyShard(i) {
			c13Deployment(r, n, 0)
		}
		i++
	}
	// a long-lived process: the deployment is small, but many backend names have come and gone
	// through the admin API before (pods that are replaced get new names)
	for _, nc := range [][2]int{{3, 10}, {3, 998}, {3, 1100}, {101, 950}} {
		if vh.MyShard(i) {
			c13Deployment(r, nc[0], nc[1])
		}
		i++
	}
}

// c13Deployment: a pool of n backends under round_robin; every backend is sent requests of
// three kinds (ok, 500, 404) in turn; the published numbers are audited at the end and after
// the first round.
//
// churn > 0: that many other backends (distinct names) were registered and removed again, each
// having served one request, before the deployment's own requests.
func c13Deployment(r *vres.Report, n, churn int) {
	start := time.Now()
	var evals int64
	vh.RunSeq(r, "C13/sequential", func(s *vrt.Sched) {
		y := newC13SysN(s, "round_robin", n, false, false)
		for i := 0; i < churn; i++ {
			name := fmt.Sprintf("pod%04d", i)
			if err := y.k.LB().AddBackend(config.BackendConfig{Name: name, Address: "http://" + name + ".test:80"}); err != nil {
				vh.ToolError("add: %v", err)
			}
			y.k.AdoptAll()
			for k := 0; k <= n; k++ { // one full round: the newcomer is served once
				y.issued++
				y.k.RequestMode("10.0.0.1", "ok")
			}
			y.k.LB().RemoveBackend(name)
			y.k.Forget(name)
			evals += int64(n) + 3
		}
		for round, mode := range []string{"ok", "404", "500"} {
			for k := 0; k < n; k++ {
				y.issued++
				y.k.RequestMode("10.0.0.1", mode)
				evals++
			}
			if key, w := y.audit(map[string]int{}); key != "" {
				r.Violate(key+"/deployment-size", fmt.Sprintf("round_robin pool of %d backends"+map[bool]string{true: fmt.Sprintf(" in a process that has seen %d other backends come and go", churn)}[churn > 0]+", after round %d (%d requests answered %s, one per backend): %s", n, round+1, n, mode, w), n, map[string]interface{}{"engine": "H", "test": "TestVerifC13H", "deployment": n, "churn": churn})
				return
			}
		}
	})
	r.AddScenario(vres.Scenario{Name: fmt.Sprintf("accounting-deployment-of-%d%s", n, map[bool]string{true: fmt.Sprintf("-after-%d-names", churn)}[churn > 0]), Engine: "H", Executions: 1, States: 3, Transitions: evals, Outcomes: 1,
		Bound: fmt.Sprintf("pool of %d backends (documented cap 1000), 3 rounds of one request per backend (ok, 404, 500), audit after each round", n), Exhaustive: true,
		Extra: map[string]interface{}{"wall_s": time.Since(start).Seconds()}})
}

// ---------------------------------------------------------------- concurrent part

type c13sParams struct {
	Strategy string
	Modes    []string
	Breaker  bool
	// Start is the state the overlapping requests arrive in: "" (fresh), "open" (breaker tripped),
	// "open-expired" (tripped, timeout elapsed: the first arrival is the half-open trial and the
	// others are turned away while it is in flight), "one-token" (rate limiter down to one token)
	Start string
	// Prefix (Start "reached"): events of c13Events leading to the start state
	Prefix  []int
	Limiter bool
}

func c13sScenario(p c13sParams, bound int) vh.SScenario {
	return vh.SScenario{Name: fmt.Sprintf("accounting-conc-%s-%v-breaker%v-limiter%v-start-%s%v", p.Strategy, p.Modes, p.Breaker, p.Limiter, p.Start, p.Prefix), KeyPrefix: "C13/conc", Bound: bound, Params: p, Body: func(x *vh.Exec) {
		s := x.S
		y := newC13Sys(s, p.Strategy, p.Breaker, p.Start == "one-token" || p.Limiter)
		key, what, out := "", "", ""
		x.Check = func(v vrt.Verdict) (string, string, string, bool) {
			if v.Kind != vrt.OK {
				return out, "", "", false
			}
			return out, key, what, true
		}
		prelude := 0
		in := &c13Inst{s: s, y: y, p: c13Params{p.Strategy, p.Breaker, p.Limiter}}
		if p.Start == "reached" {
			for _, e := range p.Prefix {
				in.Step(e)
			}
			prelude = y.issued
		}
		switch p.Start {
		case "open", "open-expired":
			for i := 0; i < 3; i++ {
				y.k.RequestMode("10.0.0.1", "500")
				prelude++
			}
			if p.Start == "open-expired" {
				s.AdvanceQuiet(3100 * time.Millisecond)
			}
		case "one-token":
			for i := 0; i < 2; i++ {
				y.k.RequestMode("10.0.0.1", "ok")
				prelude++
			}
		}
		s.Branch(true)
		var ths []*vrt.Thread
		res := make([]lbp.VReqResult, len(p.Modes))
		for i, m := range p.Modes {
			i, m := i, m
			ths = append(ths, s.Spawn(fmt.Sprintf("req%d", i), func() {
				res[i] = y.k.RequestMode("10.0.0.1", m)
			}))
		}
		y.issued = prelude + len(p.Modes)
		s.Join(ths...)
		s.Branch(false)
		for _, r := range res {
			out += fmt.Sprintf("%d/%v ", r.Status, r.Aborted)
		}
		// (a request the start state holds in flight stays in flight)
		if k, w := y.audit(in.inflight()); k != "" {
			key, what = k+"/concurrent", fmt.Sprintf("%s, overlapping requests %v: at quiescence %s", p.Strategy, p.Modes, w)+map[bool]string{true: " (arriving in state " + p.Start + ")"}[p.Start != ""]
		}
	}}
}

func TestVerifC13S(t *testing.T) {
	r := vres.Open("C13", racePart("S"))
	defer func() {
		if err := r.Close(); err != nil {
			t.Fatal(err)
		}
	}()
	if vres.ReplayPath() != "" {
		var rp vh.SReplay
		var p c13sParams
		rp.Params = &p
		if err := vres.LoadReplay(&rp); err != nil {
			t.Fatal(err)
		}
		vh.ReplayS(c13sScenario(p, 0), rp.Choices)
		return
	}
	bound := 2
	var scs []vh.SScenario
	// ip_hash sends both requests of one client to the same backend: the gauge is really shared
	for _, m := range [][]string{{"ok", "ok"}, {"ok", "abort"}, {"500", "ok"}} {
		scs = append(scs, c13sScenario(c13sParams{Strategy: "ip_hash", Modes: m, Breaker: false}, bound))
	}
	scs = append(scs, c13sScenario(c13sParams{Strategy: "round_robin", Modes: []string{"ok", "ok"}, Breaker: true}, bound))
	// the same overlaps arriving in non-initial control states
	for _, st := range []string{"open-expired", "open", "one-token"} {
		for _, m := range [][]string{{"ok", "ok"}, {"ok", "500"}} {
			scs = append(scs, c13sScenario(c13sParams{Strategy: "round_robin", Modes: m, Breaker: st != "one-token", Start: st}, bound))
		}
	}
	if vres.Thorough() {
		scs = append(scs, c13sScenario(c13sParams{Strategy: "round_robin", Modes: []string{"ok", "ok", "abort"}, Breaker: true, Start: "open-expired"}, 2),
			c13sScenario(c13sParams{Strategy: "least_connections", Modes: []string{"ok", "ok", "ok"}, Breaker: false, Start: "one-token"}, 2))
		scs = append(scs, c13sScenario(c13sParams{Strategy: "ip_hash", Modes: []string{"ok", "ok", "abort"}, Breaker: false}, 2),
			c13sScenario(c13sParams{Strategy: "least_connections", Modes: []string{"ok", "ok", "ok"}, Breaker: false}, 2),
			c13sScenario(c13sParams{Strategy: "ip_hash", Modes: []string{"ok", "ok"}, Breaker: false}, 3),
			c13sScenario(c13sParams{Strategy: "ip_hash", Modes: []string{"abort", "abort"}, Breaker: true}, 3))
	}
	for i, sc := range scs {
		if vh.MyShard(i) {
			vh.RunS(r, "TestVerifC13S", sc)
		}
	}
}

// TestVerifC13Reach: overlapping requests started from every control state the sequential
// search (c13Spec) reaches within a few events; the published numbers are audited at quiescence.
func TestVerifC13Reach(t *testing.T) {
	r := vres.Open("C13", racePart("Reach"))
	defer func() {
		if err := r.Close(); err != nil {
			t.Fatal(err)
		}
	}()
	if vres.ReplayPath() != "" {
		var rp vh.SReplay
		var p c13sParams
		rp.Params = &p
		if err := vres.LoadReplay(&rp); err != nil {
			t.Fatal(err)
		}
		vh.ReplayS(c13sScenario(p, 0), rp.Choices)
		return
	}
	cfgs := []c13Params{{"round_robin", true, true}}
	depth, bound := 2, 2
	pairs := [][]string{{"ok", "ok"}, {"ok", "500"}, {"500", "abort"}}
	if vres.Thorough() {
		// (a scenario here costs thousands of executions: two requests through limiter, breaker,
		// health bookkeeping and two backends; depth 3 already yields some sixty start states)
		cfgs = append(cfgs, c13Params{"ip_hash", true, false})
		depth = 3
		if vrt.RaceBuild {
			depth = 2
		}
		pairs = append(pairs, []string{"ok", "abort"})
	}
	i := 0
	for _, c := range cfgs {
		for _, pre := range vh.ReachableH(c13Spec(c, depth)) {
			for _, m := range pairs {
				if vh.MyShard(i) {
					vh.RunS(r, "TestVerifC13Reach", c13sScenario(c13sParams{Strategy: c.Strategy, Modes: m, Breaker: c.Breaker, Limiter: c.Limiter, Start: "reached", Prefix: pre}, bound))
				}
				i++
			}
		}
	}
}
