package loadbalancer

import (
	"fmt"
	"net/http"
	"net/http/httptest"
	"reflect"
	"strings"
	"testing"
	"time"
	"unsafe"

	"github.com/0xReLogic/Helios/internal/config"
	"github.com/0xReLogic/Helios/internal/zzverif/vh"
	"github.com/0xReLogic/Helios/internal/zzverif/vres"
	"github.com/0xReLogic/Helios/internal/zzverif/vrt"
)

// C05 distribution contracts, all through the real ServeHTTP with scripted backends.

func viaSuffix() string {
	if kitViaSwitch {
		return "-selected-at-run-time"
	}
	return ""
}

func c05Viol(r *vres.Report, key, what string, cost int, params interface{}) {
	r.Violate(key, what, cost, map[string]interface{}{"engine": "H", "test": "TestVerifC05", "params": params})
}

// servedIndex returns which stub was hit by one request (-1 = none).
func servedIndex(k *kit, client string) (int, int) {
	before := k.hitsVector()
	res := k.request(client, nil)
	for i, h := range k.hitsVector() {
		if h > before[i] {
			return i, res.Status
		}
	}
	return -1, res.Status
}

// --- round_robin: every window of |eligible| consecutive requests holds each eligible backend once
func c05RoundRobin(r *vres.Report, maxN int) {
	start := time.Now()
	var evals, cases int64
	var outs vres.Outcomes
	var sample interface{}
	for n := 1; n <= maxN; n++ {
		for mask := 0; mask < 1<<n; mask++ {
			if mask == 1<<n-1 {
				continue // nobody eligible: C02's business
			}
			// warm-up offsets 0..n-1 by really picking, then the states "after 2^16-3, 2^31-3 and
			// 2^32-3 picks" (reachable in days of traffic, unlike 2^64) by setting the rotation
			// cursor — whatever unsigned/integer field of the strategy it is — to that count
			for warm := 0; warm < n+3; warm++ {
				if warm >= n && (mask != 0 && mask != 1) {
					continue
				}
				cases++
				var seq []int
				elig := 0
				vh.RunSeq(r, "C05/sequential", func(s *vrt.Sched) {
					k := newKit(s, kitOpts{Strategy: "round_robin", N: n, PassiveThr: 1, Window: 1000})
					if warm >= n {
						setCursors(k.lb.strategy, []uint64{1<<16 - 3, 1<<31 - 3, 1<<32 - 3}[warm-n])
					}
					for w := 0; w < warm && warm < n; w++ {
						servedIndex(k, "10.0.0.1")
					}
					for i := 0; i < n; i++ {
						if mask&(1<<i) != 0 {
							k.lb.MarkBackendUnhealthy(k.backendByName(fmt.Sprintf("b%d", i)), 1000*time.Second)
						} else {
							elig++
						}
					}
					for q := 0; q < 3*elig+1; q++ {
						i, _ := servedIndex(k, "10.0.0.1")
						seq = append(seq, i)
						evals++
					}
				})
				outs.Add(fmt.Sprintf("n%d-e%d", n, elig))
				if sample == nil && n == 4 && mask == 0b0110 {
					sample = map[string]interface{}{"strategy": "round_robin", "n": n, "ejected_mask": mask, "warmup": warm, "served": seq}
				}
				for o := 0; o+elig <= len(seq); o++ {
					cnt := map[int]int{}
					for _, i := range seq[o : o+elig] {
						cnt[i]++
					}
					bad := len(cnt) != elig
					for i, c := range cnt {
						if c != 1 || i < 0 || mask&(1<<i) != 0 {
							bad = true
						}
					}
					if bad {
						c05Viol(r, "C05/round_robin/window-not-a-permutation", fmt.Sprintf("round_robin n=%d ejected-mask=%b warm-up=%d: requests %d..%d were served by %v, not one per eligible backend (full sequence %v)", n, mask, warm, o, o+elig-1, seq[o:o+elig], seq), n, map[string]int{"n": n, "mask": mask, "warm": warm})
						break
					}
				}
			}
		}
	}
	r.AddScenario(vres.Scenario{Name: "round_robin-windows" + viaSuffix(), Engine: "H", Executions: cases, States: cases, Transitions: evals, Outcomes: outs.N(),
		Bound: fmt.Sprintf("n=1..%d x every ejected subset x every warm-up offset 0..n-1; 3*|eligible|+1 requests, all windows of |eligible|", maxN), Exhaustive: true, Sample: sample,
		Extra: map[string]interface{}{"wall_s": time.Since(start).Seconds()}})
}

// --- weighted_round_robin from a fresh pool: exactly w_i of every sum(w) consecutive requests
func c05WRRFresh(r *vres.Report, maxN, maxW int) {
	start := time.Now()
	var evals, cases int64
	var sample interface{}
	var outs vres.Outcomes
	idx := 0
	// weight alphabet: 0..maxW plus negative values (they reach AddBackend through the admin API
	// and through configurations built in code, which config.Validate never sees)
	var walph []int
	for w := 0; w <= maxW; w++ {
		walph = append(walph, w)
	}
	walph = append(walph, -1, -3)
	for n := 1; n <= maxN; n++ {
		total := 1
		for i := 0; i < n; i++ {
			total *= len(walph)
		}
		for code := 0; code < total; code++ {
			idx++
			if !vh.MyShard(idx) {
				continue
			}
			ws := make([]int, n)
			c := code
			W := 0
			eff := make([]int, n)
			for i := 0; i < n; i++ {
				ws[i] = walph[c%len(walph)]
				c /= len(walph)
				eff[i] = ws[i]
				if eff[i] < 1 {
					eff[i] = 1 // weights below 1 count as 1
				}
				W += eff[i]
			}
			cases++
			var seq []int
			vh.RunSeq(r, "C05/sequential", func(s *vrt.Sched) {
				// (a configuration built in code, as the admin API's add does: not passed through
				// config.Validate, which refuses negative weights in a file)
				k := newKitCfg(s, kitConfig(kitOpts{Strategy: "weighted_round_robin", N: n, Weights: ws}))
				for q := 0; q < 3*W; q++ {
					i, _ := servedIndex(k, "10.0.0.1")
					seq = append(seq, i)
					evals++
				}
			})
			outs.Add(fmt.Sprint(eff))
			if sample == nil && n == 3 {
				sample = map[string]interface{}{"strategy": "weighted_round_robin", "weights": ws, "served": seq}
			}
			for o := 0; o+W <= len(seq); o++ {
				cnt := make([]int, n)
				bad := false
				for _, i := range seq[o : o+W] {
					if i < 0 {
						bad = true
					} else {
						cnt[i]++
					}
				}
				for i := range cnt {
					if cnt[i] != eff[i] {
						bad = true
					}
				}
				if bad {
					c05Viol(r, "C05/weighted_round_robin/fresh-window-counts", fmt.Sprintf("weights %v (effective %v): requests %d..%d were split %v instead of exactly the weights (sequence %v)", ws, eff, o, o+W-1, cnt, seq), W, map[string]interface{}{"weights": ws})
					break
				}
			}
		}
	}
	r.AddScenario(vres.Scenario{Name: "weighted_round_robin-fresh" + viaSuffix(), Engine: "H", Executions: cases, States: cases, Transitions: evals, Outcomes: outs.N(),
		Bound: fmt.Sprintf("every weight vector in {0..%d, -1, -3}^n for n=1..%d; 3*sum(w) requests, every window of sum(w)", maxW, maxN), Exhaustive: true, Sample: sample,
		Extra: map[string]interface{}{"wall_s": time.Since(start).Seconds()}})
}

// --- weighted_round_robin with weights of large magnitude. sum(w) requests cannot be run, but
// the statement's bound can be checked on every prefix: from a fresh pool with every backend
// eligible a backend is never more than 2 requests away from its proportional share. A
// configuration that is refused (by config.Validate or by NewLoadBalancer) is not judged here.
func c05WRRMagnitudes(r *vres.Report) {
	start := time.Now()
	var evals, cases int64
	var outs vres.Outcomes
	walph := []int{1, 3, 1<<31 - 1, 1 << 31, 1 << 32, 1 << 53, 1 << 62, 1<<63 - 1}
	idx := 0
	for n := 2; n <= 3; n++ {
		total := 1
		for i := 0; i < n; i++ {
			total *= len(walph)
		}
		for code := 0; code < total; code++ {
			idx++
			if !vh.MyShard(idx) {
				continue
			}
			ws := make([]int, n)
			c := code
			W := 0.0
			for i := 0; i < n; i++ {
				ws[i] = walph[c%len(walph)]
				c /= len(walph)
				W += float64(ws[i])
			}
			cases++
			cfg := kitConfig(kitOpts{Strategy: "weighted_round_robin", N: n, Weights: ws})
			if err := cfg.Validate(); err != nil {
				outs.Add("refused")
				continue
			}
			refused := false
			var seq []int
			vh.RunSeq(r, "C05/sequential", func(s *vrt.Sched) {
				http.DefaultTransport = &stubRT{probe: true}
				if lb, err := NewLoadBalancer(cfg); err != nil {
					refused = true
					return
				} else {
					lb.Stop()
				}
				k := newKitCfg(s, cfg)
				for q := 0; q < 240; q++ {
					i, _ := servedIndex(k, "10.0.0.1")
					seq = append(seq, i)
					evals++
				}
			})
			if refused {
				outs.Add("refused")
				continue
			}
			outs.Add("served")
			cnt := make([]float64, n)
			for q, i := range seq {
				if i < 0 {
					c05Viol(r, "C05/weighted_round_robin/large-weights/not-served", fmt.Sprintf("weights %v: request %d was not served by any backend (sequence %v)", ws, q, seq[:q+1]), q, map[string]interface{}{"weights": ws})
					break
				}
				cnt[i]++
				bad := -1
				for b := range cnt {
					if share := float64(q+1) * float64(ws[b]) / W; cnt[b] > share+2.001 || cnt[b] < share-2.001 {
						bad = b
					}
				}
				if bad >= 0 {
					c05Viol(r, "C05/weighted_round_robin/large-weights/share-out-of-bound", fmt.Sprintf("weights %v, all eligible, fresh pool: after %d requests backend %d has served %v, its proportional share is %.1f (bound: 2 requests); counts %v", ws, q+1, bad, cnt[bad], float64(q+1)*float64(ws[bad])/W, cnt), q, map[string]interface{}{"weights": ws})
					break
				}
			}
		}
	}
	r.AddScenario(vres.Scenario{Name: "weighted_round_robin-large-weights" + viaSuffix(), Engine: "H", Executions: cases, States: cases, Transitions: evals, Outcomes: outs.N(),
		Bound: "every weight vector in {1, 3, 2^31-1, 2^31, 2^32, 2^53, 2^62, 2^63-1}^n for n=2..3 that the configuration layer accepts; 240 requests, every prefix within 2 requests of the proportional share", Exhaustive: true,
		Extra: map[string]interface{}{"wall_s": time.Since(start).Seconds()}})
}

// --- least_connections: for every in-flight vector and eligible subset the next request goes to a minimal eligible gauge
func c05LeastConn(r *vres.Report, maxN int) {
	start := time.Now()
	var evals, cases int64
	var sample interface{}
	var outs vres.Outcomes
	idx := 0
	// weight schemes: least_connections looks at in-flight counts only, whatever weights the pool
	// was configured with (they matter to weighted_round_robin); base loads: the same vector on
	// top of a common load on both sides of every plausible per-backend bound (100 connections,
	// 16-bit and larger counters), injected into the gauges
	type variant struct {
		weights string
		base    int
		// prelude: what the pool has been through before: "" = fresh; "outage": it ran under
		// round_robin, b0 was ejected, requests were served meanwhile, the window ran out, and
		// the strategy was then switched to least_connections (what is in flight is what counts,
		// whatever happened earlier)
		prelude string
	}
	// "staggered": under least_connections itself, b0 is ejected for 10 s, b1 five seconds later
	// for 10 s, a request arrives between the ends of the two windows, and the fill starts when
	// both are over
	variants := []variant{{"equal", 0, ""}, {"equal", 0, "outage"}, {"equal", 0, "staggered"}}
	for _, w := range []string{"descending", "ascending"} {
		variants = append(variants, variant{w, 0, ""})
	}
	for _, b := range []int{99, 100, 101, 1000, 65535, 65536, 1 << 20} {
		variants = append(variants, variant{"equal", b, ""})
	}
	weightsOf := func(scheme string, n int) []int {
		w := make([]int, n)
		for i := range w {
			switch scheme {
			case "descending":
				w[i] = []int{5, 2, 1, 1, 3, 1, 1, 1}[i]
			case "ascending":
				w[i] = []int{1, 3, 7, 2, 1, 4, 1, 1}[i]
			}
		}
		return w
	}
	for _, va := range variants {
		for n := 1; n <= maxN; n++ {
			if (va.weights != "equal" && (n < 2 || n > 3)) || (va.base != 0 && n > 2) || (va.prelude != "" && (n < 2 || n > 3)) {
				continue
			}
			total := 1
			for i := 0; i < n; i++ {
				total *= 3
			}
			for code := 0; code < total; code++ {
				for mask := 0; mask < 1<<n; mask++ {
					if mask == 1<<n-1 {
						continue
					}
					idx++
					if !vh.MyShard(idx) {
						continue
					}
					vec := make([]int, n)
					c := code
					for i := 0; i < n; i++ {
						vec[i] = c % 3
						c /= 3
					}
					cases++
					got, status := -1, 0
					var gauges []int32
					setupOK := true
					vh.RunSeq(r, "C05/sequential", func(s *vrt.Sched) {
						first := "least_connections"
						if va.prelude == "outage" {
							first = "round_robin"
						}
						k := newKit(s, kitOpts{Strategy: first, N: n, PassiveThr: 1, Window: 1000, Weights: weightsOf(va.weights, n)})
						if va.prelude == "outage" {
							k.lb.MarkBackendUnhealthy(k.backendByName("b0"), 10*time.Second)
							for q := 0; q < 2*n+1; q++ {
								k.request("10.0.0.3", nil)
								evals++
							}
							s.AdvanceQuiet(11 * time.Second)
							k.request("10.0.0.3", nil)
							if err := k.lb.SetStrategy("least_connections"); err != nil {
								vh.ToolError("switch: %v", err)
							}
						}
						if va.prelude == "staggered" {
							k.lb.MarkBackendUnhealthy(k.backendByName("b0"), 10*time.Second)
							k.request("10.0.0.3", nil)
							s.AdvanceQuiet(5 * time.Second)
							k.lb.MarkBackendUnhealthy(k.backendByName("b1"), 10*time.Second)
							k.request("10.0.0.3", nil)
							s.AdvanceQuiet(6 * time.Second) // b0's window is over, b1's is not
							k.request("10.0.0.3", nil)
							s.AdvanceQuiet(5 * time.Second) // both are over
							evals += 3
						}
						// fill every backend to 2 in-flight requests, then release down to the vector
						var hs []*held
						for q := 0; q < 2*n; q++ {
							hs = append(hs, k.startHeld("10.0.0.1"))
							evals++
						}
						for i := 0; i < n; i++ {
							if k.stubs[i].inflight != 2 {
								setupOK = false
							}
							for j := vec[i]; j < 2; j++ {
								k.release(k.stubs[i])
							}
						}
						for i := 0; i < n; i++ {
							if mask&(1<<i) != 0 {
								k.lb.MarkBackendUnhealthy(k.backendByName(fmt.Sprintf("b%d", i)), 1000*time.Second)
							}
						}
						for i := 0; i < n; i++ {
							b := k.backendByName(fmt.Sprintf("b%d", i))
							b.ActiveConnections += int32(va.base)
							gauges = append(gauges, b.GetActiveConnections())
						}
						got, status = servedIndex(k, "10.0.0.2")
						evals++
					})
					desc := fmt.Sprintf("least_connections n=%d weights=%v in-flight %v (+%d on every backend) ejected-mask=%b%s", n, weightsOf(va.weights, n), vec, va.base, mask, map[string]string{"outage": " after an outage of b0 under round_robin and a switch to least_connections", "staggered": " after outages of b0 and b1 whose windows overlapped and ended 5 s apart, with a request in between"}[va.prelude])
					if !setupOK {
						if va.weights == "equal" {
							c05Viol(r, "C05/least_connections/fill-uneven", fmt.Sprintf("n=%d: 2n overlapping requests from an idle pool did not put 2 on every backend", n), n, nil)
						} else {
							c05Viol(r, "C05/least_connections/not-minimal/while-filling", fmt.Sprintf("%s: 2n overlapping requests from an idle pool did not put 2 on every backend: some request went to a backend that was not minimally loaded", desc), n, nil)
						}
						continue
					}
					min := 99
					for i := 0; i < n; i++ {
						if mask&(1<<i) == 0 && vec[i] < min {
							min = vec[i]
						}
					}
					outs.Add(fmt.Sprintf("n%d-min%d-%s-base%d", n, min, va.weights, va.base))
					if sample == nil && n == 3 && mask == 1 {
						sample = map[string]interface{}{"strategy": "least_connections", "in_flight": vec, "ejected_mask": mask, "served_by": got, "gauges": gauges}
					}
					for i := 0; i < n; i++ {
						if int(gauges[i]) != vec[i]+va.base {
							c05Viol(r, "C05/least_connections/gauge-differs-from-in-flight", fmt.Sprintf("n=%d: backend b%d has %d requests in flight but its gauge reads %d", n, i, vec[i]+va.base, gauges[i]), n, nil)
						}
					}
					if got < 0 || mask&(1<<got) != 0 || vec[got] != min {
						key := "C05/least_connections/not-minimal"
						if got < 0 {
							key = "C05/least_connections/nobody-picked"
						}
						c05Viol(r, key, fmt.Sprintf("%s: next request served by %d (status %d); minimal eligible load is %d", desc, got, status, min+va.base), n, map[string]interface{}{"vec": vec, "mask": mask, "weights": va.weights, "base": va.base})
					}
				}
			}
		}
	}
	r.AddScenario(vres.Scenario{Name: "least_connections-vectors" + viaSuffix(), Engine: "H", Executions: cases, States: cases, Transitions: evals, Outcomes: outs.N(),
		Bound: fmt.Sprintf("every in-flight vector in {0,1,2}^n x every ejected subset, n=1..%d, built from really overlapping requests; for n=2..3 also under two unequal weight schemes; for n<=2 also on top of a common base load of 99, 100, 101, 1000, 65535, 65536 and 2^20 injected into the gauges", maxN), Exhaustive: true, Sample: sample,
		Extra: map[string]interface{}{"wall_s": time.Since(start).Seconds()}})
}

// --- weighted_round_robin after histories: bounded deviation from the proportional share
type c05wParams struct {
	Weights []int
}

type c05wInst struct {
	s      *vrt.Sched
	k      *kit
	p      c05wParams
	events []string
	ej     map[string]bool
	until  map[string]time.Duration // end of the unhealthy window of the backends that are out
	listed map[string]int           // name -> effective weight
	added  bool
	out    string
}

// lapse: the model's windows that are over by now
func (in *c05wInst) lapse() {
	for n, u := range in.until {
		if in.s.Clock() >= u {
			delete(in.until, n)
			in.ej[n] = false
		}
	}
}

func (in *c05wInst) LastOutcome() string { return in.out }

func (in *c05wInst) Step(ev int) *vh.HViol {
	e := in.events[ev]
	in.out = ""
	switch {
	case e == "pick":
		i, st := servedIndex(in.k, "10.0.0.1")
		in.out = fmt.Sprint(i, st)
	case e == "pick-x25":
		// a long stretch of traffic in one step: effects that grow with the number of requests
		// served in a state (e.g. while a backend is out) become reachable at small depth
		for q := 0; q < 25; q++ {
			servedIndex(in.k, "10.0.0.1")
		}
	case strings.HasPrefix(e, "eject:"):
		name := e[6:]
		if b := in.k.backendByName(name); b != nil && !in.ej[name] {
			in.k.lb.MarkBackendUnhealthy(b, 10*time.Second)
			in.ej[name] = true
			in.until[name] = in.s.Clock() + 10*time.Second
		}
	case strings.HasPrefix(e, "recover:"):
		name := e[8:]
		if b := in.k.backendByName(name); b != nil && in.ej[name] {
			// time passes until this backend's window is over (windows of others that end
			// earlier are over then, too; the ones that end later go on)
			if u := in.until[name] + time.Millisecond; u > in.s.Clock() {
				in.s.AdvanceQuiet(u - in.s.Clock())
			}
			in.lapse()
		}
	case e == "clock+4s":
		in.s.AdvanceQuiet(4 * time.Second)
		in.lapse()
	case e == "remove:b0":
		if _, ok := in.listed["b0"]; ok {
			in.k.lb.RemoveBackend("b0")
			delete(in.listed, "b0")
			delete(in.ej, "b0")
			delete(in.until, "b0")
		}
	case e == "add":
		if !in.added {
			in.added = true
			_ = in.k.lb.AddBackend(config.BackendConfig{Name: "x1", Address: "http://x1.test:80", Weight: 2})
			in.k.adopt(in.k.backendByName("x1"))
			in.listed["x1"] = 2
		}
	}
	return nil
}

func (in *c05wInst) Fingerprint() string {
	return in.k.novel() + strategyState(in.k.lb.strategy) + fmt.Sprint(in.ej, in.listed, in.added) + func() string {
		o := ""
		for _, b := range in.k.lb.strategy.GetBackends() {
			o += fmt.Sprint(b.IsHealthy, b.UnhealthyUntil.After(vrt.Now()), in.until[b.Name]-in.s.Clock(), ";")
		}
		return o
	}()
}

func (in *c05wInst) Probe() *vh.HViol {
	wTotal, wElig := 0, 0
	for n, w := range in.listed {
		wTotal += w
		if !in.ej[n] {
			wElig += w
		}
	}
	if wElig == 0 {
		return nil
	}
	bound := 2 * float64(wTotal) / float64(wElig)
	served := map[string]int{}
	var seq []string
	for N := 1; N <= 3*wElig; N++ {
		i, _ := servedIndex(in.k, "10.0.0.1")
		name := "none"
		if i >= 0 {
			name = in.k.stubs[i].name
		}
		seq = append(seq, name)
		served[name]++
		if i < 0 || in.ej[name] {
			return &vh.HViol{Key: "C05/weighted_round_robin/history-served-ineligible", What: fmt.Sprintf("weights %v: request served by %s (ejected/none)", in.listed, name)}
		}
		for n, w := range in.listed {
			if in.ej[n] {
				continue
			}
			dev := float64(served[n]) - float64(N)*float64(w)/float64(wElig)
			if dev < 0 {
				dev = -dev
			}
			if dev > bound+1e-9 {
				return &vh.HViol{Key: "C05/weighted_round_robin/history-deviation-exceeds-bound", What: fmt.Sprintf("weights %v ejected %v: after %d requests %s was served %d times, proportional share %.2f, deviation %.2f > bound 2*W_total/W_eligible = %.2f (sequence %v)", in.listed, in.ej, N, n, served[n], float64(N)*float64(w)/float64(wElig), dev, bound, seq)}
			}
		}
	}
	return nil
}

func c05wSpec(p c05wParams, depth int) vh.HSpec {
	ev := []string{"pick", "pick-x25"}
	for i := range p.Weights {
		ev = append(ev, fmt.Sprintf("eject:b%d", i), fmt.Sprintf("recover:b%d", i))
	}
	// (time passes without a window ending: ejections that follow are staggered against the
	// ones before, their windows overlap and end at different moments)
	ev = append(ev, "remove:b0", "add", "clock+4s")
	return vh.HSpec{Name: fmt.Sprintf("wrr-history-%v", p.Weights), KeyPrefix: "C05/weighted_round_robin", Events: ev, Depth: depth, Params: p,
		New: func(s *vrt.Sched) vh.HInstance {
			k := newKit(s, kitOpts{Strategy: "weighted_round_robin", N: len(p.Weights), Weights: p.Weights, PassiveThr: 1, Window: 1000})
			in := &c05wInst{s: s, k: k, p: p, events: ev, ej: map[string]bool{}, until: map[string]time.Duration{}, listed: map[string]int{}}
			for i, w := range p.Weights {
				if w < 1 {
					w = 1
				}
				in.listed[fmt.Sprintf("b%d", i)] = w
			}
			return in
		}}
}

// --- round_robin under concurrency: exact totals however the picks interleave
type c05sParams struct {
	N, Threads, Each int
}

func c05sScenario(p c05sParams, bound int) vh.SScenario {
	return vh.SScenario{Name: fmt.Sprintf("rr-concurrent-n%d-%dx%d", p.N, p.Threads, p.Each), KeyPrefix: "C05/round_robin/conc", Bound: bound, Params: p, Body: func(x *vh.Exec) {
		s := x.S
		k := newKit(s, kitOpts{Strategy: "round_robin", N: p.N})
		counts := map[string]int{}
		x.Check = func(v vrt.Verdict) (string, string, string, bool) {
			out := fmt.Sprint(counts)
			if v.Kind != vrt.OK {
				return out, "", "", false
			}
			want := p.Threads * p.Each / p.N
			for i := 0; i < p.N; i++ {
				if counts[fmt.Sprintf("b%d", i)] != want {
					return out, "C05/round_robin/concurrent-totals-uneven", fmt.Sprintf("%d concurrent pickers x %d picks over %d backends: totals %v, expected exactly %d each", p.Threads, p.Each, p.N, counts, want), true
				}
			}
			return out, "", "", true
		}
		s.Branch(true)
		var ths []*vrt.Thread
		for t := 0; t < p.Threads; t++ {
			ths = append(ths, s.Spawn(fmt.Sprintf("picker%d", t), func() {
				for j := 0; j < p.Each; j++ {
					req := httptest.NewRequest("GET", "http://helios.test/", nil)
					b := k.lb.findHealthyBackend(req)
					if b != nil {
						counts[b.Name]++
					} else {
						counts["none"]++
					}
				}
			}))
		}
		s.Join(ths...)
	}}
}

func TestVerifC05(t *testing.T) {
	r := vres.Open("C05", "H")
	defer func() {
		if err := r.Close(); err != nil {
			t.Fatal(err)
		}
	}()
	th := vres.Thorough()
	if vh.MyShard(0) {
		if th {
			c05RoundRobin(r, 8)
		} else {
			c05RoundRobin(r, 6)
		}
	}
	if th {
		c05WRRFresh(r, 4, 6)
		c05LeastConn(r, 4)
	} else {
		c05WRRFresh(r, 3, 6)
		c05LeastConn(r, 3)
	}
	c05WRRMagnitudes(r)
	// the same contracts for strategies selected at run time instead of in the configuration
	// (smaller pools): the distribution contract belongs to the strategy's name, not to the way
	// it was selected
	kitViaSwitch = true
	if vh.MyShard(0) {
		c05RoundRobin(r, 3)
	}
	c05WRRFresh(r, 2, 4)
	c05LeastConn(r, 2)
	kitViaSwitch = false
	depth := 6
	wvs := [][]int{{1, 2}, {3, 1}, {1, 2, 3}, {2, 2, 1}}
	if th {
		depth = 7
		wvs = append(wvs, []int{3, 3, 1}, []int{1, 1, 1}, []int{3, 2}, []int{0, 3, 1})
	}
	for i, w := range wvs {
		if vh.MyShard(i + 1) {
			vh.RunH(r, "TestVerifC05", c05wSpec(c05wParams{w}, depth))
		}
	}
}

// --- round_robin with an ejected member, pick-level interleavings: the counting claim speaks
// of eligible backends. With a backend of the pool out, a request may need several picks; the
// order in which the picks of concurrent requests take their turns at the strategy is all that
// distinguishes two schedules, so the exploration switches threads at picks only (a decorator
// around the strategy yields there) and is not bounded in preemptions: every order of the picks
// is run. Two pickers with one request each and one picker with many: enough for every pick of
// the first two to land on the ejected backend while the third takes the turns in between.
type c05pParams struct {
	Singles, Long int
}

type yieldingStrategy struct {
	Strategy
	s *vrt.Sched
}

func (y *yieldingStrategy) NextBackend(r *http.Request) *Backend {
	y.s.Branch(true)
	y.s.Yield("pick")
	y.s.Branch(false)
	return y.Strategy.NextBackend(r)
}

func c05pScenario(p c05pParams) vh.SScenario {
	return vh.SScenario{Name: fmt.Sprintf("rr-one-member-out-%dx1+1x%d", p.Singles, p.Long), KeyPrefix: "C05/round_robin/conc", Bound: 1 << 20, Params: p, ShardSubtrees: true, Horizon: 100000, Body: func(x *vh.Exec) {
		s := x.S
		k := newKit(s, kitOpts{Strategy: "round_robin", N: 3, PassiveThr: 1, Window: 1000})
		k.lb.MarkBackendUnhealthy(k.backendByName("b1"), 1000*time.Second)
		k.lb.strategy = &yieldingStrategy{Strategy: k.lb.strategy, s: s}
		counts := map[string]int{}
		total := p.Singles + p.Long
		x.Check = func(v vrt.Verdict) (string, string, string, bool) {
			out := fmt.Sprint(counts)
			if v.Kind != vrt.OK {
				return out, "", "", false
			}
			if counts["b1"] != 0 || counts["none"] != 0 {
				return out, "C05/round_robin/concurrent-pick-not-eligible", fmt.Sprintf("pool b0 b1 b2 with b1 out: %d concurrent requests were dispatched %v", total, counts), true
			}
			if total%2 == 0 && counts["b0"] != counts["b2"] {
				return out, "C05/round_robin/concurrent-totals-uneven/one-member-out", fmt.Sprintf("pool b0 b1 b2 with b1 out for the whole run, %d pickers with one request each and one with %d: the %d requests went %v, expected exactly %d for each of the two eligible backends", p.Singles, p.Long, total, counts, total/2), true
			}
			return out, "", "", true
		}
		var ths []*vrt.Thread
		spawn := func(name string, n int) {
			ths = append(ths, s.Spawn(name, func() {
				s.Branch(false) // threads change at picks only (and when one ends)
				for j := 0; j < n; j++ {
					if b := k.lb.findHealthyBackend(httptest.NewRequest("GET", "http://helios.test/", nil)); b != nil {
						counts[b.Name]++
					} else {
						counts["none"]++
					}
				}
				s.Branch(true) // who goes on when this one has ended is a choice, too
			}))
		}
		for t := 0; t < p.Singles; t++ {
			spawn(fmt.Sprintf("single%d", t), 1)
		}
		spawn("long", p.Long)
		s.Branch(true)
		s.Join(ths...)
	}}
}

func TestVerifC05S(t *testing.T) {
	r := vres.Open("C05", racePart("S"))
	defer func() {
		if err := r.Close(); err != nil {
			t.Fatal(err)
		}
	}()
	if vres.ReplayPath() != "" {
		var rp vh.SReplay
		var p c05sParams
		rp.Params = &p
		if err := vres.LoadReplay(&rp); err != nil {
			t.Fatal(err)
		}
		if strings.HasPrefix(rp.Scenario, "rr-one-member-out") {
			var pp c05pParams
			rp.Params = &pp
			if err := vres.LoadReplay(&rp); err != nil {
				t.Fatal(err)
			}
			vh.ReplayS(c05pScenario(pp), rp.Choices)
			return
		}
		vh.ReplayS(c05sScenario(p, 0), rp.Choices)
		return
	}
	scs := []vh.SScenario{c05sScenario(c05sParams{2, 2, 2}, 2), c05sScenario(c05sParams{3, 3, 1}, 2), c05sScenario(c05sParams{2, 2, 3}, 2)}
	if vres.Thorough() {
		scs = append(scs, c05sScenario(c05sParams{3, 3, 2}, 3), c05sScenario(c05sParams{2, 4, 1}, 3), c05sScenario(c05sParams{4, 2, 2}, 3), c05sScenario(c05sParams{2, 2, 2}, 4))
	}
	if !vrt.RaceBuild {
		scs = append(scs, c05pScenario(c05pParams{1, 5}), c05pScenario(c05pParams{2, 10}))
	}
	for i, sc := range scs {
		if vh.MyShard(i) || sc.ShardSubtrees {
			vh.RunS(r, "TestVerifC05S", sc)
		}
	}
}

// setCursors sets every integer cursor field of a strategy to v (truncated to the field's
// width): the state the strategy is in after v picks, without naming the field.
func setCursors(st Strategy, v uint64) {
	rv := reflect.ValueOf(st)
	for rv.Kind() == reflect.Ptr || rv.Kind() == reflect.Interface {
		rv = rv.Elem()
	}
	if rv.Kind() != reflect.Struct {
		return
	}
	for i := 0; i < rv.NumField(); i++ {
		f := rv.Field(i)
		switch f.Kind() {
		case reflect.Uint64, reflect.Uint32, reflect.Uint16, reflect.Uint, reflect.Uintptr:
			reflect.NewAt(f.Type(), unsafe.Pointer(f.UnsafeAddr())).Elem().SetUint(v & (1<<uint(f.Type().Bits()) - 1))
		case reflect.Int64, reflect.Int32, reflect.Int:
			reflect.NewAt(f.Type(), unsafe.Pointer(f.UnsafeAddr())).Elem().SetInt(int64(v & (1<<uint(f.Type().Bits()-1) - 1)))
		}
	}
}
