package loadbalancer

import (
	"fmt"
	"testing"

	"github.com/0xReLogic/Helios/internal/zzverif/vh"
	"github.com/0xReLogic/Helios/internal/zzverif/vres"
	"github.com/0xReLogic/Helios/internal/zzverif/vrt"
)

// C19 (pooled backend connections, schedule part): "pooled connections are closed" for the
// keep-alive connections to the backends, under every interleaving of a client request with the
// removal of a backend - in particular the one in which the request has picked the backend
// before the removal and is dispatched to it afterwards. The scripted transport keeps the
// books of an http.Transport's idle pool (see stubRT.RoundTrip). After the threads have ended
// the balancer is stopped; no backend, registered or removed, may be left with an idle
// connection.

type c19rmParams struct {
	Strategy string
	Remove   string
	Requests int
}

func c19rmScenario(p c19rmParams, bound int) vh.SScenario {
	return vh.SScenario{Name: fmt.Sprintf("pooled-connections-%s-remove-%s-%d-requests", p.Strategy, p.Remove, p.Requests), KeyPrefix: "C19", Bound: bound, Params: p, Horizon: 2000,
		Body: func(x *vh.Exec) {
			s := x.S
			k := newKit(s, kitOpts{Strategy: p.Strategy, N: 2})
			all := append([]*stub(nil), k.stubs...)
			statuses := make([]int, p.Requests)
			key, what := "", ""
			x.Check = func(v vrt.Verdict) (string, string, string, bool) {
				out := fmt.Sprint(statuses)
				for _, st := range all {
					out += fmt.Sprintf(" %s:%d", st.name, st.idleConns)
				}
				if v.Kind != vrt.OK {
					return out, "", "", false
				}
				return out, key, what, true
			}
			s.Branch(true)
			var ths []*vrt.Thread
			for i := 0; i < p.Requests; i++ {
				i := i
				ths = append(ths, s.Spawn(fmt.Sprintf("client%d", i), func() { statuses[i] = k.request(fmt.Sprintf("10.0.0.%d", i+1), nil).Status }))
			}
			ths = append(ths, s.Spawn("admin", func() { k.lb.RemoveBackend(p.Remove) }))
			s.Join(ths...)
			s.Branch(false)
			k.lb.Stop()
			for _, st := range all {
				if st.idleConns != 0 {
					key, what = "C19/pooled-connection-left-open/backend-keep-alive/schedule", fmt.Sprintf("%s: %d request(s) concurrently with the removal of %s, then Stop: the transport of %s still holds %d idle connection(s) (requests answered %v)", p.Strategy, p.Requests, p.Remove, st.name, st.idleConns, statuses)
				}
			}
		}}
}

func c19rmScenarios() []vh.SScenario {
	bound := 2
	if vres.Thorough() {
		bound = 3
	}
	var out []vh.SScenario
	for _, strat := range []string{"round_robin", "least_connections", "ip_hash"} {
		for _, rm := range []string{"b0", "b1"} {
			out = append(out, c19rmScenario(c19rmParams{strat, rm, 1}, bound), c19rmScenario(c19rmParams{strat, rm, 2}, bound-1))
		}
	}
	return out
}

func TestVerifC19Removal(t *testing.T) {
	r := vres.Open("C19", "S-Removal")
	defer func() {
		if err := r.Close(); err != nil {
			t.Fatal(err)
		}
	}()
	if vres.ReplayPath() != "" {
		var rp vh.SReplay
		var p c19rmParams
		rp.Params = &p
		if err := vres.LoadReplay(&rp); err != nil {
			t.Fatal(err)
		}
		vh.ReplayS(c19rmScenario(p, 0), rp.Choices)
		return
	}
	for i, sc := range c19rmScenarios() {
		if vh.MyShard(i) {
			vh.RunS(r, "TestVerifC19Removal", sc)
		}
	}
}
