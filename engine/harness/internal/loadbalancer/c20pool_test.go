package loadbalancer

import (
	"fmt"
	"net"
	"strings"
	"testing"
	"time"

	"github.com/0xReLogic/Helios/internal/zzverif/vh"
	"github.com/0xReLogic/Helios/internal/zzverif/vres"
	"github.com/0xReLogic/Helios/internal/zzverif/vrt"
)

// C20 (pool part): invariants over all histories / interleavings of pool operations with
// tracked fake connections. No reference algorithm (the statement does not fix LIFO/FIFO):
//   exclusivity: Get returns only a connection that is in the pool (not one an actor holds,
//                not one handed out twice), and never one the pool has closed
//   freshness:   never one idle longer than idle_timeout
//   bound:       idle count <= max_idle and equals the open connections the pool owns
//   ownership:   a refused Put closes the connection; Shutdown closes everything owned

const c20Timeout = 10 * time.Second

type tconn struct {
	fakeConn
	id     int
	bk     string
	inPool bool
	stamp  time.Duration
	held   bool
	handed int
}

type c20Params struct {
	Backends int
	MaxIdle  int
}

type c20Inst struct {
	s      *vrt.Sched
	pool   *WebSocketPool
	p      c20Params
	events []string
	conns  []*tconn
	out    string
	shut   bool
}

func c20Events(p c20Params) []string {
	var ev []string
	for b := 0; b < p.Backends; b++ {
		n := fmt.Sprintf("b%d", b)
		ev = append(ev, "put-new:"+n, "get:"+n, "put-held:"+n, "close-held:"+n)
	}
	return append(ev, "clock+4s", "clock+11s", "cleanup", "shutdown")
}

func (in *c20Inst) LastOutcome() string { return in.out }

func (in *c20Inst) heldFor(bk string) *tconn {
	for _, c := range in.conns {
		if c.held && c.bk == bk {
			return c
		}
	}
	return nil
}

func (in *c20Inst) byConn(nc net.Conn) *tconn {
	for _, c := range in.conns {
		if net.Conn(c) == nc {
			return c
		}
	}
	return nil
}

func (in *c20Inst) cfg() string {
	return fmt.Sprintf("backends=%d max_idle=%d idle_timeout=10s", in.p.Backends, in.p.MaxIdle)
}

func (in *c20Inst) put(c *tconn) *vh.HViol {
	now := in.s.Clock()
	ok := in.pool.Put(c.bk, c)
	c.held = false
	if ok {
		c.inPool, c.stamp = true, now
		in.out = "pooled"
		if c.closed > 0 {
			return &vh.HViol{Key: "C20/pool/accepted-connection-closed", What: in.cfg() + ": Put returned true but the connection was closed"}
		}
	} else {
		in.out = "refused"
		if c.closed == 0 {
			return &vh.HViol{Key: "C20/pool/refused-connection-left-open", What: in.cfg() + ": Put returned false but left the connection open (leak)"}
		}
	}
	return nil
}

func (in *c20Inst) Step(ev int) *vh.HViol {
	e := in.events[ev]
	now := in.s.Clock()
	arg := ""
	if i := strings.Index(e, ":"); i >= 0 {
		arg = e[i+1:]
	}
	in.out = ""
	switch {
	case strings.HasPrefix(e, "put-new:"):
		c := &tconn{id: len(in.conns), bk: arg}
		in.conns = append(in.conns, c)
		if v := in.put(c); v != nil {
			return v
		}
	case strings.HasPrefix(e, "get:"):
		if in.heldFor(arg) != nil {
			in.out = "noop"
			break // the actor holds at most one connection per backend
		}
		nc := in.pool.Get(arg)
		if nc == nil {
			in.out = "nil"
			// a fresh pooled connection must be retrievable
			for _, c := range in.conns {
				if c.inPool && c.bk == arg && c.closed == 0 && now-c.stamp < c20Timeout {
					return &vh.HViol{Key: "C20/pool/fresh-connection-not-returned", What: fmt.Sprintf("%s: Get(%s) returned nil although connection #%d was pooled %v ago", in.cfg(), arg, c.id, now-c.stamp)}
				}
			}
			break
		}
		c := in.byConn(nc)
		switch {
		case c == nil:
			return &vh.HViol{Key: "C20/pool/unknown-connection", What: in.cfg() + ": Get returned a connection nobody put"}
		case !c.inPool || c.held:
			return &vh.HViol{Key: "C20/pool/connection-handed-to-two-holders", What: fmt.Sprintf("%s: Get(%s) returned connection #%d which is not in the pool (held=%v, handed out %d times)", in.cfg(), arg, c.id, c.held, c.handed)}
		case c.bk != arg:
			return &vh.HViol{Key: "C20/pool/connection-of-another-backend", What: fmt.Sprintf("%s: Get(%s) returned a connection pooled for %s", in.cfg(), arg, c.bk)}
		case c.closed > 0:
			return &vh.HViol{Key: "C20/pool/returned-closed-connection", What: fmt.Sprintf("%s: Get(%s) returned connection #%d which the pool had closed", in.cfg(), arg, c.id)}
		case now-c.stamp > c20Timeout:
			return &vh.HViol{Key: "C20/pool/returned-stale-connection", What: fmt.Sprintf("%s: Get(%s) returned connection #%d idle for %v > idle_timeout", in.cfg(), arg, c.id, now-c.stamp)}
		}
		c.inPool, c.held = false, true
		c.handed++
		in.out = "conn"
	case strings.HasPrefix(e, "put-held:"):
		c := in.heldFor(arg)
		if c == nil {
			in.out = "noop"
			break
		}
		if v := in.put(c); v != nil {
			return v
		}
	case strings.HasPrefix(e, "close-held:"):
		c := in.heldFor(arg)
		if c == nil {
			in.out = "noop"
			break
		}
		in.pool.Close(arg, c)
		c.held = false
		if c.closed == 0 {
			return &vh.HViol{Key: "C20/pool/close-left-connection-open", What: in.cfg() + ": Close did not close the connection"}
		}
		in.out = "closed"
	case e == "clock+4s":
		in.s.AdvanceQuiet(4 * time.Second)
	case e == "clock+11s":
		in.s.AdvanceQuiet(11 * time.Second)
	case e == "cleanup":
		in.pool.cleanup()
		for _, c := range in.conns {
			if c.inPool && c.closed == 0 && in.s.Clock()-c.stamp > c20Timeout {
				return &vh.HViol{Key: "C20/pool/cleanup-kept-stale-connection", What: fmt.Sprintf("%s: connection #%d idle for %v survived cleanup", in.cfg(), c.id, in.s.Clock()-c.stamp)}
			}
		}
	case e == "shutdown":
		in.pool.Shutdown()
		in.shut = true
		for _, c := range in.conns {
			if c.inPool && c.closed == 0 {
				return &vh.HViol{Key: "C20/pool/shutdown-left-connection-open", What: fmt.Sprintf("%s: connection #%d still open after Shutdown", in.cfg(), c.id)}
			}
		}
	}
	// pool-closed connections leave the pool
	for _, c := range in.conns {
		if c.inPool && c.closed > 0 {
			c.inPool = false
		}
	}
	for b := 0; b < in.p.Backends; b++ {
		bk := fmt.Sprintf("b%d", b)
		idle, _ := in.pool.Stats(bk)
		own := 0
		for _, c := range in.conns {
			if c.inPool && c.bk == bk {
				own++
			}
		}
		if idle > in.p.MaxIdle {
			return &vh.HViol{Key: "C20/pool/more-than-max-idle", What: fmt.Sprintf("%s: %d idle connections for %s", in.cfg(), idle, bk)}
		}
		if idle != own {
			return &vh.HViol{Key: "C20/pool/idle-count-differs-from-owned-open-connections", What: fmt.Sprintf("%s: Stats(%s) reports %d idle but the pool owns %d open connections", in.cfg(), bk, idle, own)}
		}
	}
	return nil
}

func (in *c20Inst) Fingerprint() string {
	now := in.s.Clock()
	var b strings.Builder
	b.WriteString(vh.FingerprintClip(c20Timeout+time.Second, in.pool))
	for _, c := range in.conns {
		age := now - c.stamp
		if age > c20Timeout {
			age = c20Timeout + 1
		}
		if !c.inPool {
			age = 0
		}
		fmt.Fprintf(&b, "|%s:%v:%v:%d:%v", c.bk, c.inPool, c.held, c.closed, age)
	}
	return b.String()
}

func c20Spec(p c20Params, depth int) vh.HSpec {
	ev := c20Events(p)
	return vh.HSpec{Name: fmt.Sprintf("wspool-seq-b%d-maxidle%d", p.Backends, p.MaxIdle), KeyPrefix: "C20/pool", Events: ev, Depth: depth, Params: p,
		New: func(s *vrt.Sched) vh.HInstance {
			return &c20Inst{s: s, pool: NewWebSocketPool(p.MaxIdle, 100, c20Timeout), p: p, events: ev}
		}}
}

func TestVerifC20PoolH(t *testing.T) {
	r := vres.Open("C20", "PoolH")
	defer func() {
		if err := r.Close(); err != nil {
			t.Fatal(err)
		}
	}()
	depth := 6
	if vres.Thorough() {
		depth = 8
	}
	if vres.ReplayPath() != "" {
		var rp vh.HReplay
		var p c20Params
		rp.Params = &p
		if err := vres.LoadReplay(&rp); err != nil {
			t.Fatal(err)
		}
		vh.ReplayH(c20Spec(p, depth), rp.Events, rp.Probe)
		return
	}
	i := 0
	for nb := 1; nb <= 2; nb++ {
		for mi := 0; mi <= 3; mi++ {
			d := depth
			if nb == 2 {
				d = depth - 1
			}
			if vh.MyShard(i) {
				vh.RunH(r, "TestVerifC20PoolH", c20Spec(c20Params{nb, mi}, d))
			}
			i++
		}
	}
}

// ---------------------------------------------------------------- concurrent part

type c20sParams struct {
	MaxIdle int
	Actors  []string // each: sequence of ops separated by ',' : put, get, getput, shutdown, cleanup
}

func c20sScenario(p c20sParams, bound int) vh.SScenario {
	return vh.SScenario{Name: fmt.Sprintf("wspool-conc-maxidle%d-%v", p.MaxIdle, p.Actors), KeyPrefix: "C20/pool/conc", Bound: bound, Params: p, Body: func(x *vh.Exec) {
		s := x.S
		pool := NewWebSocketPool(p.MaxIdle, 100, c20Timeout)
		var conns []*tconn
		mk := func() *tconn {
			c := &tconn{id: len(conns), bk: "b0"}
			conns = append(conns, c)
			return c
		}
		// one connection is pooled before the race starts
		c0 := mk()
		c0.inPool = pool.Put("b0", c0)
		key, what := "", ""
		viol := func(k, w string) {
			if key == "" {
				key, what = k, w
			}
		}
		x.Check = func(v vrt.Verdict) (string, string, string, bool) {
			out := ""
			for _, c := range conns {
				out += fmt.Sprintf("#%d:pool=%v,held=%v,closed=%d,handed=%d ", c.id, c.inPool, c.held, c.closed, c.handed)
			}
			if v.Kind != vrt.OK {
				return out, "", "", false
			}
			return out, key, what, true
		}
		get := func() *tconn {
			nc := pool.Get("b0")
			if nc == nil {
				return nil
			}
			var c *tconn
			for _, k := range conns {
				if net.Conn(k) == nc {
					c = k
				}
			}
			if c.held {
				viol("C20/pool/conc/connection-handed-to-two-holders", fmt.Sprintf("connection #%d handed to a second holder while the first still holds it", c.id))
			}
			if c.closed > 0 {
				viol("C20/pool/conc/returned-closed-connection", fmt.Sprintf("Get returned connection #%d which had been closed", c.id))
			}
			c.held = true
			c.inPool = false
			c.handed++
			return c
		}
		put := func(c *tconn) {
			c.held = false
			if pool.Put("b0", c) {
				c.inPool = true
			} else if c.closed == 0 {
				viol("C20/pool/conc/refused-connection-left-open", "Put returned false but left the connection open")
			}
		}
		s.Branch(true)
		var ths []*vrt.Thread
		for ai, a := range p.Actors {
			a := a
			ths = append(ths, s.Spawn(fmt.Sprintf("actor%d", ai), func() {
				for _, op := range strings.Split(a, ",") {
					switch op {
					case "put":
						put(mk())
					case "get":
						get()
					case "getput":
						if c := get(); c != nil {
							put(c)
						}
					case "shutdown":
						pool.Shutdown()
					case "cleanup":
						pool.cleanup()
					}
				}
			}))
		}
		s.Join(ths...)
		s.Branch(false)
		// after a final Shutdown nothing the pool accepted may stay open and unreachable:
		// whatever is still retrievable is drained first
		for {
			nc := pool.Get("b0")
			if nc == nil {
				break
			}
			for _, k := range conns {
				if net.Conn(k) == nc {
					k.inPool, k.held = false, true
				}
			}
		}
		idle, _ := pool.Stats("b0")
		if idle > p.MaxIdle {
			viol("C20/pool/conc/more-than-max-idle", fmt.Sprintf("%d idle connections with max_idle=%d", idle, p.MaxIdle))
		}
		pool.Shutdown()
		for _, c := range conns {
			if c.inPool && !c.held && c.closed == 0 {
				viol("C20/pool/conc/accepted-connection-stranded", fmt.Sprintf("connection #%d was accepted by Put, is not retrievable by Get and is still open after Shutdown (stranded in an orphaned per-backend pool)", c.id))
			}
		}
	}}
}

func TestVerifC20PoolS(t *testing.T) {
	r := vres.Open("C20", racePart("PoolS"))
	defer func() {
		if err := r.Close(); err != nil {
			t.Fatal(err)
		}
	}()
	if vres.ReplayPath() != "" {
		var rp vh.SReplay
		var p c20sParams
		rp.Params = &p
		if err := vres.LoadReplay(&rp); err != nil {
			t.Fatal(err)
		}
		vh.ReplayS(c20sScenario(p, 0), rp.Choices)
		return
	}
	bound := 2
	sets := [][]string{{"put", "shutdown"}, {"getput", "getput"}, {"get", "get"}, {"put,get", "cleanup"}, {"getput", "shutdown"}, {"put", "put"}}
	if vres.Thorough() {
		bound = 3
		sets = append(sets, []string{"put", "get", "shutdown"}, []string{"getput", "getput", "cleanup"}, []string{"put,put", "get,get"})
	}
	i := 0
	for _, mi := range []int{1, 2} {
		for _, a := range sets {
			if vh.MyShard(i) {
				vh.RunS(r, "TestVerifC20PoolS", c20sScenario(c20sParams{mi, a}, bound))
			}
			i++
		}
	}
}
