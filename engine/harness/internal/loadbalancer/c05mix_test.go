package loadbalancer

import (
	"fmt"
	"testing"
	"time"

	"github.com/0xReLogic/Helios/internal/config"
	"github.com/0xReLogic/Helios/internal/zzverif/vh"
	"github.com/0xReLogic/Helios/internal/zzverif/vres"
	"github.com/0xReLogic/Helios/internal/zzverif/vrt"
)

// C05 (other features in front of the strategy). The distribution contracts speak about the
// requests the backends are given. With the circuit breaker and the rate limiter enabled some
// requests never get that far (503 while the breaker is open, 429 past the trial budget or
// when the client's bucket is empty). They are given to nobody, so they must not take a turn
// either: the sequence of requests that were forwarded has to satisfy the same contract -
// round_robin: every n consecutive forwarded requests hit every backend once;
// weighted_round_robin: every sum(w) consecutive forwarded requests hit backend i w_i times.
// Explicit-state search over histories of {request answered 200, request answered 500, clock
// steps} with a breaker that trips after two failures and a limiter with a burst of three.

type c05mParams struct {
	Strategy string
	Weights  []int
}

var c05mEvents = []string{"req-ok", "req-500", "clock+1.1s", "clock+3.1s"}

type c05mInst struct {
	s   *vrt.Sched
	k   *kit
	p   c05mParams
	seq []int // backends of the forwarded requests, in order
	out string
}

func (in *c05mInst) LastOutcome() string { return in.out }

func (in *c05mInst) period() int {
	if in.p.Strategy == "round_robin" {
		return len(in.p.Weights)
	}
	w := 0
	for _, x := range in.p.Weights {
		w += x
	}
	return w
}

func (in *c05mInst) Step(ev int) *vh.HViol {
	switch ev {
	case 2:
		in.s.AdvanceQuiet(1100 * time.Millisecond)
		in.out = ""
		return nil
	case 3:
		in.s.AdvanceQuiet(3100 * time.Millisecond)
		in.out = ""
		return nil
	}
	before := in.k.hitsVector()
	res := in.k.requestMode("10.0.0.1", map[int]string{0: "ok", 1: "500"}[ev])
	in.out = fmt.Sprint(res.Status)
	hit := -1
	for i, h := range in.k.hitsVector() {
		if h > before[i] {
			hit = i
		}
	}
	if hit < 0 {
		return nil // refused in front of the strategy: given to nobody
	}
	in.seq = append(in.seq, hit)
	W := in.period()
	if len(in.seq) < W {
		return nil
	}
	cnt := make([]int, len(in.p.Weights))
	for _, b := range in.seq[len(in.seq)-W:] {
		cnt[b]++
	}
	for i, c := range cnt {
		want := in.p.Weights[i]
		if in.p.Strategy == "round_robin" {
			want = 1
		}
		if c != want {
			return &vh.HViol{Key: "C05/" + in.p.Strategy + "/forwarded-requests-out-of-rotation", What: fmt.Sprintf("%s weights %v with circuit breaker and rate limiter enabled: the last %d forwarded requests were given to the backends as %v (whole forwarded sequence %v): requests refused by the breaker or the limiter must not take a turn of the rotation", in.p.Strategy, in.p.Weights, W, cnt, in.seq)}
		}
	}
	return nil
}

func (in *c05mInst) Fingerprint() string {
	W := in.period()
	tail := in.seq
	if len(tail) > W-1 {
		tail = tail[len(tail)-(W-1):]
	}
	return in.k.ControlState() + fmt.Sprint("|", tail)
}

func c05mSpec(p c05mParams, depth int) vh.HSpec {
	return vh.HSpec{Name: fmt.Sprintf("rotation-behind-breaker-and-limiter-%s-%v", p.Strategy, p.Weights), KeyPrefix: "C05/" + p.Strategy, Events: c05mEvents, Depth: depth, Params: p,
		New: func(s *vrt.Sched) vh.HInstance {
			k := newKit(s, kitOpts{Strategy: p.Strategy, N: len(p.Weights), Weights: p.Weights,
				Breaker: &config.CircuitBreakerConfig{Enabled: true, MaxRequests: 1, IntervalSeconds: 5, TimeoutSeconds: 3, FailureThreshold: 2, SuccessThreshold: 1},
				Limiter: &config.RateLimitConfig{Enabled: true, MaxTokens: 3, RefillRate: 1}})
			return &c05mInst{s: s, k: k, p: p}
		}}
}

func TestVerifC05Mix(t *testing.T) {
	r := vres.Open("C05", "Mix")
	defer func() {
		if err := r.Close(); err != nil {
			t.Fatal(err)
		}
	}()
	depth := 9
	if vres.Thorough() {
		depth = 12
	}
	if vres.ReplayPath() != "" {
		var rp vh.HReplay
		var p c05mParams
		rp.Params = &p
		if err := vres.LoadReplay(&rp); err != nil {
			t.Fatal(err)
		}
		vh.ReplayH(c05mSpec(p, depth), rp.Events, rp.Probe)
		return
	}
	cfgs := []c05mParams{{"round_robin", []int{1, 1}}, {"round_robin", []int{1, 1, 1}}, {"weighted_round_robin", []int{2, 1}}, {"weighted_round_robin", []int{3, 1, 1}}}
	if vres.Thorough() {
		cfgs = append(cfgs, c05mParams{"round_robin", []int{1, 1, 1, 1}}, c05mParams{"weighted_round_robin", []int{1, 2, 3}}, c05mParams{"weighted_round_robin", []int{2, 2, 1}})
	}
	for i, c := range cfgs {
		if vh.MyShard(i) {
			vh.RunH(r, "TestVerifC05Mix", c05mSpec(c, depth))
		}
	}
}
