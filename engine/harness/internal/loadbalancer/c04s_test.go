package loadbalancer

import (
	"fmt"
	"github.com/0xReLogic/Helios/internal/config"
	"strings"
	"testing"
	"time"

	"github.com/0xReLogic/Helios/internal/zzverif/vh"
	"github.com/0xReLogic/Helios/internal/zzverif/vres"
	"github.com/0xReLogic/Helios/internal/zzverif/vrt"
)

// C04 (schedules): health transitions racing each other. Final-state oracle at
// quiescence: a backend whose latest ejection is still in force (the harness knows when
// it was injected) is flagged unhealthy in /v1/backends and in the metrics mirror, and
// gets no traffic.

type c04sParams struct {
	Scenario string
	Strategy string
}

func c04sScenario(p c04sParams, bound int) vh.SScenario {
	return vh.SScenario{Name: "health-race-" + p.Scenario + "-" + p.Strategy, KeyPrefix: "C04/race", Bound: bound, Params: p, Body: func(x *vh.Exec) {
		s := x.S
		k := newKit(s, kitOpts{Strategy: p.Strategy, N: 2, PassiveThr: 1, Window: 10, Active: strings.HasPrefix(p.Scenario, "probe-")})
		b0 := k.backendByName("b0")
		if strings.HasPrefix(p.Scenario, "probe-") {
			s.Settle() // initial probe round
		}
		ejectedAt := time.Duration(-1)
		var final string
		check := func() (string, string) {
			now := s.Clock()
			flag, mirror := true, true
			for _, bi := range k.lb.ListBackends() {
				if bi.Name == "b0" {
					flag = bi.Healthy
				}
			}
			if bm, ok := k.lb.GetMetricsCollector().GetMetrics().BackendMetrics["b0"]; ok {
				mirror = bm.IsHealthy
			}
			inside := ejectedAt >= 0 && now <= ejectedAt+c04Window
			final = fmt.Sprintf("flag=%v mirror=%v inside=%v", flag, mirror, inside)
			if inside && flag {
				return "C04/race/" + p.Scenario + "/un-ejected-inside-window", fmt.Sprintf("b0 was ejected at t=%v (window 10s) but at t=%v /v1/backends reports it healthy", ejectedAt, now)
			}
			if inside && mirror {
				return "C04/race/" + p.Scenario + "/metrics-say-healthy-inside-window", fmt.Sprintf("b0 was ejected at t=%v (window 10s) but at t=%v the metrics/health endpoint reports it healthy", ejectedAt, now)
			}
			if inside {
				before := k.stubs[0].hits
				for c := 0; c < 6; c++ {
					k.request(fmt.Sprintf("10.3.0.%d", c), nil)
				}
				if k.stubs[0].hits != before {
					return "C04/race/" + p.Scenario + "/traffic-inside-window", "b0 received client traffic inside its unhealthy window"
				}
			}
			return "", ""
		}
		key, what := "", ""
		x.Check = func(v vrt.Verdict) (string, string, string, bool) {
			if v.Kind != vrt.OK {
				return final, "", "", false
			}
			return final, key, what, true
		}
		var ths []*vrt.Thread
		switch p.Scenario {
		case "expiry-vs-ejection":
			k.lb.MarkBackendUnhealthy(b0, c04Window)
			s.AdvanceQuiet(11 * time.Second)
			s.Branch(true)
			ths = append(ths, s.Spawn("expirer", func() { k.lb.IsBackendHealthy(b0) }))
			ths = append(ths, s.Spawn("ejector", func() {
				k.lb.MarkBackendUnhealthy(b0, c04Window)
			}))
			ejectedAt = s.Clock()
		case "two-expiries":
			k.lb.MarkBackendUnhealthy(b0, c04Window)
			s.AdvanceQuiet(11 * time.Second)
			s.Branch(true)
			ths = append(ths, s.Spawn("req1", func() { k.request("10.0.0.1", nil) }))
			ths = append(ths, s.Spawn("req2", func() { k.request("10.0.0.2", nil) }))
		case "probe-vs-ejection":
			s.Branch(true)
			ths = append(ths, s.Spawn("prober", func() { k.lb.checkBackendHealth(b0) }))
			ths = append(ths, s.Spawn("ejector", func() {
				k.lb.MarkBackendUnhealthy(b0, c04Window)
			}))
			ejectedAt = s.Clock()
		case "probe-vs-reregistration":
			// a probe of b0 is on its way while b0 is removed, registered again under the same
			// name and ejected: what the late probe reports is about the backend that is gone
			s.Branch(true)
			ths = append(ths, s.Spawn("prober", func() { k.lb.checkBackendHealth(b0) }))
			ths = append(ths, s.Spawn("operator", func() {
				k.lb.RemoveBackend("b0")
				if err := k.lb.AddBackend(config.BackendConfig{Name: "b0", Address: "http://b0.test:80", Weight: 1}); err != nil {
					vh.ToolError("re-adding b0: %v", err)
				}
				nb := k.backendByName("b0")
				k.adopt(nb)
				k.lb.MarkBackendUnhealthy(nb, c04Window)
			}))
			ejectedAt = s.Clock()
		}
		s.Join(ths...)
		s.Branch(false)
		key, what = check()
	}}
}

func TestVerifC04S(t *testing.T) {
	r := vres.Open("C04", racePart("S"))
	defer func() {
		if err := r.Close(); err != nil {
			t.Fatal(err)
		}
	}()
	if vres.ReplayPath() != "" {
		var rp vh.SReplay
		var p c04sParams
		rp.Params = &p
		if err := vres.LoadReplay(&rp); err != nil {
			t.Fatal(err)
		}
		vh.ReplayS(c04sScenario(p, 0), rp.Choices)
		return
	}
	bound := 2
	strategies := []string{"round_robin", "ip_hash"}
	if vres.Thorough() {
		bound = 3
		strategies = allStrategies
	}
	i := 0
	for _, sc := range []string{"expiry-vs-ejection", "two-expiries", "probe-vs-ejection", "probe-vs-reregistration"} {
		for _, st := range strategies {
			if vh.MyShard(i) {
				vh.RunS(r, "TestVerifC04S", c04sScenario(c04sParams{sc, st}, bound))
			}
			i++
		}
	}
}
