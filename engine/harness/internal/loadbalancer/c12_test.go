package loadbalancer

import (
	"fmt"
	"net/http/httptest"
	"strings"
	"testing"
	"time"

	"github.com/0xReLogic/Helios/internal/config"
	"github.com/0xReLogic/Helios/internal/zzverif/vh"
	"github.com/0xReLogic/Helios/internal/zzverif/vres"
	"github.com/0xReLogic/Helios/internal/zzverif/vrt"
)

// C12 concurrency safety: a menu of actors covering every subsystem; all unordered pairs
// (thorough: also triples containing a request) are explored under every interleaving up
// to the preemption bound, once in a normal build (deadlock / panic verdicts) and once
// in a -race build where the detector judges every explored schedule.

type c12Actor struct {
	name string
	run  func(k *kit)
}

var c12Actors = []c12Actor{
	{"req-ok", func(k *kit) { k.requestMode("10.0.0.1", "ok") }},
	{"req-500-eject", func(k *kit) { k.requestMode("10.0.0.2", "500") }},
	{"req-abort", func(k *kit) { k.requestMode("10.0.0.3", "abort") }},
	{"eject-b0", func(k *kit) { k.lb.MarkBackendUnhealthy(k.backendByName("b0"), 10*time.Second) }},
	{"req-expiring-b1", func(k *kit) { k.requestMode("10.0.0.4", "ok") }}, // b1's window has elapsed in the setup
	{"probe-tick", func(k *kit) { // the real health-check loop (started in the setup) does the probing
		if tk := k.s.TickerByPeriod(kitProbePeriod); tk != nil {
			tk.Fire()
		}
	}},
	{"admin-add", func(k *kit) {
		_ = k.lb.AddBackend(config.BackendConfig{Name: "x1", Address: "http://x1.test:80", Weight: 2})
	}},
	{"admin-remove-b1", func(k *kit) { k.lb.RemoveBackend("b1") }},
	{"admin-set-strategy", func(k *kit) { _ = k.lb.SetStrategy("weighted_round_robin"); _ = k.lb.SetStrategy("ip_hash") }},
	{"admin-list", func(k *kit) { k.lb.ListBackends() }},
	{"metrics-read", func(k *kit) {
		mc := k.lb.GetMetricsCollector()
		mc.GetMetrics()
		mc.MetricsHandler()(httptest.NewRecorder(), httptest.NewRequest("GET", "/metrics", nil))
		mc.HealthHandler()(httptest.NewRecorder(), httptest.NewRequest("GET", "/health", nil))
	}},
	{"stop", func(k *kit) { k.lb.Stop() }},
	{"limiter-cleanup", func(k *kit) {
		if rl, ok := k.lb.rateLimiter.(interface{ Allow(string) bool }); ok {
			rl.Allow("10.0.0.1")
		}
		k.cleanupLimiter()
	}},
	{"wspool-ops", func(k *kit) {
		c := &fakeConn{}
		k.lb.wsPool.Put("b0", c)
		if got := k.lb.wsPool.Get("b0"); got != nil {
			k.lb.wsPool.Close("b0", got)
		}
		k.lb.wsPool.Stats("b0")
		k.lb.wsPool.cleanup()
	}},
	{"tick-with-b0-ejected", func(k *kit) { // a probe round that starts while a backend's window is running
		k.lb.MarkBackendUnhealthy(k.backendByName("b0"), 10*time.Second)
		if tk := k.s.TickerByPeriod(kitProbePeriod); tk != nil {
			tk.Fire()
		}
	}},
	// the backend answers before the upload is through: the transport's goroutine is still
	// reading the request body when the exchange ends (and after)
	{"req-upload-answered-early", func(k *kit) { k.requestAnsweredEarly("10.0.0.5", "ok") }},
	{"req-upload-answered-early-500", func(k *kit) { k.requestAnsweredEarly("10.0.0.6", "500") }},
}

type c12Params struct {
	Strategy string
	Actors   []int
}

func c12Scenario(p c12Params, bound int) vh.SScenario {
	name := "mix-" + p.Strategy
	for _, a := range p.Actors {
		name += "+" + c12Actors[a].name
	}
	return vh.SScenario{Name: name, KeyPrefix: "C12", Bound: bound, Params: p, Horizon: 3000, Body: func(x *vh.Exec) {
		s := x.S
		k := newKit(s, kitOpts{Strategy: p.Strategy, N: 2, PassiveThr: 1, Window: 10, WSPool: true, Active: true,
			Breaker: &config.CircuitBreakerConfig{Enabled: true, MaxRequests: 1, IntervalSeconds: 5, TimeoutSeconds: 3, FailureThreshold: 1, SuccessThreshold: 1},
			Limiter: &config.RateLimitConfig{Enabled: true, MaxTokens: 5, RefillRate: 1}})
		k.AutoAdopt()
		s.Settle() // initial probe round
		// b1 was ejected long ago: its window has elapsed but the flag is still stale
		k.lb.MarkBackendUnhealthy(k.backendByName("b1"), 10*time.Second)
		s.AdvanceQuiet(11 * time.Second)
		finished := make([]bool, len(p.Actors))
		x.Check = func(v vrt.Verdict) (string, string, string, bool) {
			out := fmt.Sprint(finished)
			if v.Kind != vrt.OK {
				return out, "", "", false
			}
			for i, f := range finished {
				if !f {
					return out, "C12/actor-never-finished/" + c12Actors[p.Actors[i]].name, "actor " + c12Actors[p.Actors[i]].name + " never finished", true
				}
			}
			return out, "", "", true
		}
		s.Branch(true)
		var ths []*vrt.Thread
		for i, a := range p.Actors {
			i, a := i, a
			ths = append(ths, s.Spawn(c12Actors[a].name, func() {
				c12Actors[a].run(k)
				finished[i] = true
			}))
		}
		s.Join(ths...)
		s.Settle() // the health-check loop and its probes run to quiescence
		s.Branch(false)
		// the mix must leave a working balancer (unless it was stopped, which still serves)
		k.request("10.0.0.9", nil)
	}}
}

func c12Scenarios() []vh.SScenario {
	bound := 1
	strategies := []string{"weighted_round_robin", "round_robin", "ip_hash"}
	if vres.Thorough() {
		bound = 2
		strategies = allStrategies
	}
	var out []vh.SScenario
	n := len(c12Actors)
	// the requests whose upload goes on in a thread of its own bring a third thread into every
	// pair: in the thorough tier their pairs keep the quick tier's preemption bound (under every
	// strategy), and they take no part in the triples - with both, the race-mode exploration of
	// this one property went from half an hour to more than an hour
	slowUpload := func(a int) bool { return strings.HasPrefix(c12Actors[a].name, "req-upload-answered-early") }
	for _, st := range strategies {
		for a := 0; a < n; a++ {
			for b := a; b < n; b++ {
				if a == b && (c12Actors[a].name == "probe-tick" || c12Actors[a].name == "tick-with-b0-ejected") {
					continue // two ticks: 50 000 executions at one preemption; covered by C19's two-tick scenario
				}
				pb := bound
				if vres.Thorough() && (slowUpload(a) || slowUpload(b)) {
					pb = 1
				}
				out = append(out, c12Scenario(c12Params{st, []int{a, b}}, pb))
			}
		}
	}
	if !vres.Thorough() {
		// the remaining strategies: every pair that contains a request
		for _, st := range []string{"least_connections", "ip_hash_consistent"} {
			for a := 0; a <= 2; a++ {
				for b := a; b < n; b++ {
					out = append(out, c12Scenario(c12Params{st, []int{a, b}}, bound))
				}
			}
		}
	}
	if vres.Thorough() {
		for _, st := range []string{"least_connections", "ip_hash_consistent"} {
			for a := 1; a < n; a++ {
				for b := a + 1; b < n; b++ {
					if slowUpload(a) || slowUpload(b) {
						continue
					}
					out = append(out, c12Scenario(c12Params{st, []int{0, a, b}}, 1))
				}
			}
		}
	}
	return out
}

func TestVerifC12(t *testing.T) {
	part := "S"
	if vrt.RaceBuild {
		part = "Race"
	}
	r := vres.Open("C12", part)
	defer func() {
		if err := r.Close(); err != nil {
			t.Fatal(err)
		}
	}()
	if vres.ReplayPath() != "" {
		var rp vh.SReplay
		var p c12Params
		rp.Params = &p
		if err := vres.LoadReplay(&rp); err != nil {
			t.Fatal(err)
		}
		vh.ReplayS(c12Scenario(p, 0), rp.Choices)
		return
	}
	for i, sc := range c12Scenarios() {
		if vh.MyShard(i) {
			vh.RunS(r, "TestVerifC12", sc)
		}
	}
}
