package loadbalancer

// Exported views of the in-package harness kit for the external test package
// (loadbalancer_test), which may import adminapi without an import cycle.

import (
	"fmt"
	"net/http"
	"time"

	"github.com/0xReLogic/Helios/internal/zzverif/vh"
	"reflect"
	"strings"
	"unsafe"

	"github.com/0xReLogic/Helios/internal/config"
	"github.com/0xReLogic/Helios/internal/zzverif/vrt"
)

type VKit = kit
type VKitOpts = kitOpts
type VStub = stub
type VReqResult = reqResult

func VNewKit(s *vrt.Sched, o kitOpts) *kit { return newKit(s, o) }

func (k *kit) LB() *LoadBalancer      { return k.lb }
func (k *kit) Config() *config.Config { return k.cfg }
func (k *kit) Stubs() []*stub         { return k.stubs }

// AdoptAll installs scripted transports on backends added since (admin API adds).
func (k *kit) AdoptAll() {
	for _, b := range rawBackends(k.lb.strategy) {
		if _, ok := b.ReverseProxy.Transport.(*stubRT); !ok {
			k.adopt(b)
		}
	}
}

// Forget drops the scripted backend of a backend that was removed from the balancer: audits
// that walk the stubs are about the backends the deployment has.
func (k *kit) Forget(name string) {
	for i, st := range k.stubs {
		if st.name == name {
			k.stubs = append(k.stubs[:i:i], k.stubs[i+1:]...)
			for h, x := range k.byHost {
				if x == st {
					delete(k.byHost, h)
				}
			}
			return
		}
	}
}

// AutoAdopt makes adoption atomic with the add: it runs at every scheduling point, so no
// other thread can see a new backend before its scripted transport is installed.
func (k *kit) AutoAdopt() { k.s.OnPoint = k.AdoptAll }

// rawBackends reads a strategy's backend list without taking its locks (only valid under
// the cooperative scheduler) and without naming its fields.
func rawBackends(st Strategy) []*Backend {
	var out []*Backend
	v := reflect.ValueOf(st)
	for v.Kind() == reflect.Ptr || v.Kind() == reflect.Interface {
		v = v.Elem()
	}
	bt := reflect.TypeOf((*Backend)(nil))
	var walk func(v reflect.Value, depth int)
	walk = func(v reflect.Value, depth int) {
		if depth > 4 {
			return
		}
		switch v.Kind() {
		case reflect.Ptr:
			if v.IsNil() {
				return
			}
			if v.Type() == bt {
				out = append(out, (*Backend)(unsafe.Pointer(v.Pointer())))
				return
			}
			walk(v.Elem(), depth+1)
		case reflect.Struct:
			if strings.Contains(v.Type().PkgPath(), "zzverif") {
				return
			}
			for i := 0; i < v.NumField(); i++ {
				walk(v.Field(i), depth+1)
			}
		case reflect.Slice:
			for i := 0; i < v.Len(); i++ {
				walk(v.Index(i), depth+1)
			}
		}
	}
	walk(v, 0)
	return out
}

func (k *kit) Request(client string, h http.Handler) reqResult { return k.request(client, h) }

// ServedBy sends one request and reports which scripted backend (by host) was contacted.
func (k *kit) ServedBy(client string) (host string, status int) {
	before := k.hitsVector()
	res := k.request(client, nil)
	for i, h := range k.hitsVector() {
		if i >= len(before) || h > before[i] {
			return k.stubs[i].host, res.Status
		}
	}
	return "", res.Status
}

func (st *stub) Host() string { return st.host }
func (st *stub) Hits() int    { return st.hits }

// EjectByName ejects every listed backend of that name for a long window.
func (k *kit) EjectByName(name string) int {
	n := 0
	for _, b := range k.lb.strategy.GetBackends() {
		if b.Name == name {
			k.lb.MarkBackendUnhealthy(b, 100000*1e9)
			n++
		}
	}
	return n
}

// StrategyName reports the strategy in force by its concrete type.
func (k *kit) StrategyName() string {
	switch k.lb.strategy.(type) {
	case *RoundRobinStrategy:
		return "round_robin"
	case *LeastConnectionsStrategy:
		return "least_connections"
	case *WeightedRoundRobinStrategy:
		return "weighted_round_robin"
	case *IPHashStrategy:
		return "ip_hash"
	case *IPHashConsistentStrategy:
		return "ip_hash_consistent"
	}
	return "?"
}

// VStrategyState is the canonical rotation state (see strategyState).
func VStrategyState(lb *LoadBalancer) string { return strategyState(lb.strategy) }

func (k *kit) RequestMode(client, mode string) reqResult { return k.requestMode(client, mode) }

// RequestCancelled sends a request whose context is already cancelled (the client hung up
// before the balancer saw it).
func (k *kit) RequestCancelled(client string) reqResult { return k.requestCancelled(client) }

// EjectByNameFor ejects every listed backend of that name for the given window.
func (k *kit) EjectByNameFor(name string, d time.Duration) {
	for _, b := range k.lb.strategy.GetBackends() {
		if b.Name == name {
			k.lb.MarkBackendUnhealthy(b, d)
		}
	}
}

// ControlState is the part of the balancer's state that decides future behaviour
// (rotation, health windows, passive counters, breaker, limiter) without the ever-growing
// metrics counters.
func (k *kit) ControlState() string {
	clip := 12 * time.Second
	out := strategyState(k.lb.strategy) + vh.FingerprintClip(clip, k.lb.healthChecks)
	for _, b := range k.lb.strategy.GetBackends() {
		ur := b.UnhealthyUntil.Sub(vrt.Now())
		if ur < 0 {
			ur = -1
		}
		out += fmt.Sprintf("|%s:%v:%v:%d", b.Name, b.IsHealthy, ur, b.ActiveConnections)
	}
	if k.lb.circuitBreaker != nil {
		out += vh.FingerprintClip(clip, k.lb.circuitBreaker)
	}
	if k.lb.rateLimiter != nil {
		out += vh.FingerprintClip(clip, k.lb.rateLimiter)
	}
	return out + k.novel()
}

// VNovel: see kit.novel.
func (k *kit) VNovel() string { return k.novel() }

// VHeld is a request kept in flight at its backend (sequential harnesses).
type VHeld = held

// StartHeld starts a request that parks at its backend's transport gate; At() tells where.
func (k *kit) StartHeld(client string) *held { return k.startHeld(client) }

// ReleaseHeld lets the held request proceed and waits until it has finished.
func (k *kit) ReleaseHeld(h *held) {
	if h.at != nil {
		k.release(h.at)
	}
}

// At is the host of the backend the request is parked at ("" if it never reached one).
func (h *held) At() string {
	if h.at == nil {
		return ""
	}
	return h.at.host
}
func (h *held) Finished() bool    { return h.done }
func (h *held) Result() reqResult { return h.res }

// RequestUpgradeDeclined sends a request that asks for a protocol upgrade; the scripted backend
// answers with an ordinary 200 (it declines): an ordinary exchange as far as accounting goes.
func (k *kit) RequestUpgradeDeclined(client string) reqResult {
	return k.requestWith(client, nil, func(r *http.Request) {
		r.Header.Set("Connection", "Upgrade")
		r.Header.Set("Upgrade", "h2c")
	})
}

// Advance moves the virtual clock (sequential harnesses).
func (k *kit) Advance(d time.Duration) { k.s.AdvanceQuiet(d) }
