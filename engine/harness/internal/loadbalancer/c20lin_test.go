package loadbalancer

import (
	"fmt"
	"sort"
	"strings"
	"testing"

	"github.com/0xReLogic/Helios/internal/zzverif/vh"
	"github.com/0xReLogic/Helios/internal/zzverif/vres"
	"github.com/0xReLogic/Helios/internal/zzverif/vrt"
)

// C20 (pool, linearizability from every reachable state). Pool operations are atomic from a
// caller's point of view, so the pool itself run sequentially is a complete reference: every
// pool state the sequential search reaches within a few events is the start of 2-3 overlapping
// operations under every schedule up to the preemption bound; what each operation returned,
// what can be drained from the pool afterwards and which connections end up closed after a
// final Shutdown must equal the outcome of some sequential order of the same operations.

type c20lParams struct {
	Backends, MaxIdle int
	Prefix            []int
	Ops               []string // G<b> get, P<b> put a new connection, C cleanup, S shutdown
}

func c20lApply(in *c20Inst, op string, c *tconn) string {
	switch op[0] {
	case 'G':
		nc := in.pool.Get("b" + op[1:])
		if nc == nil {
			return "nil"
		}
		if k := in.byConn(nc); k != nil {
			k.inPool, k.held = false, true
			return fmt.Sprintf("#%d", k.id)
		}
		return "unknown"
	case 'P':
		return fmt.Sprint(in.pool.Put(c.bk, c))
	case 'C':
		in.pool.cleanup()
	case 'S':
		in.pool.Shutdown()
	}
	return "-"
}

// c20lAfter drains and shuts the pool down and renders everything observable.
func c20lAfter(in *c20Inst) string {
	var b strings.Builder
	for k := 0; k < in.p.Backends; k++ {
		bk := fmt.Sprintf("b%d", k)
		idle, _ := in.pool.Stats(bk)
		fmt.Fprintf(&b, "%s:idle=%d:", bk, idle)
		var ids []string
		for {
			nc := in.pool.Get(bk)
			if nc == nil {
				break
			}
			if c := in.byConn(nc); c != nil {
				ids = append(ids, fmt.Sprint(c.id))
			} else {
				ids = append(ids, "?")
			}
			if len(ids) > 20 {
				break
			}
		}
		sort.Strings(ids) // which of several idle connections comes first is not specified
		b.WriteString(strings.Join(ids, ",") + ";")
	}
	in.pool.Shutdown()
	for _, c := range in.conns {
		fmt.Fprintf(&b, "#%d=%d ", c.id, c.closed)
	}
	return b.String()
}

func c20lSetup(s *vrt.Sched, p c20lParams) (*c20Inst, []*tconn) {
	in := c20Spec(c20Params{p.Backends, p.MaxIdle}, 0).New(s).(*c20Inst)
	for _, e := range p.Prefix {
		in.Step(e)
	}
	news := make([]*tconn, len(p.Ops))
	for i, op := range p.Ops {
		if op[0] == 'P' {
			c := &tconn{id: 100 + i, bk: "b" + op[1:]}
			in.conns = append(in.conns, c)
			news[i] = c
		}
	}
	return in, news
}

func c20lScenario(r *vres.Report, p c20lParams, bound int) vh.SScenario {
	ref := map[string]bool{}
	for _, perm := range permutations(len(p.Ops)) {
		res := make([]string, len(p.Ops))
		after := ""
		vh.RunSeq(r, "C20/pool/lin/reference", func(s *vrt.Sched) {
			in, news := c20lSetup(s, p)
			for _, i := range perm {
				res[i] = c20lApply(in, p.Ops[i], news[i])
			}
			after = c20lAfter(in)
		})
		ref[strings.Join(res, ",")+"|"+after] = true
	}
	ev := c20Events(c20Params{p.Backends, p.MaxIdle})
	names := make([]string, len(p.Prefix))
	for i, e := range p.Prefix {
		names[i] = ev[e]
	}
	return vh.SScenario{Name: fmt.Sprintf("wspool-lin-b%d-maxidle%d-from%v-%v", p.Backends, p.MaxIdle, names, p.Ops), KeyPrefix: "C20/pool/lin", Bound: bound, Params: p,
		Body: func(x *vh.Exec) {
			s := x.S
			in, news := c20lSetup(s, p)
			res := make([]string, len(p.Ops))
			key, what, out := "", "", ""
			x.Check = func(v vrt.Verdict) (string, string, string, bool) {
				if v.Kind != vrt.OK {
					return out, "", "", false
				}
				return out, key, what, true
			}
			s.Branch(true)
			var ths []*vrt.Thread
			for i := range p.Ops {
				i := i
				ths = append(ths, s.Spawn(fmt.Sprintf("op%d(%s)", i, p.Ops[i]), func() { res[i] = c20lApply(in, p.Ops[i], news[i]) }))
			}
			s.Join(ths...)
			s.Branch(false)
			out = strings.Join(res, ",") + "|" + c20lAfter(in)
			if !ref[out] {
				var want []string
				for k := range ref {
					want = append(want, k)
				}
				sort.Strings(want)
				key = "C20/pool/lin/not-explained-by-any-sequential-order"
				what = fmt.Sprintf("backends=%d max_idle=%d, pool state after %v, overlapping operations %v: results|drain|closed = %s; sequential orders give %v", p.Backends, p.MaxIdle, names, p.Ops, out, want)
			}
		}}
}

func permutations(n int) [][]int {
	var out [][]int
	var rec func(cur []int, used int)
	rec = func(cur []int, used int) {
		if len(cur) == n {
			out = append(out, append([]int(nil), cur...))
			return
		}
		for i := 0; i < n; i++ {
			if used&(1<<i) == 0 {
				rec(append(cur, i), used|1<<i)
			}
		}
	}
	rec(nil, 0)
	return out
}

func TestVerifC20PoolLin(t *testing.T) {
	r := vres.Open("C20", racePart("PoolLin"))
	defer func() {
		if err := r.Close(); err != nil {
			t.Fatal(err)
		}
	}()
	if vres.ReplayPath() != "" {
		var rp vh.SReplay
		var p c20lParams
		rp.Params = &p
		if err := vres.LoadReplay(&rp); err != nil {
			t.Fatal(err)
		}
		vh.ReplayS(c20lScenario(r, p, 0), rp.Choices)
		return
	}
	depth, bound := 3, 2
	cfgs := [][2]int{{1, 1}, {1, 2}, {2, 1}}
	ops := [][]string{{"G0", "G0"}, {"G0", "P0"}, {"P0", "P0"}, {"G0", "C"}, {"P0", "C"}, {"P0", "S"}, {"G0", "S"}, {"S", "S"}, {"C", "S"}}
	if vrt.RaceBuild {
		depth = 2
	}
	if vres.Thorough() {
		depth, bound = 4, 3
		cfgs = append(cfgs, [2]int{1, 0}, [2]int{2, 2}, [2]int{1, 3})
		ops = append(ops, []string{"G0", "P0", "C"}, []string{"G0", "P0", "S"}, []string{"P0", "P0", "G0"}, []string{"G0", "G0", "P0"})
	}
	i := 0
	for _, c := range cfgs {
		all := ops
		ev := c20Events(c20Params{c[0], c[1]})
		if c[0] == 2 {
			// cleanup and Shutdown range over a Go map of per-backend pools: with two backends
			// their lock order is not reproducible, so replays would not be either. Two-backend
			// scenarios are restricted to keyed operations (the sweeps over two backends are
			// covered sequentially by the history part).
			all = [][]string{{"G0", "P1"}, {"P0", "P1"}, {"G0", "G1"}, {"G0", "P0"}, {"P0", "P0"}}
		}
		for _, pre := range vh.ReachableH(c20Spec(c20Params{c[0], c[1]}, depth)) {
			sweeps := false
			for _, e := range pre {
				if ev[e] == "cleanup" || ev[e] == "shutdown" {
					sweeps = true
				}
			}
			if c[0] == 2 && sweeps {
				continue
			}
			for _, o := range all {
				if vh.MyShard(i) {
					b := bound
					if len(o) > 2 {
						b = 2
					}
					vh.RunS(r, "TestVerifC20PoolLin", c20lScenario(r, c20lParams{Backends: c[0], MaxIdle: c[1], Prefix: pre, Ops: o}, b))
				}
				i++
			}
		}
	}
}
