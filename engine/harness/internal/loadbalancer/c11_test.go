package loadbalancer_test

import (
	"encoding/json"
	"fmt"
	"net/http"
	"net/http/httptest"
	"net/url"
	"sort"
	"strings"
	"testing"
	"time"

	"github.com/0xReLogic/Helios/internal/adminapi"
	lbp "github.com/0xReLogic/Helios/internal/loadbalancer"
	"github.com/0xReLogic/Helios/internal/zzverif/vh"
	"github.com/0xReLogic/Helios/internal/zzverif/vres"
	"github.com/0xReLogic/Helios/internal/zzverif/vrt"
)

// C11 runtime reconfiguration through the real admin handlers against a reference model
// (multiset of (name, host, weight>=1, healthy) + strategy name).

type c11Entry struct {
	Name    string
	Host    string
	Weight  int
	Healthy bool
}

type c11Model struct {
	Entries  []c11Entry
	Strategy string
	// Lapsed[host]: the backend was ejected and its window has run out since; nothing has looked
	// at it yet (the expiry is noticed lazily)
	Lapsed map[string]bool
}

func (m *c11Model) clone() c11Model {
	c := c11Model{Entries: append([]c11Entry(nil), m.Entries...), Strategy: m.Strategy}
	for h, v := range m.Lapsed {
		if c.Lapsed == nil {
			c.Lapsed = map[string]bool{}
		}
		c.Lapsed[h] = v
	}
	return c
}

func (m *c11Model) entriesCanon() string {
	c := m.canon()
	return c[strings.Index(c, "|")+1:]
}

func (m *c11Model) canon() string {
	var l []string
	for _, e := range m.Entries {
		h := fmt.Sprint(e.Healthy)
		if !e.Healthy && m.Lapsed[e.Host] {
			h = "window-over" // the listing may still show the flag of the ejection, or not any more
		}
		l = append(l, fmt.Sprintf("%s@%s/w%d/%s", e.Name, e.Host, e.Weight, h))
	}
	sort.Strings(l)
	return m.Strategy + "|" + strings.Join(l, ",")
}

type c11Op struct {
	Kind     string // add, remove, set, list, request, eject
	Name     string
	Addr     string
	Weight   int
	Strategy string
	// Body, if set, is the JSON body as it is sent (the other fields say what it means): bodies
	// that leave keys out rather than sending them empty
	Body string
}

func (o c11Op) String() string {
	if o.Body != "" {
		return o.Kind + " " + o.Body
	}
	switch o.Kind {
	case "add":
		return fmt.Sprintf("add(%s,%s,%d)", o.Name, o.Addr, o.Weight)
	case "remove":
		return "remove(" + o.Name + ")"
	case "set":
		return "set(" + o.Strategy + ")"
	case "eject":
		return "eject(" + o.Name + ")"
	}
	return o.Kind
}

var c11Strategies = map[string]bool{"round_robin": true, "least_connections": true, "weighted_round_robin": true, "ip_hash": true, "ip_hash_consistent": true}

func hostOf(addr string) string {
	return strings.TrimPrefix(addr, "http://")
}

// apply runs the op on the model and returns the expected observation.
func (m *c11Model) apply(o c11Op) string {
	switch o.Kind {
	case "add":
		if strings.Contains(o.Addr, "%zz") || strings.Contains(o.Addr, "[::1") || o.Name == "" || o.Addr == "" {
			return "400"
		}
		if u, err := url.Parse(o.Addr); err != nil || (u.Scheme != "http" && u.Scheme != "https") || u.Hostname() == "" {
			return "400"
		}
		w := o.Weight
		if w < 1 {
			w = 1
		}
		m.Entries = append(m.Entries, c11Entry{o.Name, hostOf(o.Addr), w, true})
		return "201"
	case "remove":
		if o.Name == "" {
			return "400"
		}
		var keep []c11Entry
		for _, e := range m.Entries {
			if e.Name != o.Name {
				keep = append(keep, e)
			} else {
				delete(m.Lapsed, e.Host)
			}
		}
		m.Entries = keep
		return "200"
	case "set":
		if !c11Strategies[o.Strategy] {
			return "400"
		}
		m.Strategy = o.Strategy
		return "200"
	case "eject":
		for i := range m.Entries {
			if m.Entries[i].Name == o.Name {
				m.Entries[i].Healthy = false
				delete(m.Lapsed, m.Entries[i].Host)
			}
		}
		return "ok"
	case "list":
		return "200 " + m.entriesCanon()
	case "clock":
		// every window runs out
		for _, e := range m.Entries {
			if !e.Healthy {
				if m.Lapsed == nil {
					m.Lapsed = map[string]bool{}
				}
				m.Lapsed[e.Host] = true
			}
		}
		return "ok"
	case "request":
		// a request lets the windows that have run out lapse
		for i := range m.Entries {
			if m.Lapsed[m.Entries[i].Host] {
				m.Entries[i].Healthy = true
			}
		}
		m.Lapsed = nil
		for _, e := range m.Entries {
			if e.Healthy {
				return "served"
			}
		}
		return "503"
	}
	return "?"
}

type c11Sys struct {
	k   *lbp.VKit
	mux http.Handler
	// lapsed: the model's set of backends whose window has run out unnoticed (see c11Model)
	lapsed map[string]bool
}

func newC11Sys(s *vrt.Sched, strategy string) *c11Sys {
	k := lbp.VNewKit(s, lbp.VKitOpts{Strategy: strategy, N: 1, Weights: []int{2}, PassiveThr: 1, Window: 100000})
	k.AutoAdopt()
	return &c11Sys{k: k, mux: adminapi.NewMux(k.LB(), k.Config(), k.LB().GetMetricsCollector())}
}

func (y *c11Sys) admin(method, path, body string) (int, string) {
	req := httptest.NewRequest(method, "http://admin.test"+path, strings.NewReader(body))
	req.RemoteAddr = "127.0.0.1:5000"
	rec := httptest.NewRecorder()
	y.mux.ServeHTTP(rec, req)
	return rec.Code, rec.Body.String()
}

// observe the real list through the admin API in the model's canonical form
func (y *c11Sys) list() (int, string) {
	code, body := y.admin("GET", "/v1/backends", "")
	var infos []lbp.BackendInfo
	if err := json.Unmarshal([]byte(body), &infos); err != nil {
		return code, "unparsable: " + body
	}
	m := c11Model{Strategy: y.k.StrategyName(), Lapsed: y.lapsed}
	for _, bi := range infos {
		m.Entries = append(m.Entries, c11Entry{bi.Name, hostOf(bi.Address), bi.Weight, bi.Healthy})
	}
	return code, m.canon()
}

// do performs the op on the real system and returns the observation in the model's vocabulary.
func (y *c11Sys) do(o c11Op) string {
	switch o.Kind {
	case "add":
		b, _ := json.Marshal(map[string]interface{}{"name": o.Name, "address": o.Addr, "weight": o.Weight})
		if o.Body != "" {
			b = []byte(o.Body)
		}
		code, _ := y.admin("POST", "/v1/backends/add", string(b))
		y.k.AdoptAll()
		return fmt.Sprint(code)
	case "remove":
		b, _ := json.Marshal(map[string]string{"name": o.Name})
		if o.Body != "" {
			b = []byte(o.Body)
		}
		code, _ := y.admin("POST", "/v1/backends/remove", string(b))
		return fmt.Sprint(code)
	case "set":
		b, _ := json.Marshal(map[string]string{"strategy": o.Strategy})
		if o.Body != "" {
			b = []byte(o.Body)
		}
		code, _ := y.admin("POST", "/v1/strategy", string(b))
		return fmt.Sprint(code)
	case "eject":
		y.k.EjectByName(o.Name)
		return "ok"
	case "clock":
		y.k.Advance(100001 * time.Second)
		return "ok"
	case "list":
		// the listing endpoint does not expose the strategy: only the entries are one atomic observation
		code, c := y.list()
		return fmt.Sprintf("%d %s", code, c[strings.Index(c, "|")+1:])
	case "request":
		host, status := y.k.ServedBy("10.0.0.1")
		if host != "" && status == 200 {
			return "served:" + host
		}
		return fmt.Sprint(status)
	}
	return "?"
}

var c11Ops = []c11Op{
	{Kind: "request"},
	{Kind: "list"},
	{Kind: "add", Name: "a", Addr: "http://a1.test:80", Weight: 2},
	{Kind: "add", Name: "a", Addr: "http://a2.test:80", Weight: -2}, // below 1: counts (and is listed) as 1
	{Kind: "add", Name: "b", Addr: "http://bb.test:80", Weight: 0},
	{Kind: "add", Name: "c", Addr: "http://%zz"},
	{Kind: "remove", Name: "a"},
	{Kind: "remove", Name: "b0"},
	{Kind: "remove", Name: "absent"},
	{Kind: "set", Strategy: "least_connections"},
	{Kind: "set", Strategy: "weighted_round_robin"},
	{Kind: "set", Strategy: "ip_hash"},
	{Kind: "set", Strategy: "bogus"},
	{Kind: "eject", Name: "a"},
	// (new operations go at the end: the concurrent scenarios refer to operations by index)
	{Kind: "add", Name: "", Addr: "http://nn.test:80", Weight: 1}, // a backend needs a name and an address: refused, nothing changes
	{Kind: "add", Name: "d", Addr: ""},
	// an address without scheme, or with a scheme the proxy does not speak, names nothing a
	// request could be sent to: refused like an unparsable one, nothing changes
	{Kind: "add", Name: "e", Addr: "e1.test:80", Weight: 1},
	{Kind: "add", Name: "f", Addr: "ftp://f1.test:80", Weight: 1},
	// a known strategy name in another spelling (letter case, blanks): either it is an unknown
	// name (400, nothing changes) or it is that strategy - never a third thing
	{Kind: "set", Strategy: " ip_hash"},
	{Kind: "set", Strategy: "Least_Connections"},
	{Kind: "set", Strategy: "IP_HASH_CONSISTENT "},
	// time passes: the windows of ejected backends run out while nothing looks at them (the next
	// request or listing is the first to notice)
	{Kind: "clock"},
	// bodies that leave a key out instead of sending it empty: a missing address or name is a
	// missing one (refused, nothing changes), a missing weight is the default, a missing
	// strategy names none - whatever an earlier call said
	{Kind: "add", Name: "g", Body: `{"name":"g"}`},
	{Kind: "add", Name: "h", Addr: "http://h1.test:80", Body: `{"name":"h","address":"http://h1.test:80"}`},
	{Kind: "remove", Body: `{}`},
	{Kind: "set", Body: `{}`},
}

type c11Inst struct {
	s   *vrt.Sched
	y   *c11Sys
	m   c11Model
	out string
}

func (in *c11Inst) LastOutcome() string { return in.out }

func (in *c11Inst) Step(ev int) *vh.HViol {
	o := c11Ops[ev]
	before := in.m.clone()
	want := in.m.apply(o)
	in.y.lapsed = in.m.Lapsed
	if o.Kind == "list" {
		in.y.lapsed = before.Lapsed
	}
	got := in.y.do(o)
	in.y.lapsed = in.m.Lapsed
	in.out = got
	if i := strings.Index(in.out, " "); i > 0 {
		in.out = in.out[:i]
	}
	if strings.HasPrefix(in.out, "served") {
		in.out = "served"
	}
	hist := fmt.Sprintf("op %s on model %s", o, before.canon())
	switch o.Kind {
	case "request":
		if want == "served" {
			if !strings.HasPrefix(got, "served:") {
				return &vh.HViol{Key: "C11/request-not-served", What: fmt.Sprintf("%s: the model has an eligible backend but the request got %s", hist, got)}
			}
			host := strings.TrimPrefix(got, "served:")
			ok := false
			for _, e := range in.m.Entries {
				if e.Host == host && e.Healthy {
					ok = true
				}
			}
			if !ok {
				return &vh.HViol{Key: "C11/request-served-by-removed-or-ejected-backend", What: fmt.Sprintf("%s: served by %s which the model does not list as eligible", hist, host)}
			}
		} else if got != "503" {
			return &vh.HViol{Key: "C11/request-served-without-eligible-backend", What: fmt.Sprintf("%s: got %s", hist, got)}
		}
		return nil
	default:
		if canon := strings.ToLower(strings.TrimSpace(o.Strategy)); o.Kind == "set" && !c11Strategies[o.Strategy] && c11Strategies[canon] && got == "200" {
			// accepted as a spelling of a known name: then that strategy is what runs now
			in.m.Strategy, want = canon, "200"
		}
		if want != got {
			kind := o.Kind
			if o.Kind == "list" {
				kind = "list-differs-from-model"
			}
			return &vh.HViol{Key: "C11/seq/" + kind + "/result-differs", What: fmt.Sprintf("%s: expected %s, got %s", hist, want, got)}
		}
	}
	// every operation: the listing equals the model afterwards (failed operations change nothing,
	// a strategy switch keeps names, weights and health, remove leaves no backend of that name)
	if _, c := in.y.list(); c != in.m.canon() {
		key := "C11/seq/state-differs-after-" + o.Kind
		if want == "400" {
			key = "C11/seq/failed-operation-changed-state"
		}
		return &vh.HViol{Key: key, What: fmt.Sprintf("%s: afterwards the admin listing is %s but the model is %s", hist, c, in.m.canon())}
	}
	return nil
}

func (in *c11Inst) Fingerprint() string {
	return in.m.canon() + "|" + lbp.VStrategyState(in.y.k.LB()) + in.y.k.VNovel()
}

func c11Spec(strategy string, depth int) vh.HSpec {
	ev := make([]string, len(c11Ops))
	for i, o := range c11Ops {
		ev[i] = o.String()
	}
	return vh.HSpec{Name: "reconfig-seq-" + strategy, KeyPrefix: "C11/seq", Events: ev, Depth: depth, Params: map[string]string{"Strategy": strategy},
		New: func(s *vrt.Sched) vh.HInstance {
			return &c11Inst{s: s, y: newC11Sys(s, strategy), m: c11Model{Strategy: strategy, Entries: []c11Entry{{"b0", "b0.test:80", 2, true}}}}
		}}
}

func TestVerifC11H(t *testing.T) {
	r := vres.Open("C11", "H")
	defer func() {
		if err := r.Close(); err != nil {
			t.Fatal(err)
		}
	}()
	depth := 4
	if vres.Thorough() {
		depth = 5
	}
	if vres.ReplayPath() != "" {
		var rp vh.HReplay
		p := map[string]string{}
		rp.Params = &p
		if err := vres.LoadReplay(&rp); err != nil {
			t.Fatal(err)
		}
		vh.ReplayH(c11Spec(p["Strategy"], depth), rp.Events, rp.Probe)
		return
	}
	for i, st := range []string{"round_robin", "weighted_round_robin", "ip_hash_consistent", "least_connections", "ip_hash"} {
		if vh.MyShard(i) {
			vh.RunH(r, "TestVerifC11H", c11Spec(st, depth))
		}
	}
}

// ---------------------------------------------------------------- concurrent part

type c11sParams struct {
	Actors [][]int // per actor: indices into c11Ops
}

type c11Call struct {
	op       c11Op
	inv, ret int
	got      string
}

// linearizable searches for a total order of the calls that respects real-time order
// (ret < inv) and makes the model produce every observed result.
func c11Linearizable(init c11Model, calls []c11Call, finalStrategy string) bool {
	n := len(calls)
	used := make([]bool, n)
	var rec func(m c11Model, done int) bool
	rec = func(m c11Model, done int) bool {
		if done == n {
			return finalStrategy == "" || m.Strategy == finalStrategy
		}
		for i := 0; i < n; i++ {
			if used[i] {
				continue
			}
			// i can be next only if no unused call returned before i was invoked
			ok := true
			for j := 0; j < n; j++ {
				if !used[j] && j != i && calls[j].ret < calls[i].inv {
					ok = false
				}
			}
			if !ok {
				continue
			}
			m2 := m.clone()
			want := m2.apply(calls[i].op)
			match := want == calls[i].got
			if calls[i].op.Kind == "request" {
				match = false
				if strings.HasPrefix(calls[i].got, "served:") {
					host := strings.TrimPrefix(calls[i].got, "served:")
					for _, e := range m.Entries {
						if e.Host == host && e.Healthy {
							match = true
						}
					}
				} else {
					match = want == calls[i].got
				}
			}
			if !match {
				continue
			}
			used[i] = true
			if rec(m2, done+1) {
				return true
			}
			used[i] = false
		}
		return false
	}
	return rec(init, 0)
}

func c11sScenario(p c11sParams, bound int) vh.SScenario {
	name := "reconfig-conc"
	for _, a := range p.Actors {
		name += "-"
		for _, i := range a {
			name += fmt.Sprintf("%d.", i)
		}
	}
	return vh.SScenario{Name: name, KeyPrefix: "C11/conc", Bound: bound, Params: p, Body: func(x *vh.Exec) {
		s := x.S
		y := newC11Sys(s, "round_robin")
		init := c11Model{Strategy: "round_robin", Entries: []c11Entry{{"b0", "b0.test:80", 2, true}}}
		// one pre-existing backend "a" so that removes and ejects have something to act on
		y.do(c11Ops[2])
		init.apply(c11Ops[2])
		var calls []c11Call
		clock := 0
		finalStrategy := ""
		x.Check = func(v vrt.Verdict) (string, string, string, bool) {
			out := ""
			for _, c := range calls {
				g := c.got
				if i := strings.Index(g, " "); i > 0 {
					g = g[:i]
				}
				out += c.op.String() + "=" + g + ";"
			}
			if v.Kind != vrt.OK {
				return out, "", "", false
			}
			for _, c := range calls {
				if c.op.Kind == "request" && !strings.HasPrefix(c.got, "served:") {
					return out, "C11/conc/request-failed-during-reconfiguration", fmt.Sprintf("a client request got %s while admin operations were in progress (b0 is listed and healthy throughout)", c.got), true
				}
			}
			if !c11Linearizable(init, calls, finalStrategy) {
				var hs []string
				for _, c := range calls {
					hs = append(hs, fmt.Sprintf("[%d,%d] %s -> %s", c.inv, c.ret, c.op, c.got))
				}
				return out, "C11/conc/not-linearizable", "no sequential order of the admin operations explains the observed results: " + strings.Join(hs, " | "), true
			}
			// final state equals the model state of some linearization: checked through a final list call
			return out, "", "", true
		}
		s.Branch(true)
		var ths []*vrt.Thread
		for ai, a := range p.Actors {
			a := a
			ths = append(ths, s.Spawn(fmt.Sprintf("actor%d", ai), func() {
				for _, oi := range a {
					clock++
					c := c11Call{op: c11Ops[oi], inv: clock}
					c.got = y.do(c11Ops[oi])
					clock++
					c.ret = clock
					calls = append(calls, c)
				}
			}))
		}
		s.Join(ths...)
		s.Branch(false)
		clock++
		c := c11Call{op: c11Ops[1], inv: clock}
		c.got = y.do(c11Ops[1])
		clock++
		c.ret = clock
		calls = append(calls, c)
		finalStrategy = y.k.StrategyName()
	}}
}

func c11sScenarios() []vh.SScenario {
	bound := 2
	if vres.Thorough() {
		bound = 3
	}
	// indices into c11Ops: 0 request, 1 list, 2 add a1, 3 add a2, 4 add b, 6 remove a, 7 remove b0?, 9 set lc, 10 set wrr, 13 eject a
	sets := [][][]int{
		{{3}, {6}, {0}},
		{{4}, {9}, {0}},
		{{6}, {10}, {1}},
		{{3, 6}, {1}},
		{{9}, {10}, {0}},
		{{4}, {6}, {1}},
	}
	if vres.Thorough() {
		sets = append(sets, [][]int{{3}, {6}, {9}, {0}}, [][]int{{4, 6}, {10, 1}, {0}}, [][]int{{3, 4}, {6, 1}})
	}
	var out []vh.SScenario
	for _, a := range sets {
		out = append(out, c11sScenario(c11sParams{a}, bound))
	}
	return out
}

func TestVerifC11S(t *testing.T) {
	r := vres.Open("C11", racePart("S"))
	defer func() {
		if err := r.Close(); err != nil {
			t.Fatal(err)
		}
	}()
	if vres.ReplayPath() != "" {
		var rp vh.SReplay
		var p c11sParams
		rp.Params = &p
		if err := vres.LoadReplay(&rp); err != nil {
			t.Fatal(err)
		}
		vh.ReplayS(c11sScenario(p, 0), rp.Choices)
		return
	}
	for i, sc := range c11sScenarios() {
		if vh.MyShard(i) {
			vh.RunS(r, "TestVerifC11S", sc)
		}
	}
}
