package loadbalancer

import (
	"fmt"
	"testing"
	"time"

	"github.com/0xReLogic/Helios/internal/zzverif/vh"
	"github.com/0xReLogic/Helios/internal/zzverif/vres"
	"github.com/0xReLogic/Helios/internal/zzverif/vrt"
)

// C02 (schedules): the statement speaks about every request, also about one that is being
// dispatched while others are. The strategies keep a cursor that concurrent requests share, so
// the picks one request makes while it looks for a backend outside every unhealthy window
// interleave with the picks of the others. Pool of 2 or 3 backends, all but one ejected, 2-3
// requests at once, every interleaving up to the preemption bound: nobody is answered 503 (a
// backend outside every window exists throughout) and nobody is sent to an ejected backend.
type c02cParams struct {
	Strategy string
	N        int
	Healthy  int // index of the one backend that is not ejected
	Requests int
}

func c02cScenario(p c02cParams, bound int) vh.SScenario {
	return vh.SScenario{Name: fmt.Sprintf("failover-conc-%s-n%d-healthy%d-requests%d", p.Strategy, p.N, p.Healthy, p.Requests), KeyPrefix: "C02/conc", Bound: bound, Params: p, Horizon: 4000, Body: func(x *vh.Exec) {
		s := x.S
		k := newKit(s, kitOpts{Strategy: p.Strategy, N: p.N, PassiveThr: 1, Window: 1000})
		for i := 0; i < p.N; i++ {
			if i != p.Healthy {
				k.lb.MarkBackendUnhealthy(k.backendByName(fmt.Sprintf("b%d", i)), 1000*time.Second)
			}
		}
		res := make([]reqResult, p.Requests)
		x.Check = func(v vrt.Verdict) (string, string, string, bool) {
			out := ""
			for _, r := range res {
				out += fmt.Sprintf("%d@%s ", r.Status, r.ServedBy)
			}
			if v.Kind != vrt.OK {
				return out, "", "", false
			}
			want := fmt.Sprintf("b%d.test:80", p.Healthy)
			for i, r := range res {
				if r.Status == 503 {
					return out, "C02/conc/no-healthy-backend-503-while-a-backend-is-outside-every-window/" + p.Strategy, fmt.Sprintf("%s, %d backends, only b%d not ejected, %d requests at once: request %d was answered 503 although b%d is outside every unhealthy window (%s)", p.Strategy, p.N, p.Healthy, p.Requests, i, p.Healthy, out), true
				}
				if r.ServedBy != want {
					return out, "C02/conc/dispatched-to-ejected-backend/" + p.Strategy, fmt.Sprintf("%s, %d backends, only b%d not ejected: request %d was served by %q (%s)", p.Strategy, p.N, p.Healthy, i, r.ServedBy, out), true
				}
			}
			return out, "", "", true
		}
		s.Branch(true)
		var ths []*vrt.Thread
		for i := 0; i < p.Requests; i++ {
			i := i
			ths = append(ths, s.Spawn(fmt.Sprintf("req%d", i), func() { res[i] = k.requestMode(fmt.Sprintf("10.0.0.%d", i+1), "ok") }))
		}
		s.Join(ths...)
		s.Branch(false)
	}}
}

func c02cScenarios() []vh.SScenario {
	var out []vh.SScenario
	for _, st := range allStrategies {
		for _, n := range []int{2, 3} {
			for h := 0; h < n; h++ {
				for _, reqs := range []int{2, 3} {
					if !vres.Thorough() && n == 3 && reqs == 3 && h != n-1 {
						continue
					}
					out = append(out, c02cScenario(c02cParams{st, n, h, reqs}, 2))
				}
			}
		}
	}
	return out
}

func TestVerifC02Conc(t *testing.T) {
	r := vres.Open("C02", racePart("Conc"))
	defer func() {
		if err := r.Close(); err != nil {
			t.Fatal(err)
		}
	}()
	if vres.ReplayPath() != "" {
		var rp vh.SReplay
		var p c02cParams
		rp.Params = &p
		if err := vres.LoadReplay(&rp); err != nil {
			t.Fatal(err)
		}
		vh.ReplayS(c02cScenario(p, 0), rp.Choices)
		return
	}
	for i, sc := range c02cScenarios() {
		if vh.MyShard(i) {
			vh.RunS(r, "TestVerifC02Conc", sc)
		}
	}
}
