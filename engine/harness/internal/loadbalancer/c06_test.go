package loadbalancer

import (
	"fmt"
	"net/http"
	"os"
	"strconv"
	"strings"
	"testing"
	"time"

	"github.com/0xReLogic/Helios/internal/config"
	"github.com/0xReLogic/Helios/internal/zzverif/vh"
	"github.com/0xReLogic/Helios/internal/zzverif/vres"
	"github.com/0xReLogic/Helios/internal/zzverif/vrt"
)

// C06 part 1: the integer jump hash, exhaustively. For every key of the enumerated space
// and every pool size n: 0 <= h(k,n) < n and h(k,n+1) is h(k,n) or n (minimal remapping).
// The strategy feeds it 32-bit FNV values, so the full key space is 2^32.
func TestVerifC06Jump(t *testing.T) {
	r := vres.Open("C06", "Jump")
	defer func() {
		if err := r.Close(); err != nil {
			t.Fatal(err)
		}
	}()
	start := time.Now()
	shard, shards := 0, 1
	if p := strings.Split(os.Getenv("VERIF_SHARD"), "/"); len(p) == 2 {
		shard, _ = strconv.Atoi(p[0])
		shards, _ = strconv.Atoi(p[1])
	}
	maxN := int32(8)
	space := ""
	// the key space is dealt in 64 blocks of 2^26 keys; thorough takes all of them, quick takes
	// 16 (a quarter of all keys), which ones is selected by the seed — the seed selects a fully
	// enumerated sub-space, never a sample within it
	var blocks []uint64
	if vres.Thorough() {
		for b := uint64(0); b < 64; b++ {
			blocks = append(blocks, b)
		}
		maxN = 16
		space = "all 2^32 keys x n=1..16"
	} else {
		first := uint64(vres.Seed()) % 4
		for b := first; b < 64; b += 4 {
			blocks = append(blocks, b)
		}
		space = fmt.Sprintf("all keys of 16 of the 64 blocks of 2^26 keys (blocks %d, %d, ... step 4: 2^30 keys) x n=1..8", first, first+4)
	}
	type rng struct{ a, b uint64 }
	var mine []rng
	for i, blk := range blocks {
		if i%shards == shard {
			mine = append(mine, rng{blk << 26, (blk + 1) << 26})
		}
	}
	if len(mine) == 0 {
		return
	}
	a := mine[0].a
	var evals int64
	moved := make([]int64, maxN+2)
	var keys uint64
	// (the sweep calls the function outside any scheduler execution: it reports its own progress
	// to the watchdog, so that a hash that never returns for some key is a verdict, not a hang)
	vrt.WatchBegin("jump-hash sweep")
	defer vrt.WatchEnd()
	for _, rg := range mine {
		for k := rg.a; k < rg.b; k++ {
			keys++
			if keys&0xffff == 0 {
				vrt.Beat()
			}
			prev := jumpHash(k, 1)
			if prev != 0 {
				r.Violate("C06/jump/out-of-range", fmt.Sprintf("jumpHash(%d,1) = %d", k, prev), 1, map[string]interface{}{"key": k, "n": 1})
			}
			for n := int32(2); n <= maxN+1; n++ {
				h := jumpHash(k, n)
				evals++
				if h < 0 || h >= n {
					r.Violate("C06/jump/out-of-range", fmt.Sprintf("jumpHash(%d,%d) = %d is not a bucket", k, n, h), int(n), map[string]interface{}{"key": k, "n": n})
				} else if h != prev && h != n-1 {
					r.Violate("C06/jump/moved-to-an-old-bucket", fmt.Sprintf("jumpHash(%d,%d) = %d but jumpHash(%d,%d) = %d: growing the pool moved the key to a bucket that is not the new one", k, n-1, prev, k, n, h), int(n), map[string]interface{}{"key": k, "n": n})
				}
				if h != prev {
					moved[n]++
				}
				prev = h
			}
		}
	}
	distinct := int64(0)
	for _, m := range moved {
		if m > 0 {
			distinct++
		}
	}
	r.AddScenario(vres.Scenario{Name: "jump-hash-exhaustive", Engine: "H", Executions: evals, States: int64(keys), Transitions: evals, Outcomes: int(distinct),
		Bound: space, Exhaustive: true, Sample: map[string]interface{}{"key": a, "buckets_n1..": func() []int32 {
			var o []int32
			for n := int32(1); n <= maxN; n++ {
				o = append(o, jumpHash(a, n))
			}
			return o
		}()}, Extra: map[string]interface{}{"wall_s": time.Since(start).Seconds(), "keys_moved_when_growing_to_n": moved}})
}

// ---- part 2: strategy level through ServeHTTP

type c06Spelling struct {
	name string
	edit func(r *http.Request, addr string)
}

// identity-preserving ways of presenting client address A
var c06Spellings = []c06Spelling{
	{"remote", func(r *http.Request, a string) { r.RemoteAddr = hostPort(a, "1111") }},
	{"remote-other-port", func(r *http.Request, a string) { r.RemoteAddr = hostPort(a, "60999") }},
	{"xff", func(r *http.Request, a string) { r.RemoteAddr = "172.16.0.9:1"; r.Header.Set("X-Forwarded-For", a) }},
	{"xff-list", func(r *http.Request, a string) {
		r.RemoteAddr = "172.16.0.8:1"
		r.Header.Set("X-Forwarded-For", a+", 172.16.0.1")
	}},
	{"xff-list-nospace", func(r *http.Request, a string) {
		r.RemoteAddr = "172.16.0.7:1"
		r.Header.Set("X-Forwarded-For", a+",172.16.0.1,172.16.0.2")
	}},
	{"xff-list-ows", func(r *http.Request, a string) {
		r.RemoteAddr = "172.16.0.3:1"
		r.Header.Set("X-Forwarded-For", a+" , 172.16.0.1")
	}},
	{"real-ip", func(r *http.Request, a string) { r.RemoteAddr = "172.16.0.6:1"; r.Header.Set("X-Real-IP", a) }},
	// front proxies that write the client's address together with its source port (host:port,
	// [v6]:port): the port differs from connection to connection, the client is the same
	{"xff-with-port", func(r *http.Request, a string) {
		r.RemoteAddr = "172.16.0.5:1"
		r.Header.Set("X-Forwarded-For", hostPort(a, "50000"))
	}},
	{"real-ip-with-port", func(r *http.Request, a string) {
		r.RemoteAddr = "172.16.0.5:1"
		r.Header.Set("X-Real-IP", hostPort(a, "40000"))
	}},
	{"xff-bracketed", func(r *http.Request, a string) {
		r.RemoteAddr = "172.16.0.5:1"
		if strings.Contains(a, ":") {
			a = "[" + a + "]" // an IPv6 address in brackets, without a port
		}
		r.Header.Set("X-Forwarded-For", a)
	}},
	{"xff-list-with-other-port", func(r *http.Request, a string) {
		r.RemoteAddr = "172.16.0.5:1"
		r.Header.Set("X-Forwarded-For", hostPort(a, "50009")+", 172.16.0.1")
	}},
}

func hostPort(a, port string) string {
	if strings.Contains(a, ":") {
		return "[" + a + "]:" + port
	}
	return a + ":" + port
}

var c06Perturb = []func(r *http.Request){
	func(r *http.Request) {},
	func(r *http.Request) { r.URL.Path = "/other/path"; r.URL.RawQuery = "q=1" },
	func(r *http.Request) { r.Header.Set("User-Agent", "x"); r.Header.Set("Cookie", "s=1") },
	func(r *http.Request) { r.Method = "POST" },
}

var c06Clients = []string{"10.0.0.1", "10.0.0.2", "10.0.0.3", "10.1.2.3", "192.168.1.77", "203.0.113.9", "8.8.8.8", "2001:db8::1", "2001:db8::2", "::1", "fe80::1", "fe80::1%eth0", "fe80::2%eth0", "::ffff:10.0.0.1"}

// strings that are not addresses at all: only validity is required
var c06Junk = []string{"", "junk", "not an ip", ",10.0.0.1", "  ", strings.Repeat("9", 300), "10.0.0.1.5", "[::1", "a,b,c"}

func c06Affinity(r *vres.Report, strat string, maxN int) {
	start := time.Now()
	var evals, cases int64
	var outs vres.Outcomes
	var sample interface{}
	for n := 1; n <= maxN; n++ {
		masks := []int{0}
		if n <= 5 {
			masks = nil
			for m := 0; m < 1<<n-1; m++ {
				masks = append(masks, m)
			}
		}
		for _, mask := range masks {
			cases++
			vh.RunSeq(r, "C06/sequential", func(s *vrt.Sched) {
				k := newKit(s, kitOpts{Strategy: strat, N: n, PassiveThr: 1, Window: 1000})
				for i := 0; i < n; i++ {
					if mask&(1<<i) != 0 {
						k.lb.MarkBackendUnhealthy(k.backendByName(fmt.Sprintf("b%d", i)), 1000*time.Second)
					}
				}
				ask := func(edit func(r *http.Request)) (int, int) {
					before := k.hitsVector()
					res := k.requestWith("172.16.0.5", nil, edit)
					evals++
					for i, h := range k.hitsVector() {
						if h > before[i] {
							return i, res.Status
						}
					}
					return -1, res.Status
				}
				for ci, c := range c06Clients {
					first, firstHow := -2, ""
					for si, sp := range c06Spellings {
						for pi, pt := range c06Perturb {
							if si > 1 && pi > 1 {
								continue
							}
							sp, pt, c := sp, pt, c
							got, status := ask(func(r *http.Request) { sp.edit(r, c); pt(r) })

							how := fmt.Sprintf("%s/perturbation%d", sp.name, pi)
							if got < 0 || mask&(1<<got) != 0 {
								r.Violate("C06/"+strat+"/choice-not-eligible", fmt.Sprintf("%s n=%d ejected-mask=%b client %s via %s: served by %d (status %d)", strat, n, mask, c, how, got, status), n, nil)
								continue
							}
							if first == -2 {
								first, firstHow = got, how
							} else if got != first {
								r.Violate("C06/"+strat+"/affinity-broken/"+sp.name, fmt.Sprintf("%s n=%d ejected-mask=%b: client %s went to b%d via %s but to b%d via %s", strat, n, mask, c, first, firstHow, got, how), n,
									map[string]interface{}{"strategy": strat, "n": n, "mask": mask, "client": c, "spelling": sp.name})
							}
							// other clients' traffic in between must not matter
							other := c06Clients[(ci+1+si)%len(c06Clients)]
							ask(func(r *http.Request) { r.RemoteAddr = hostPort(other, "2222") })
							// nor must a short outage in between (every backend ejected for a second,
							// a request answered 503, everything back): the eligible set is the same
							// afterwards
							if si == 2 && pi == 0 && ci%2 == 0 {
								for i := 0; i < n; i++ {
									if mask&(1<<i) == 0 {
										k.lb.MarkBackendUnhealthy(k.backendByName(fmt.Sprintf("b%d", i)), time.Second)
									}
								}
								if got, status := ask(func(r *http.Request) { r.RemoteAddr = hostPort(other, "3333") }); got >= 0 || status != 503 {
									r.Violate("C06/"+strat+"/choice-not-eligible/during-outage", fmt.Sprintf("%s n=%d: with every backend ejected a request was served by %d (status %d)", strat, n, got, status), n, nil)
								}
								s.AdvanceQuiet(2 * time.Second)
							}
						}
					}
					// other clients' requests in flight on this client's backend (injected into the
					// gauge: 99, 100, 101 - the transport's connection cap per backend - and far more):
					// the client stays where it is
					if first >= 0 && ci%3 == 0 {
						hb := k.backendByName(fmt.Sprintf("b%d", first))
						for _, load := range []int32{99, 100, 101, 70000} {
							hb.ActiveConnections += load
							c := c
							got, status := ask(func(r *http.Request) { r.RemoteAddr = hostPort(c, "1111") })
							hb.ActiveConnections -= load
							if got != first {
								r.Violate("C06/"+strat+"/affinity-broken/under-load", fmt.Sprintf("%s n=%d ejected-mask=%b: client %s is served by b%d, but by %d (status %d) while %d requests of other clients are in flight on b%d", strat, n, mask, c, first, got, status, load, first), n,
									map[string]interface{}{"strategy": strat, "n": n, "mask": mask, "client": c, "load": load})
								break
							}
						}
					}
					outs.Add(fmt.Sprintf("n%d-b%d", n, first))
					if sample == nil && n == 3 {
						sample = map[string]interface{}{"strategy": strat, "n": n, "ejected_mask": mask, "client": c, "backend": first}
					}
				}
				for _, j := range c06Junk {
					for _, where := range []string{"X-Forwarded-For", "X-Real-IP", "RemoteAddr"} {
						j, where := j, where
						got, status := ask(func(r *http.Request) {
							if where == "RemoteAddr" {
								r.RemoteAddr = j
							} else {
								r.RemoteAddr = "172.16.0.4:9"
								r.Header.Set(where, j)
							}
						})
						if got < 0 || mask&(1<<got) != 0 {
							r.Violate("C06/"+strat+"/choice-not-eligible/junk-address", fmt.Sprintf("%s n=%d ejected-mask=%b address %q in %s: served by %d (status %d)", strat, n, mask, j, where, got, status), n, nil)
						}
					}
				}
			})
		}
	}
	r.AddScenario(vres.Scenario{Name: "affinity-" + strat, Engine: "H", Executions: cases, States: cases, Transitions: evals, Outcomes: outs.N(),
		Bound:      fmt.Sprintf("n=1..%d x every ejected subset (n<=5) x %d client addresses x %d spellings x %d perturbations, other clients interleaved and in flight on the client's backend (99 / 100 / 101 / 70000); %d junk strings in three places", maxN, len(c06Clients), len(c06Spellings), len(c06Perturb), len(c06Junk)),
		Exhaustive: true, Sample: sample, Extra: map[string]interface{}{"wall_s": time.Since(start).Seconds()}})
}

// append history 1 -> maxN under ip_hash_consistent: each client keeps its backend or moves to the appended one.
// Backend names and addresses are arbitrary labels: the history is run with names that sort in
// append order, in reverse append order and in neither (a pool kept in any order other than
// append order moves clients between old backends).
var c06NameSchemes = map[string][]string{
	"ascending":  {"b0", "b1", "b2", "b3", "b4", "b5", "b6", "b7"},
	"descending": {"n7", "n6", "n5", "n4", "n3", "n2", "n1", "n0"},
	"mixed":      {"web8", "web9", "web10", "web11", "api", "Web7", "zeta", "cache-1"},
}

func c06Append(r *vres.Report, maxN, clients int) {
	start := time.Now()
	var evals int64
	moves := make([]int, maxN+1)
	// the strategy is reached either from the configuration file or by a switch at run time
	// (admin API) from another strategy, at the start or after three backends exist
	for _, scheme := range []string{"ascending", "descending", "mixed", "ascending/switched", "mixed/switched-at-3"} {
		how := ""
		if i := strings.Index(scheme, "/"); i >= 0 {
			scheme, how = scheme[:i], scheme[i+1:]
		}
		names := c06NameSchemes[scheme]
		scheme := scheme + map[bool]string{true: " (" + how + ")", false: ""}[how != ""]
		vh.RunSeq(r, "C06/sequential", func(s *vrt.Sched) {
			first := "ip_hash_consistent"
			if how != "" {
				first = "round_robin"
			}
			cfg := kitConfig(kitOpts{Strategy: first, N: 1})
			cfg.Backends[0].Name = names[0]
			cfg.Backends[0].Address = "http://" + strings.ToLower(names[0]) + ".test:80"
			k := newKitCfg(s, cfg)
			if how == "switched" {
				if err := k.lb.SetStrategy("ip_hash_consistent"); err != nil {
					vh.ToolError("switch: %v", err)
				}
			}
			prev := make([]int, clients)
			addr := func(c int) string { return fmt.Sprintf("10.%d.%d.%d", c>>16&255, c>>8&255, c&255) }
			for n := 1; n <= maxN; n++ {
				if n > 1 {
					name := names[n-1]
					if err := k.lb.AddBackend(config.BackendConfig{Name: name, Address: "http://" + strings.ToLower(name) + ".test:80"}); err != nil {
						vh.ToolError("add: %v", err)
					}
					k.adopt(k.backendByName(name))
				}
				if how == "switched-at-3" {
					if n < 3 {
						continue
					}
					if n == 3 {
						if err := k.lb.SetStrategy("ip_hash_consistent"); err != nil {
							vh.ToolError("switch: %v", err)
						}
						for c := 0; c < clients; c++ {
							prev[c], _ = servedIndex(k, addr(c*7+1))
						}
						continue
					}
				}
				for c := 0; c < clients; c++ {
					got, _ := servedIndex(k, addr(c*7+1))
					evals++
					if got < 0 || got >= n {
						r.Violate("C06/ip_hash_consistent/append/choice-not-listed", fmt.Sprintf("names %s, pool of %d: client %s served by %d", scheme, n, addr(c*7+1), got), n, nil)
					} else if n > 1 && got != prev[c] {
						if got != n-1 {
							r.Violate("C06/ip_hash_consistent/append/moved-to-an-old-backend", fmt.Sprintf("names %s: appending backend %q (number %d) moved client %s from %q to %q", scheme, names[n-1], n-1, addr(c*7+1), names[prev[c]], names[got]), n, map[string]interface{}{"n": n, "client": addr(c*7 + 1), "names": scheme})
						}
						if scheme == "ascending" {
							moves[n]++
						}
					}
					prev[c] = got
				}
				// somebody looks at the pool (admin listing, metrics, health): observing changes
				// nothing, every client is where it was
				k.lb.ListBackends()
				k.lb.GetMetricsCollector().GetMetrics()
				k.lb.strategy.GetBackends()
				for c := 0; c < clients; c++ {
					got, _ := servedIndex(k, addr(c*7+1))
					evals++
					if got != prev[c] {
						r.Violate("C06/ip_hash_consistent/affinity-broken/after-a-listing", fmt.Sprintf("names %s, pool of %d: client %s was served by %q, and after the backends were merely listed (admin listing, metrics) by %d", scheme, n, addr(c*7+1), names[prev[c]], got), n, map[string]interface{}{"n": n, "client": addr(c*7 + 1), "names": scheme})
						break
					}
				}
			}
		})
	}
	r.AddScenario(vres.Scenario{Name: "consistent-append-history", Engine: "H", Executions: 5, States: int64(5 * maxN), Transitions: evals, Outcomes: maxN,
		Bound: fmt.Sprintf("append history 1->%d under three naming schemes (names sorting in append order, in reverse, in neither), with the strategy configured or switched to at run time, %d enumerated client addresses re-asked after every append and again after the pool was listed (admin listing, metrics)", maxN, clients), Exhaustive: true,
		Sample: map[string]interface{}{"clients_moved_at_each_append": moves}, Extra: map[string]interface{}{"wall_s": time.Since(start).Seconds()}})
}

type c06sParams struct{ Strategy string }

func c06sScenario(p c06sParams, bound int) vh.SScenario {
	return vh.SScenario{Name: "affinity-concurrent-" + p.Strategy, KeyPrefix: "C06/conc", Bound: bound, Params: p, Body: func(x *vh.Exec) {
		s := x.S
		k := newKit(s, kitOpts{Strategy: p.Strategy, N: 3})
		ref, _ := servedIndex(k, "10.0.0.1")
		var got [2]int
		x.Check = func(v vrt.Verdict) (string, string, string, bool) {
			out := fmt.Sprint(got)
			if v.Kind != vrt.OK {
				return out, "", "", false
			}
			if got[0] != ref || got[1] != ref {
				return out, "C06/conc/affinity-broken-by-concurrent-traffic/" + p.Strategy, fmt.Sprintf("client 10.0.0.1 is served by b%d sequentially but by %v while another client's request is in progress", ref, got), true
			}
			return out, "", "", true
		}
		s.Branch(true)
		a := s.Spawn("clientX", func() {
			for i := 0; i < 2; i++ {
				before := k.stubs[ref].hits
				k.request("10.0.0.1", nil)
				if k.stubs[ref].hits > before {
					got[i] = ref
				} else {
					got[i] = -1
				}
			}
		})
		b := s.Spawn("clientY", func() { k.request("10.0.0.2", nil); k.request("192.168.1.77", nil) })
		s.Join(a, b)
	}}
}

func TestVerifC06(t *testing.T) {
	r := vres.Open("C06", "H")
	defer func() {
		if err := r.Close(); err != nil {
			t.Fatal(err)
		}
	}()
	maxN, clients := 6, 1024
	if vres.Thorough() {
		maxN, clients = 8, 4096
	}
	if vh.MyShard(0) {
		c06Affinity(r, "ip_hash", maxN)
	}
	if vh.MyShard(1) {
		c06Affinity(r, "ip_hash_consistent", maxN)
	}
	if vh.MyShard(2) {
		c06Append(r, 8, clients)
	}
}

// TestVerifC06S: affinity under concurrent traffic, all interleavings up to the bound; run
// once in a normal build and once in a -race build (a strategy that shares scratch state
// between concurrent picks is a data race before it is a wrong pick).
func TestVerifC06S(t *testing.T) {
	part := "S"
	if vrt.RaceBuild {
		part = "Race"
	}
	r := vres.Open("C06", part)
	defer func() {
		if err := r.Close(); err != nil {
			t.Fatal(err)
		}
	}()
	if vres.ReplayPath() != "" {
		var rp vh.SReplay
		var p c06sParams
		rp.Params = &p
		if err := vres.LoadReplay(&rp); err != nil {
			t.Fatal(err)
		}
		vh.ReplayS(c06sScenario(p, 0), rp.Choices)
		return
	}
	bound := 1
	if vres.Thorough() {
		bound = 2
	}
	for i, st := range []string{"ip_hash", "ip_hash_consistent"} {
		if vh.MyShard(i) {
			vh.RunS(r, "TestVerifC06S", c06sScenario(c06sParams{st}, bound))
		}
	}
}
