package loadbalancer

import (
	"fmt"
	"reflect"
	"strings"
	"testing"
	"time"

	"github.com/0xReLogic/Helios/internal/config"
	"github.com/0xReLogic/Helios/internal/zzverif/vh"
	"github.com/0xReLogic/Helios/internal/zzverif/vres"
	"github.com/0xReLogic/Helios/internal/zzverif/vrt"
)

// C02 failover: a monitor knows every backend's unhealthy window because the harness
// injects the ejections (through the real MarkBackendUnhealthy, which is what passive
// checks and failed probes call); each request is judged against the windows at that
// instant: served only by a backend outside its window; 503 only if all are inside.

type c02Params struct {
	Strategy string
	N        int
	// Features: the other features are switched on as well - active health checks (the loop
	// runs, its probes are answered well), circuit breaker and rate limiter with thresholds no
	// history reaches. Failover is the same statement whatever else is enabled
	Features bool `json:",omitempty"`
}

const c02Window = 10 * time.Second

var c02Clients = []string{"10.0.0.1", "10.0.0.2", "10.0.0.7", "192.168.3.44"}

type c02Backend struct {
	name   string
	listed bool
	until  time.Duration // end of the unhealthy window (virtual clock); <=0: none
	held   []*held
}

type c02Inst struct {
	s      *vrt.Sched
	k      *kit
	p      c02Params
	events []string
	mon    []*c02Backend
	added  int
	out    string
}

func c02Events(n int) []string {
	ev := []string{}
	for _, c := range c02Clients {
		ev = append(ev, "req:"+c)
	}
	for i := 0; i < n; i++ {
		ev = append(ev, fmt.Sprintf("eject:b%d", i))
	}
	ev = append(ev, "clock+4s(<window)", "clock+11s(>window)")
	if n <= 2 {
		// edges of the window: just inside it, then a step smaller than any whole second
		// (anything cached or swept "at most once per second" shows here)
		ev = append(ev, "clock+9.7s(just-inside)", "clock+0.6s")
	}
	ev = append(ev, "hold:10.0.0.1", "hold:10.0.0.2")
	for i := 0; i < n; i++ {
		ev = append(ev, fmt.Sprintf("release:b%d", i))
	}
	ev = append(ev, "add", "remove:b0")
	return ev
}

func (in *c02Inst) LastOutcome() string { return in.out }

func (in *c02Inst) monOf(name string) *c02Backend {
	for _, m := range in.mon {
		if m.name == name {
			return m
		}
	}
	return nil
}

func (in *c02Inst) eligible(now time.Duration) []string {
	var out []string
	for _, m := range in.mon {
		if m.listed && now > m.until {
			out = append(out, m.name)
		}
	}
	return out
}

// judge applies the failover oracle to one finished request.
func (in *c02Inst) judge(res reqResult, servedBy *stub, now time.Duration, elig []string) *vh.HViol {
	cfg := fmt.Sprintf("%s n=%d", in.p.Strategy, in.p.N)
	windows := ""
	for _, m := range in.mon {
		if m.listed {
			st := "eligible"
			if now <= m.until {
				st = fmt.Sprintf("ejected(until t=%v)", m.until)
			}
			windows += fmt.Sprintf(" %s:%s", m.name, st)
		}
	}
	if servedBy != nil {
		m := in.monOf(servedBy.name)
		if m == nil || !m.listed {
			return &vh.HViol{Key: "C02/served-by-removed-backend/" + in.p.Strategy, What: fmt.Sprintf("%s: request served by %s which is not listed", cfg, servedBy.name)}
		}
		if now <= m.until {
			return &vh.HViol{Key: "C02/dispatched-to-ejected-backend/" + in.p.Strategy, What: fmt.Sprintf("%s: at t=%v request dispatched to %s inside its unhealthy window;%s", cfg, now, m.name, windows)}
		}
		return nil
	}
	if res.Status == 503 {
		if len(elig) > 0 {
			return &vh.HViol{Key: "C02/503-while-a-backend-is-healthy/" + in.p.Strategy, What: fmt.Sprintf("%s: at t=%v answered 503 'no healthy backend' although %v are outside any unhealthy window;%s", cfg, now, elig, windows)}
		}
		return nil
	}
	return &vh.HViol{Key: "C02/unexpected-answer-without-backend/" + in.p.Strategy, What: fmt.Sprintf("%s: status %d without contacting a backend", cfg, res.Status)}
}

func (in *c02Inst) Step(ev int) *vh.HViol {
	e := in.events[ev]
	now := in.s.Clock()
	arg := ""
	if i := strings.Index(e, ":"); i >= 0 {
		arg = e[i+1:]
	}
	switch {
	case strings.HasPrefix(e, "req:"):
		elig := in.eligible(now)
		before := in.k.hitsVector()
		res := in.k.request(arg, nil)
		var served *stub
		for i, h := range in.k.hitsVector() {
			if i >= len(before) || h > before[i] {
				served = in.k.stubs[i]
			}
		}
		in.out = fmt.Sprintf("%d/%d-eligible", res.Status, len(elig))
		return in.judge(res, served, now, elig)
	case strings.HasPrefix(e, "hold:"):
		elig := in.eligible(now)
		h := in.k.startHeld(arg)
		if h.at != nil {
			in.monOf(h.at.name).held = append(in.monOf(h.at.name).held, h)
			in.out = "held"
			return in.judge(reqResult{Status: 0}, h.at, now, elig)
		}
		in.out = fmt.Sprintf("%d/%d-eligible", h.res.Status, len(elig))
		return in.judge(h.res, nil, now, elig)
	case strings.HasPrefix(e, "release:"):
		m := in.monOf(arg)
		if m == nil || len(m.held) == 0 {
			in.out = "noop"
			return nil
		}
		h := m.held[0]
		m.held = m.held[1:]
		in.k.release(in.k.stub(arg))
		in.out = fmt.Sprintf("released/%d", h.res.Status)
		if !h.done || h.res.Status != 200 {
			return &vh.HViol{Key: "C02/in-flight-request-lost", What: fmt.Sprintf("held request on %s finished=%v status=%d", arg, h.done, h.res.Status)}
		}
	case strings.HasPrefix(e, "eject:"):
		m := in.monOf(arg)
		b := in.k.backendByName(arg)
		if m == nil || !m.listed || b == nil {
			in.out = "noop"
			return nil
		}
		in.k.lb.MarkBackendUnhealthy(b, c02Window)
		m.until = now + c02Window
		in.out = "ejected"
	case e == "clock+4s(<window)":
		in.s.AdvanceQuiet(4 * time.Second)
	case e == "clock+9.7s(just-inside)":
		in.s.AdvanceQuiet(9700 * time.Millisecond)
	case e == "clock+0.6s":
		in.s.AdvanceQuiet(600 * time.Millisecond)
	case e == "clock+11s(>window)":
		in.s.AdvanceQuiet(11 * time.Second)
	case e == "add":
		if in.added >= 1 {
			in.out = "noop"
			return nil
		}
		in.added++
		name := fmt.Sprintf("x%d", in.added)
		if err := in.k.lb.AddBackend(config.BackendConfig{Name: name, Address: "http://" + name + ".test:80", Weight: 2}); err != nil {
			return &vh.HViol{Key: "C02/add-failed", What: err.Error()}
		}
		in.k.adopt(in.k.backendByName(name))
		in.mon = append(in.mon, &c02Backend{name: name, listed: true, until: -1})
		in.out = "added"
	case e == "remove:b0":
		m := in.monOf("b0")
		if !m.listed {
			in.out = "noop"
			return nil
		}
		in.k.lb.RemoveBackend("b0")
		m.listed = false
		in.out = "removed"
	}
	return nil
}

// strategyState canonicalises a strategy's rotation state without naming its fields:
// backend slices become name lists, uint64 cursors are taken modulo the pool size,
// other integers (smooth weights) are kept.
func strategyState(st Strategy) string {
	v := reflect.ValueOf(st)
	if v.Kind() == reflect.Ptr {
		v = v.Elem()
	}
	n := uint64(len(st.GetBackends()))
	var b strings.Builder
	b.WriteString(v.Type().Name())
	var walk func(v reflect.Value)
	walk = func(v reflect.Value) {
		switch v.Kind() {
		case reflect.Ptr:
			if v.IsNil() {
				return
			}
			if be, ok := reflect.NewAt(v.Type(), nil).Interface().(**Backend); ok && be != nil {
				_ = be
			}
			if v.Type() == reflect.TypeOf((*Backend)(nil)) {
				fmt.Fprintf(&b, "%s,", v.Elem().FieldByName("Name").String())
				return
			}
			walk(v.Elem())
		case reflect.Struct:
			if strings.Contains(v.Type().PkgPath(), "zzverif") || v.Type().PkgPath() == "sync" {
				return
			}
			for i := 0; i < v.NumField(); i++ {
				walk(v.Field(i))
			}
		case reflect.Slice:
			b.WriteString("[")
			for i := 0; i < v.Len(); i++ {
				walk(v.Index(i))
			}
			b.WriteString("]")
		case reflect.Uint64:
			if n > 0 {
				fmt.Fprintf(&b, "u%d;", v.Uint()%n)
			}
		case reflect.Int, reflect.Int32, reflect.Int64:
			fmt.Fprintf(&b, "i%d;", v.Int())
		}
	}
	walk(v)
	return b.String()
}

func (in *c02Inst) Fingerprint() string {
	now := in.s.Clock()
	var b strings.Builder
	b.WriteString(strategyState(in.k.lb.strategy))
	for _, m := range in.mon {
		rem := m.until - now
		if rem < 0 {
			rem = -1
		}
		fmt.Fprintf(&b, "|%s l=%v rem=%v held=%d", m.name, m.listed, rem, len(m.held))
		if be := in.k.backendByName(m.name); be != nil {
			// the real window end belongs to the state as well: an implementation whose window
			// differs from the monitor's must not be merged with one whose window agrees
			ur := be.UnhealthyUntil.Sub(vrt.Now())
			if ur < 0 {
				ur = -1
			}
			fmt.Fprintf(&b, " flag=%v until=%v conns=%d", be.IsHealthy, ur, be.ActiveConnections)
		}
	}
	fmt.Fprintf(&b, "|added=%d", in.added)
	b.WriteString(in.k.novel())
	return b.String()
}

func c02Spec(p c02Params, depth int) vh.HSpec {
	ev := c02Events(p.N)
	return vh.HSpec{
		Name: fmt.Sprintf("failover-%s-n%d%s", p.Strategy, p.N, map[bool]string{true: "-every-feature-on"}[p.Features]), KeyPrefix: "C02", Events: ev, Depth: depth, Params: p,
		New: func(s *vrt.Sched) vh.HInstance {
			w := []int{3, 1, 2, 1, 1, 1}
			o := kitOpts{Strategy: p.Strategy, N: p.N, Weights: w[:p.N], PassiveThr: 1, Window: 10}
			if p.Features {
				o.Active = true
				o.Breaker = &config.CircuitBreakerConfig{Enabled: true, MaxRequests: 1, IntervalSeconds: 5, TimeoutSeconds: 3, FailureThreshold: 1000000, SuccessThreshold: 1}
				o.Limiter = &config.RateLimitConfig{Enabled: true, MaxTokens: 1000000, RefillRate: 1}
			}
			k := newKit(s, o)
			if p.Features {
				s.Settle() // the initial probe round
			}
			in := &c02Inst{s: s, k: k, p: p, events: ev}
			for i := 0; i < p.N; i++ {
				in.mon = append(in.mon, &c02Backend{name: fmt.Sprintf("b%d", i), listed: true, until: -1})
			}
			return in
		},
	}
}

func TestVerifC02(t *testing.T) {
	r := vres.Open("C02", "H")
	defer func() {
		if err := r.Close(); err != nil {
			t.Fatal(err)
		}
	}()
	depth, maxN := 5, 4
	if vres.Thorough() {
		depth, maxN = 7, 6
	}
	if vres.ReplayPath() != "" {
		var rp vh.HReplay
		var p c02Params
		rp.Params = &p
		if err := vres.LoadReplay(&rp); err != nil {
			t.Fatal(err)
		}
		vh.ReplayH(c02Spec(p, depth), rp.Events, rp.Probe)
		return
	}
	i := 0
	for _, strat := range allStrategies {
		for n := 1; n <= maxN; n++ {
			if vh.MyShard(i) {
				d := depth
				if vres.Thorough() && n >= 4 {
					d = depth - (n - 3) // the alphabet grows with n
				}
				vh.RunH(r, "TestVerifC02", c02Spec(c02Params{Strategy: strat, N: n}, d))
			}
			i++
		}
	}
	// the same search with every other feature switched on (pools of 1..2 in the quick tier)
	for _, strat := range allStrategies {
		for n := 1; n <= 2+map[bool]int{true: 1}[vres.Thorough()]; n++ {
			if vh.MyShard(i) {
				vh.RunH(r, "TestVerifC02", c02Spec(c02Params{Strategy: strat, N: n, Features: true}, depth))
			}
			i++
		}
	}
	// the same search for strategies selected at run time (SetStrategy, what the admin API calls)
	// instead of in the configuration: whatever the balancer remembers about "its" strategy must
	// follow the switch (pools of 1..2 in the quick tier)
	kitViaSwitch = true
	for _, strat := range allStrategies {
		for n := 1; n <= 2+map[bool]int{true: 1}[vres.Thorough()]; n++ {
			if vh.MyShard(i) {
				sp := c02Spec(c02Params{Strategy: strat, N: n}, depth)
				sp.Name += "-selected-at-run-time"
				vh.RunH(r, "TestVerifC02", sp)
			}
			i++
		}
	}
	kitViaSwitch = false
	// the statement's product "every subset of ejected backends x every in-flight-count vector":
	// the history search holds at most a few requests in flight; here every backend carries a
	// common load on both sides of every plausible per-backend bound (injected into the gauges),
	// with distinct small loads on top, under every strategy and every ejected subset
	for _, strat := range allStrategies {
		if vh.MyShard(i) {
			c02Loads(r, strat, 4)
		}
		i++
	}
}

func c02Loads(r *vres.Report, strat string, maxN int) {
	start := time.Now()
	var evals int64
	var outs vres.Outcomes
	for n := 1; n <= maxN; n++ {
		for mask := 0; mask < 1<<n; mask++ {
			for _, base := range []int{0, 1, 99, 100, 101, 1000, 32767, 32768, 65535, 65536, 1 << 20, 1 << 30} {
				for _, client := range []string{"10.0.0.1", "10.1.0.1", "172.16.5.9"} {
					status, hit := 0, -1
					vh.RunSeq(r, "C02/sequential", func(s *vrt.Sched) {
						k := newKit(s, kitOpts{Strategy: strat, N: n, PassiveThr: 1, Window: 1000})
						for i := 0; i < n; i++ {
							b := k.backendByName(fmt.Sprintf("b%d", i))
							b.ActiveConnections += int32(base + (i*7)%3)
							if mask&(1<<i) != 0 {
								k.lb.MarkBackendUnhealthy(b, 1000*time.Second)
							}
						}
						hit, status = servedIndex(k, client)
						evals++
					})
					all := mask == 1<<n-1
					outs.Add(fmt.Sprintf("%v/%d", all, status))
					desc := fmt.Sprintf("%s n=%d ejected-mask=%b, every backend with about %d requests in flight, client %s", strat, n, mask, base, client)
					switch {
					case all && (status != 503 || hit >= 0):
						r.Violate("C02/loads/dispatched-although-all-ejected", fmt.Sprintf("%s: status %d, backend %d contacted", desc, status, hit), n, nil)
					case !all && status == 503:
						r.Violate("C02/no-healthy-backend-503-while-a-backend-is-outside-every-window/loads/"+strat, fmt.Sprintf("%s: answered 503 although a backend is outside every unhealthy window", desc), n, map[string]interface{}{"engine": "H", "test": "TestVerifC02", "strategy": strat, "n": n, "mask": mask, "base": base})
					case !all && (hit < 0 || mask&(1<<hit) != 0):
						r.Violate("C02/loads/dispatched-to-ejected-backend/"+strat, fmt.Sprintf("%s: served by %d (status %d)", desc, hit, status), n, nil)
					}
				}
			}
		}
	}
	r.AddScenario(vres.Scenario{Name: "failover-under-load-" + strat, Engine: "H", Executions: evals, States: evals, Transitions: evals, Outcomes: outs.N(),
		Bound: fmt.Sprintf("pools of 1..%d x every ejected subset x 12 base loads (0 .. 2^30, around 100, 2^15 and 2^16) x 3 client addresses", maxN), Exhaustive: true,
		Extra: map[string]interface{}{"wall_s": time.Since(start).Seconds()}})
}
