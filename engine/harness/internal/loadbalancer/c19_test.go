package loadbalancer

import (
	"fmt"
	"net"
	"testing"
	"time"

	"github.com/0xReLogic/Helios/internal/zzverif/vh"
	"github.com/0xReLogic/Helios/internal/zzverif/vres"
	"github.com/0xReLogic/Helios/internal/zzverif/vrt"
)

// C19 graceful shutdown (schedules): the real health-check loop (its goroutine, ticker and
// select run under the scheduler), probe goroutines, Stop callers, ticker firings and a
// client request, all interleavings up to the preemption bound.

type fakeConn struct {
	net.Conn
	closed int
}

func (c *fakeConn) Close() error                       { c.closed++; return nil }
func (c *fakeConn) Read(b []byte) (int, error)         { return 0, fmt.Errorf("fake") }
func (c *fakeConn) Write(b []byte) (int, error)        { return len(b), nil }
func (c *fakeConn) LocalAddr() net.Addr                { return nil }
func (c *fakeConn) RemoteAddr() net.Addr               { return nil }
func (c *fakeConn) SetDeadline(t time.Time) error      { return nil }
func (c *fakeConn) SetReadDeadline(t time.Time) error  { return nil }
func (c *fakeConn) SetWriteDeadline(t time.Time) error { return nil }

type c19Params struct {
	Ticks   int
	Stops   int
	Request bool
	Hang    bool // the backends accept probes and never answer them
	Cleanup bool // the WebSocket pool's cleanup ticker fires as well
	// NoActive: active health checks are off (no health-check loop to wait for); the pool must be
	// shut down all the same
	NoActive bool
	// Tunnel: a request is in flight at its backend for the whole scenario and beyond (an open
	// WebSocket tunnel, a long download: what http.Server.Shutdown gives up on after the
	// timeout or never waits for): Stop must return all the same
	Tunnel bool `json:",omitempty"`
}

func c19Scenario(p c19Params, bound int) vh.SScenario {
	return vh.SScenario{Name: fmt.Sprintf("shutdown-ticks%d-stops%d-req%v-hang%v-cleanup%v-noactive%v", p.Ticks, p.Stops, p.Request, p.Hang, p.Cleanup, p.NoActive) + map[bool]string{true: "-tunnel-open"}[p.Tunnel], KeyPrefix: "C19", Bound: bound, Params: p,
		ShardSubtrees: true, Horizon: 2000,
		Body: func(x *vh.Exec) {
			s := x.S
			k := newKit(s, kitOpts{Strategy: "round_robin", N: 2, PassiveThr: 2, Window: 10, Active: !p.NoActive, WSPool: true})
			conns := []*fakeConn{{}, {}}
			k.lb.wsPool.Put("b0", conns[0])
			k.lb.wsPool.Put("b0", conns[1]) // one pool key: Shutdown ranges over a map, whose order would make replays diverge
			s.Settle()                      // initial probe round
			var tunnel *held
			if p.Tunnel {
				tunnel = k.startHeld("10.0.0.9")
				if tunnel.at == nil {
					vh.ToolError("the long-lived request did not reach a backend")
				}
			}
			stopsReturned := 0
			var stopTook time.Duration
			probesAtLastStop := -1
			reqStatus := 0
			key, what := "", ""
			totalProbes := func() int { return k.stubs[0].probes + k.stubs[1].probes }
			x.Check = func(v vrt.Verdict) (string, string, string, bool) {
				out := fmt.Sprintf("stops=%d req=%d probes=%d", stopsReturned, reqStatus, totalProbes())
				if v.Kind != vrt.OK {
					return out, "", "", false
				}
				return out, key, what, true
			}
			s.Branch(true)
			var ths []*vrt.Thread
			if p.Ticks > 0 {
				ths = append(ths, s.Spawn("ticker", func() {
					for i := 0; i < p.Ticks; i++ {
						if tk := s.TickerByPeriod(kitProbePeriod); tk != nil {
							tk.Fire()
						}
					}
				}))
			}
			for i := 0; i < p.Stops; i++ {
				ths = append(ths, s.Spawn(fmt.Sprintf("stop%d", i), func() {
					t0 := s.Clock()
					k.lb.Stop()
					if d := s.Clock() - t0; d > stopTook {
						stopTook = d
					}
					stopsReturned++
					probesAtLastStop = totalProbes()
				}))
			}
			if p.Request {
				ths = append(ths, s.Spawn("client", func() { reqStatus = k.request("10.0.0.1", nil).Status }))
			}
			if p.Cleanup {
				// the pool's own cleanup loop (a goroutine of Helios, started with the pool) gets a tick
				ths = append(ths, s.Spawn("pool-ticker", func() {
					if tk := s.TickerByPeriod(30 * time.Second); tk != nil {
						tk.Fire()
					}
				}))
			}
			s.Join(ths...)
			s.Settle() // let whatever is still runnable (loop, probes) run to quiescence
			s.Branch(false)
			switch {
			case stopTook > time.Second:
				// nothing moves the clock in these scenarios except the scheduler itself when every
				// thread waits and one of them sleeps: Stop waited for a timer. One second is the
				// shortest shutdown timeout that can be configured.
				key, what = "C19/stop-waits-for-a-timer", fmt.Sprintf("Stop returned only after %v of (virtual) time had passed: it waits for something that sleeps, whatever the configured shutdown timeout (1s is configurable)", stopTook)
			case stopsReturned != p.Stops:
				key, what = "C19/stop-did-not-return", fmt.Sprintf("%d of %d Stop calls returned", stopsReturned, p.Stops)
			case totalProbes() != probesAtLastStop:
				key, what = "C19/probe-sent-after-stop-returned", fmt.Sprintf("%d health probe(s) were sent to backends after the last Stop had returned", totalProbes()-probesAtLastStop)
			case conns[0].closed == 0 || conns[1].closed == 0:
				key, what = "C19/pooled-connection-left-open", fmt.Sprintf("after Stop pooled connections closed = %d,%d", conns[0].closed, conns[1].closed)
			case p.Request && reqStatus == 0:
				// (only termination is required here: in the real process Stop runs after
				// http.Server.Shutdown has drained the requests; a probe cancelled by Stop
				// may eject its backend, so a request racing Stop itself can see 503)
				key, what = "C19/request-never-completed", "a client request running concurrently with Stop never completed"
			}
			if key == "" && tunnel != nil {
				// the long-lived exchange ends when its peers end it, after the balancer has stopped
				k.release(tunnel.at)
				if !tunnel.done {
					key, what = "C19/request-never-completed", "a request that was in flight across Stop never completed"
				}
			}
			if key == "" {
				// a further Stop is a harmless no-op
				k.lb.Stop()
				// and a late tick must not probe any more
				before := totalProbes()
				if tk := s.TickerByPeriod(kitProbePeriod); tk != nil {
					tk.Fire()
				}
				s.Settle()
				if totalProbes() != before {
					key, what = "C19/probing-continues-after-stop", "a ticker firing after Stop still sent probes"
				}
			}
		}}
}

func TestVerifC19(t *testing.T) {
	r := vres.Open("C19", "S")
	defer func() {
		if err := r.Close(); err != nil {
			t.Fatal(err)
		}
	}()
	if vres.ReplayPath() != "" {
		var rp vh.SReplay
		var p c19Params
		rp.Params = &p
		if err := vres.LoadReplay(&rp); err != nil {
			t.Fatal(err)
		}
		vh.ReplayS(c19Scenario(p, 0), rp.Choices)
		return
	}
	type sc struct {
		p c19Params
		b int
	}
	scs := []sc{{c19Params{1, 1, false, false, false, false, false}, 2}, {c19Params{2, 1, false, false, false, false, false}, 2}, {c19Params{1, 2, false, false, false, false, false}, 2}, {c19Params{1, 1, true, false, false, false, false}, 2}, {c19Params{0, 2, true, false, false, false, false}, 1}, {c19Params{1, 1, false, true, false, false, false}, 2}, {c19Params{1, 2, false, true, false, false, false}, 1}, {c19Params{0, 1, false, false, true, false, false}, 2}, {c19Params{1, 2, false, false, true, false, false}, 1}}
	scs = append(scs, sc{c19Params{0, 1, false, false, false, true, false}, 2}, sc{c19Params{0, 2, true, false, true, true, false}, 1})
	scs = append(scs, sc{c19Params{1, 1, false, false, false, false, true}, 1}, sc{c19Params{0, 2, true, false, false, true, true}, 1})
	if vres.Thorough() {
		// the quick scenarios as they are, the smaller ones once more with one more preemption,
		// and two larger mixes at one preemption (sizes measured: the whole tier stays well
		// inside its deadline on a loaded machine)
		scs = append(scs, sc{c19Params{0, 1, false, false, false, true, false}, 3}, sc{c19Params{0, 1, false, false, true, false, false}, 3}, sc{c19Params{1, 1, false, false, false, false, false}, 3},
			sc{c19Params{1, 1, false, true, false, false, false}, 3}, sc{c19Params{0, 2, true, false, false, false, false}, 2}, sc{c19Params{1, 2, false, true, false, false, false}, 2},
			sc{c19Params{2, 1, false, false, false, false, false}, 3}, sc{c19Params{2, 2, true, false, false, false, false}, 1}, sc{c19Params{1, 2, true, false, true, false, false}, 1})
	}
	if vres.Thorough() {
		scs = append(scs, sc{c19Params{1, 1, false, false, false, false, true}, 2}, sc{c19Params{0, 2, true, false, true, true, true}, 2})
	}
	for _, c := range scs {
		vh.RunS(r, "TestVerifC19", c19Scenario(c.p, c.b))
	}
}
