package loadbalancer

import (
	"fmt"
	"net/http"
	"testing"
	"time"

	"github.com/0xReLogic/Helios/internal/config"
	"github.com/0xReLogic/Helios/internal/zzverif/vh"
	"github.com/0xReLogic/Helios/internal/zzverif/vres"
	"github.com/0xReLogic/Helios/internal/zzverif/vrt"
)

// C01 (how long an exchange takes). The wire-level parts run in real time and therefore only
// see exchanges of milliseconds. Here the same statement - the client receives exactly the
// status and body the backend produced, once - is checked under the virtual clock for
// exchanges that take from nothing to more than a day: every strategy x breaker / limiter /
// passive checks on or off x every duration of the menu (each decade from 1 ms to 10^5 s and
// the minute, hour and day, each with the millisecond before and after) x three answers.

// c01BackendRead is the default of server.timeouts.backend_read, which the kit leaves unset
const c01BackendRead = 30 * time.Second

func c01Durations() []time.Duration {
	var out []time.Duration
	marks := []time.Duration{time.Millisecond, 10 * time.Millisecond, 100 * time.Millisecond, time.Second, 10 * time.Second, 100 * time.Second,
		1000 * time.Second, 10000 * time.Second, 100000 * time.Second, time.Minute, time.Hour, 24 * time.Hour}
	out = append(out, 0)
	for _, m := range marks {
		out = append(out, m-time.Millisecond, m, m+time.Millisecond)
	}
	return out
}

// c01DurCase runs three exchanges on a fresh balancer: an instant one, one in which the backend
// takes d to give the answer, an instant one.
//
// who = "backend": the backend takes d before it answers; who = "client": the backend answers at
// once, the body arrives in three pieces and the client takes d to accept each write; who =
// "backend-mid-body": the backend is silent for d before the second and the third piece.
func c01DurCase(r *vres.Report, strat string, m int, d time.Duration, answer, who string) (got [3]reqResult) {
	vh.RunSeq(r, "C01/durations", func(s *vrt.Sched) {
		o := kitOpts{Strategy: strat, N: 1, Window: 10}
		if m&1 != 0 {
			o.Breaker = &config.CircuitBreakerConfig{Enabled: true, MaxRequests: 1, IntervalSeconds: 5, TimeoutSeconds: 3, FailureThreshold: 5, SuccessThreshold: 1}
		}
		if m&2 != 0 {
			o.Limiter = &config.RateLimitConfig{Enabled: true, MaxTokens: 5, RefillRate: 1}
		}
		if m&4 != 0 {
			o.PassiveThr = 5
		}
		k := newKit(s, o)
		got[0] = k.requestMode("10.0.0.1", "ok")
		if who == "backend-mid-body" {
			got[1] = k.requestMode("10.0.0.1", fmt.Sprintf("pieces%dms+%s", d.Milliseconds(), answer))
		} else if who == "client" {
			got[1] = k.requestWith("10.0.0.1", nil, func(r *http.Request) {
				r.Header.Set("X-Verif-Mode", "pieces+"+answer)
				r.Header.Set("X-Verif-Client-Takes", fmt.Sprint(d.Milliseconds()))
			})
		} else {
			got[1] = k.requestMode("10.0.0.1", fmt.Sprintf("slow%dms+%s", d.Milliseconds(), answer))
		}
		got[2] = k.requestMode("10.0.0.1", "ok")
	})
	return got
}

func TestVerifC01Durations(t *testing.T) {
	r := vres.Open("C01", "Durations")
	defer func() {
		if err := r.Close(); err != nil {
			t.Fatal(err)
		}
	}()
	if vres.ReplayPath() != "" {
		var rp struct {
			Strategy   string `json:"strategy"`
			Mask       int    `json:"mask"`
			DurationMs int64  `json:"duration_ms"`
			Answer     string `json:"answer"`
			Who        string `json:"who"`
		}
		if err := vres.LoadReplay(&rp); err != nil {
			t.Fatal(err)
		}
		got := c01DurCase(r, rp.Strategy, rp.Mask, time.Duration(rp.DurationMs)*time.Millisecond, rp.Answer, rp.Who)
		for j, g := range got {
			fmt.Printf("exchange %d: status=%d body=%q aborted=%v\n", j, g.Status, g.Body, g.Aborted)
		}
		return
	}
	start := time.Now()
	var evals int64
	outs := vres.Outcomes{}
	answers := []struct {
		mode   string
		status int
		body   string
	}{{"ok", 200, "ok from b0"}, {"404", 404, "not found"}, {"500", 500, "backend error"}}
	i := 0
	for _, strat := range allStrategies {
		for m := 0; m < 8; m++ {
			i++
			if !vh.MyShard(i) {
				continue
			}
			for _, who := range []string{"backend", "client", "backend-mid-body"} {
				for _, d := range c01Durations() {
					if who == "backend-mid-body" && d >= c01BackendRead {
						continue // a backend silent for longer than backend_read is given up on (C03)
					}
					for _, a := range answers {
						// the exchange in question is the second of three: the first and the third
						// are instant and must be unaffected by how long the second took
						got := c01DurCase(r, strat, m, d, a.mode, who)
						evals += 3
						cfg := fmt.Sprintf("%s breaker=%v limiter=%v passive=%v", strat, m&1 != 0, m&2 != 0, m&4 != 0)
						for j, w := range []struct {
							status int
							body   string
						}{{200, "ok from b0"}, {a.status, a.body}, {200, "ok from b0"}} {
							g := got[j]
							outs.Add(fmt.Sprintf("%d/%v", g.Status, g.Aborted))
							if g.Status != w.status || g.Body != w.body || g.Aborted {
								which := "the exchange itself"
								if j != 1 {
									which = "an instant exchange next to it"
								}
								r.Violate("C01/durations/answer-differs-from-the-backend's", fmt.Sprintf("%s: an exchange in which the "+map[string]string{"backend": "backend takes %v to answer", "client": "client takes %v per write to accept the answer", "backend-mid-body": "backend is silent for %v before the second and the third piece of the answer"}[who]+" %d %q: %s got status %d body %q (aborted=%v)", cfg, d, a.status, a.body, which, g.Status, g.Body, g.Aborted), int(d/time.Millisecond)+j,
									map[string]interface{}{"engine": "H", "test": "TestVerifC01Durations", "strategy": strat, "mask": m, "duration_ms": d.Milliseconds(), "answer": a.mode, "who": who})
							}
						}
					}
				}
			}
		}
	}
	r.AddScenario(vres.Scenario{Name: "exchange-durations", Engine: "H", Executions: evals, States: evals, Transitions: evals, Outcomes: outs.N(),
		Bound: fmt.Sprintf("5 strategies x 8 feature masks x %d durations (0 .. a day, decade / minute / hour / day marks +-1 ms) x 3 answers x {the backend is slow to answer, the client is slow to accept a three-piece answer, the backend is silent (for less than backend_read) between the pieces}, each between two instant exchanges", len(c01Durations())), Exhaustive: true,
		Extra: map[string]interface{}{"wall_s": time.Since(start).Seconds()}})
}
