package loadbalancer

import (
	"fmt"
	"testing"
	"time"

	"github.com/0xReLogic/Helios/internal/circuitbreaker"
	"github.com/0xReLogic/Helios/internal/config"
	"github.com/0xReLogic/Helios/internal/zzverif/vh"
	"github.com/0xReLogic/Helios/internal/zzverif/vres"
	"github.com/0xReLogic/Helios/internal/zzverif/vrt"
)

// C08: breaker liveness through the real pipeline: YAML-level values -> Validate ->
// NewLoadBalancer (real wiring incl. the state-change callback) -> ServeHTTP.

type c08Params struct {
	FT, ST, MR        int
	Interval, Timeout int
}

var c08Events = []string{"req-ok", "req-500", "req-refused", "req-abort(panic)", "clock+0.4*interval", "clock+1.1*interval", "clock+1.1*timeout"}

type c08Inst struct {
	s    *vrt.Sched
	k    *kit
	p    c08Params
	out  string
	maxD time.Duration
}

func (in *c08Inst) LastOutcome() string { return in.out }

func (in *c08Inst) Step(ev int) *vh.HViol {
	st := in.k.stubs[0]
	switch ev {
	case 0:
		st.mode = "ok"
	case 1:
		st.mode = "500"
	case 2:
		st.mode = "refuse"
	case 3:
		st.mode = "abort"
	case 4:
		in.s.AdvanceQuiet(time.Duration(0.4 * float64(in.p.Interval) * float64(time.Second)))
		return nil
	case 5:
		in.s.AdvanceQuiet(time.Duration(1.1 * float64(in.p.Interval) * float64(time.Second)))
		return nil
	case 6:
		in.s.AdvanceQuiet(time.Duration(1.1 * float64(in.p.Timeout) * float64(time.Second)))
		return nil
	}
	res := in.k.request("10.0.0.1", nil)
	in.out = fmt.Sprintf("%d/%v", res.Status, res.Aborted)
	return nil
}

func (in *c08Inst) Fingerprint() string {
	return vh.FingerprintClip(in.maxD, in.k.lb.circuitBreaker) + in.k.novel()
}

// Probe is the recovery script: backends are healthy again; wait out the timeout; then a
// bounded number of requests must bring the breaker to closed with requests admitted.
func (in *c08Inst) Probe() *vh.HViol {
	in.k.stubs[0].mode = "ok"
	in.s.AdvanceQuiet(time.Duration(1.1 * float64(in.p.Timeout) * float64(time.Second)))
	budget := in.p.ST + in.p.MR + 2
	cfg := fmt.Sprintf("failure_threshold=%d success_threshold=%d max_requests=%d interval=%ds timeout=%ds", in.p.FT, in.p.ST, in.p.MR, in.p.Interval, in.p.Timeout)
	var seq []int
	for i := 0; i < budget; i++ {
		res := in.k.request("10.0.0.1", nil)
		seq = append(seq, res.Status)
	}
	last := in.k.request("10.0.0.1", nil)
	seq = append(seq, last.Status)
	if last.Status != 200 || in.k.lb.circuitBreaker.State() != circuitbreaker.StateClosed {
		rel := "max_requests>=success_threshold"
		if in.p.MR < in.p.ST {
			rel = "max_requests<success_threshold"
		}
		return &vh.HViol{Key: "C08/no-recovery/" + rel,
			What: fmt.Sprintf("%s: with a healthy backend and the timeout elapsed, %d requests got %v and the breaker is %s: traffic stays locked out", cfg, len(seq), seq, in.k.lb.circuitBreaker.State())}
	}
	return nil
}

func c08Spec(p c08Params, depth int) vh.HSpec {
	maxD := time.Duration(p.Interval) * time.Second
	if t := time.Duration(p.Timeout) * time.Second; t > maxD {
		maxD = t
	}
	maxD += 300 * time.Millisecond
	return vh.HSpec{
		Name: fmt.Sprintf("breaker-live-ft%d-st%d-mr%d-i%d-t%d", p.FT, p.ST, p.MR, p.Interval, p.Timeout), Events: c08Events, Depth: depth, Params: p, KeyPrefix: "C08/state-change",
		New: func(s *vrt.Sched) vh.HInstance {
			cfg := kitConfig(kitOpts{N: 1, Breaker: &config.CircuitBreakerConfig{Enabled: true, MaxRequests: p.MR, IntervalSeconds: p.Interval,
				TimeoutSeconds: p.Timeout, FailureThreshold: p.FT, SuccessThreshold: p.ST}})
			if err := cfg.Validate(); err != nil {
				return &c08Rejected{}
			}
			return &c08Inst{s: s, k: newKitCfg(s, cfg), p: p, maxD: maxD}
		},
	}
}

// c08Rejected stands for a configuration the validator refuses: nothing to explore.
type c08Rejected struct{}

func (*c08Rejected) Step(int) *vh.HViol  { return nil }
func (*c08Rejected) Fingerprint() string { return "rejected-by-validation" }

func c08Configs() []c08Params {
	var out []c08Params
	mrs := []int{0, 1, 2, 3}
	for ft := 1; ft <= 3; ft++ {
		for st := 1; st <= 3; st++ {
			for _, mr := range mrs {
				for _, it := range [][2]int{{1, 2}, {2, 1}} {
					if !vres.Thorough() && ft == 3 && st == 3 {
						continue
					}
					out = append(out, c08Params{ft, st, mr, it[0], it[1]})
				}
			}
		}
	}
	return out
}

func TestVerifC08H(t *testing.T) {
	r := vres.Open("C08", "H")
	defer func() {
		if err := r.Close(); err != nil {
			t.Fatal(err)
		}
	}()
	depth := 7
	if vres.Thorough() {
		depth = 10
	}
	if vres.ReplayPath() != "" {
		var rp vh.HReplay
		var p c08Params
		rp.Params = &p
		if err := vres.LoadReplay(&rp); err != nil {
			t.Fatal(err)
		}
		vh.ReplayH(c08Spec(p, depth), rp.Events, rp.Probe)
		return
	}
	for i, p := range c08Configs() {
		if vh.MyShard(i) {
			vh.RunH(r, "TestVerifC08H", c08Spec(p, depth))
		}
	}
}
