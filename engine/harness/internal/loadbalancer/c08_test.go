package loadbalancer

import (
	"fmt"
	"testing"
	"time"

	"github.com/0xReLogic/Helios/internal/circuitbreaker"
	"github.com/0xReLogic/Helios/internal/config"
	"github.com/0xReLogic/Helios/internal/zzverif/vh"
	"github.com/0xReLogic/Helios/internal/zzverif/vres"
	"github.com/0xReLogic/Helios/internal/zzverif/vrt"
)

// C08: breaker liveness through the real pipeline: YAML-level values -> Validate ->
// NewLoadBalancer (real wiring incl. the state-change callback) -> ServeHTTP.

type c08Params struct {
	FT, ST, MR        int
	Interval, Timeout int
	// Limiter: the rate limiter is enabled as well (with a burst no history exhausts): the
	// breaker must recover whatever else sits in front of it
	Limiter bool `json:",omitempty"`
	// SlowProbe: the recovery script is made of requests that each take longer than the timeout
	// and overlap (a backend that has recovered but is slow, under steady traffic): they all
	// succeed, so the breaker has to close after a bounded number of them all the same
	SlowProbe bool `json:",omitempty"`
}

// start-held / finish-held-*: a request is kept in flight at the backend while other requests
// run and the clock moves, and ends (well or badly) in whatever state the breaker is in by then
var c08Events = []string{"req-ok", "req-500", "req-refused", "req-abort(panic)", "clock+0.4*interval", "clock+1.1*interval", "clock+1.1*timeout",
	"start-held", "finish-held-ok", "finish-held-500"}

type c08Inst struct {
	s    *vrt.Sched
	k    *kit
	p    c08Params
	out  string
	maxD time.Duration
	held *held
	// openedAt is the instant the breaker was last seen to open (it was not open before the
	// step, or an admitted request of the step reached the backend, and it is open after it)
	openedAt time.Duration
}

func (in *c08Inst) LastOutcome() string { return in.out }

func (in *c08Inst) Step(ev int) *vh.HViol {
	st := in.k.stubs[0]
	switch ev {
	case 0:
		st.mode = "ok"
	case 1:
		st.mode = "500"
	case 2:
		st.mode = "refuse"
	case 3:
		st.mode = "abort"
	case 4:
		in.s.AdvanceQuiet(time.Duration(0.4 * float64(in.p.Interval) * float64(time.Second)))
		return nil
	case 5:
		in.s.AdvanceQuiet(time.Duration(1.1 * float64(in.p.Interval) * float64(time.Second)))
		return nil
	case 6:
		in.s.AdvanceQuiet(time.Duration(1.1 * float64(in.p.Timeout) * float64(time.Second)))
		return nil
	}
	wasOpen := in.k.lb.circuitBreaker.State() == circuitbreaker.StateOpen
	hits := st.hits
	switch ev {
	case 7:
		h := in.k.startHeld("10.0.0.2")
		if h.done || h.at == nil {
			in.out = fmt.Sprintf("not-held:%d", h.res.Status)
		} else {
			in.held = h
			in.out = "held"
		}
	case 8, 9:
		st.mode = map[int]string{8: "ok", 9: "500"}[ev]
		h := in.held
		in.held = nil
		in.k.release(h.at)
		if !h.done {
			return &vh.HViol{Key: "C08/held-request-never-returned", What: "a request released at its backend never returned"}
		}
		in.out = fmt.Sprintf("held-finished:%d", h.res.Status)
	default:
		res := in.k.request("10.0.0.1", nil)
		in.out = fmt.Sprintf("%d/%v", res.Status, res.Aborted)
	}
	if in.k.lb.circuitBreaker.State() == circuitbreaker.StateOpen && (!wasOpen || (ev < 7 && st.hits != hits)) {
		in.openedAt = in.s.Clock()
	}
	return nil
}

func (in *c08Inst) Fingerprint() string {
	since := in.s.Clock() - in.openedAt
	if since > in.maxD {
		since = in.maxD
	}
	return vh.FingerprintClip(in.maxD, in.k.lb.circuitBreaker) + in.k.novel() + fmt.Sprintf("|held=%v|opened-%v-ago", in.held != nil, since)
}

// Probe is the recovery script: backends are healthy again; wait out the timeout; then a
// bounded number of requests must bring the breaker to closed with requests admitted.
//
// "At most timeout": when the breaker is open, the wait is only what is left of the timeout
// counted from the instant it opened - nothing that happens while it is open (rejected
// requests, the late end of a request admitted before it opened) may push the first trial out.
func (in *c08Inst) Probe() *vh.HViol {
	in.k.stubs[0].mode = "ok"
	if in.held != nil { // requests succeed again: so does the one still in flight
		h := in.held
		in.held = nil
		wasOpen := in.k.lb.circuitBreaker.State() == circuitbreaker.StateOpen
		in.k.release(h.at)
		if !h.done {
			return &vh.HViol{Key: "C08/held-request-never-returned", What: "a request released at its backend never returned"}
		}
		if !wasOpen && in.k.lb.circuitBreaker.State() == circuitbreaker.StateOpen {
			in.openedAt = in.s.Clock()
		}
	}
	wait := time.Duration(1.1 * float64(in.p.Timeout) * float64(time.Second))
	if in.k.lb.circuitBreaker.State() == circuitbreaker.StateOpen {
		if left := in.openedAt + time.Duration(in.p.Timeout)*time.Second + time.Millisecond - in.s.Clock(); left < wait {
			wait = left
		}
	}
	if wait > 0 {
		in.s.AdvanceQuiet(wait)
	}
	if in.p.SlowProbe {
		return in.slowProbe()
	}
	budget := in.p.ST + in.p.MR + 2
	cfg := fmt.Sprintf("failure_threshold=%d success_threshold=%d max_requests=%d interval=%ds timeout=%ds", in.p.FT, in.p.ST, in.p.MR, in.p.Interval, in.p.Timeout)
	var seq []int
	for i := 0; i < budget; i++ {
		res := in.k.request("10.0.0.1", nil)
		seq = append(seq, res.Status)
	}
	last := in.k.request("10.0.0.1", nil)
	seq = append(seq, last.Status)
	if last.Status != 200 || in.k.lb.circuitBreaker.State() != circuitbreaker.StateClosed {
		rel := "max_requests>=success_threshold"
		if in.p.MR < in.p.ST {
			rel = "max_requests<success_threshold"
		}
		return &vh.HViol{Key: "C08/no-recovery/" + rel,
			What: fmt.Sprintf("%s: with a healthy backend and the timeout elapsed, %d requests got %v and the breaker is %s: traffic stays locked out", cfg, len(seq), seq, in.k.lb.circuitBreaker.State())}
	}
	return nil
}

// slowProbe: see c08Params.SlowProbe. Every 1.1 x timeout a new request arrives and the one that
// arrived before it ends successfully; a request that is turned away just ends.
func (in *c08Inst) slowProbe() *vh.HViol {
	step := time.Duration(1.1 * float64(in.p.Timeout) * float64(time.Second))
	var pending *held
	served, turnedAway := 0, 0
	rounds := 2*(in.p.ST+in.p.MR) + 4
	for i := 0; i < rounds; i++ {
		h := in.k.startHeld(fmt.Sprintf("10.0.1.%d", i))
		in.s.AdvanceQuiet(step)
		if pending != nil {
			in.k.release(pending.at)
			if !pending.done {
				return &vh.HViol{Key: "C08/held-request-never-returned", What: "a request released at its backend never returned"}
			}
			if pending.res.Status == 200 {
				served++
			}
			pending = nil
			// "a bounded number of successful requests": with the traffic still going on, the
			// breaker is closed once success_threshold + max_requests requests have succeeded
			if served >= in.p.ST+in.p.MR && in.k.lb.circuitBreaker.State() != circuitbreaker.StateClosed {
				return &vh.HViol{Key: "C08/no-recovery/slow-successful-requests", What: fmt.Sprintf("failure_threshold=%d success_threshold=%d max_requests=%d interval=%ds timeout=%ds: the backend is healthy again but slow (every request takes 1.1 x timeout) and requests keep arriving every 1.1 x timeout: %d requests have been answered successfully, %d were turned away, and the breaker is still %s", in.p.FT, in.p.ST, in.p.MR, in.p.Interval, in.p.Timeout, served, turnedAway, in.k.lb.circuitBreaker.State())}
			}
		}
		if h.at != nil && !h.done {
			pending = h
		} else {
			turnedAway++
		}
	}
	if pending != nil {
		in.k.release(pending.at)
		served++
	}
	last := in.k.request("10.0.0.1", nil)
	if last.Status != 200 || in.k.lb.circuitBreaker.State() != circuitbreaker.StateClosed {
		return &vh.HViol{Key: "C08/no-recovery/slow-successful-requests", What: fmt.Sprintf("failure_threshold=%d success_threshold=%d max_requests=%d interval=%ds timeout=%ds: the backend is healthy again but slow (every request takes 1.1 x timeout) and requests keep arriving every 1.1 x timeout: %d requests have been answered successfully, %d were turned away, and the breaker is still %s (last request: %d)", in.p.FT, in.p.ST, in.p.MR, in.p.Interval, in.p.Timeout, served, turnedAway, in.k.lb.circuitBreaker.State(), last.Status)}
	}
	return nil
}

func c08Spec(p c08Params, depth int) vh.HSpec {
	maxD := time.Duration(p.Interval) * time.Second
	if t := time.Duration(p.Timeout) * time.Second; t > maxD {
		maxD = t
	}
	maxD += 300 * time.Millisecond
	return vh.HSpec{
		Name: fmt.Sprintf("breaker-live-ft%d-st%d-mr%d-i%d-t%d%s", p.FT, p.ST, p.MR, p.Interval, p.Timeout, map[bool]string{true: "-with-rate-limiter"}[p.Limiter]+map[bool]string{true: "-slow-recovery"}[p.SlowProbe]), Events: c08Events, Depth: depth, Params: p, KeyPrefix: "C08/state-change",
		New: func(s *vrt.Sched) vh.HInstance {
			o := kitOpts{N: 1, Breaker: &config.CircuitBreakerConfig{Enabled: true, MaxRequests: p.MR, IntervalSeconds: p.Interval,
				TimeoutSeconds: p.Timeout, FailureThreshold: p.FT, SuccessThreshold: p.ST}}
			if p.Limiter {
				o.Limiter = &config.RateLimitConfig{Enabled: true, MaxTokens: 1000000, RefillRate: 1}
			}
			cfg := kitConfig(o)
			if err := cfg.Validate(); err != nil {
				return &c08Rejected{}
			}
			return &c08Inst{s: s, k: newKitCfg(s, cfg), p: p, maxD: maxD}
		},
		Enabled: func(inst vh.HInstance, ev int) bool {
			in, ok := inst.(*c08Inst)
			if !ok {
				return true
			}
			switch ev {
			case 7:
				return in.held == nil
			case 8, 9:
				return in.held != nil
			}
			return true
		},
	}
}

// c08Rejected stands for a configuration the validator refuses: nothing to explore.
type c08Rejected struct{}

func (*c08Rejected) Step(int) *vh.HViol  { return nil }
func (*c08Rejected) Fingerprint() string { return "rejected-by-validation" }

func c08Configs() []c08Params {
	var out []c08Params
	mrs := []int{0, 1, 2, 3}
	for ft := 1; ft <= 3; ft++ {
		for st := 1; st <= 3; st++ {
			for _, mr := range mrs {
				for _, it := range [][2]int{{1, 2}, {2, 1}} {
					if !vres.Thorough() && ft == 3 && st == 3 {
						continue
					}
					out = append(out, c08Params{FT: ft, ST: st, MR: mr, Interval: it[0], Timeout: it[1]})
					if it[0] == 1 && (vres.Thorough() || mr <= 1) {
						out = append(out, c08Params{FT: ft, ST: st, MR: mr, Interval: it[0], Timeout: it[1], Limiter: true})
					}
				}
			}
		}
	}
	// the recovery script made of slow overlapping successes (configurations whose trial budget
	// covers the success threshold)
	for _, c := range [][3]int{{1, 1, 1}, {2, 1, 1}, {1, 2, 2}, {1, 1, 2}, {2, 2, 3}} {
		out = append(out, c08Params{FT: c[0], ST: c[1], MR: c[2], Interval: 1, Timeout: 2, SlowProbe: true})
	}
	return out
}

func TestVerifC08H(t *testing.T) {
	r := vres.Open("C08", "H")
	defer func() {
		if err := r.Close(); err != nil {
			t.Fatal(err)
		}
	}()
	depth := 7
	if vres.Thorough() {
		depth = 10
	}
	if vres.ReplayPath() != "" {
		var rp vh.HReplay
		var p c08Params
		rp.Params = &p
		if err := vres.LoadReplay(&rp); err != nil {
			t.Fatal(err)
		}
		vh.ReplayH(c08Spec(p, depth), rp.Events, rp.Probe)
		return
	}
	for i, p := range c08Configs() {
		if vh.MyShard(i) {
			vh.RunH(r, "TestVerifC08H", c08Spec(p, depth))
		}
	}
}
