package loadbalancer

// Shared harness kit for the balancer-level checks (engines S and H): builds the real
// LoadBalancer from a config, replaces each backend's transport (and the default
// transport used by active probes) by scripted stubs, and issues requests through the
// real ServeHTTP the way net/http's server would (ServerContextKey present, handler
// panics of kind ErrAbortHandler absorbed).

import (
	"context"
	"errors"
	"fmt"
	"github.com/0xReLogic/Helios/internal/zzverif/vh"
	"io"
	"log"
	"net"
	"net/http"
	"net/http/httptest"
	"net/http/httptrace"
	"net/textproto"
	"reflect"
	"sort"
	"strconv"
	"strings"
	"time"

	"github.com/0xReLogic/Helios/internal/config"
	"github.com/0xReLogic/Helios/internal/logging"
	"github.com/0xReLogic/Helios/internal/zzverif/vrt"
)

func init() {
	log.SetOutput(io.Discard)
	logging.Init(config.LoggingConfig{Level: "fatal", Format: "json"})
}

type kitOpts struct {
	Strategy   string
	N          int
	Weights    []int
	Breaker    *config.CircuitBreakerConfig
	Limiter    *config.RateLimitConfig
	PassiveThr int // 0 = passive checks off
	Window     int // unhealthy window seconds (default 10)
	Active     bool
	WSPool     bool
}

type stub struct {
	name          string
	host          string
	mode          string // ok, 404, 500, refuse, garbage, eof, timeout, abort
	probeMode     string // ok, 500, refuse, garbage, eof, timeout, hang
	hits          int    // requests actually sent to this backend (client traffic)
	probes        int    // probes actually sent
	releaseProbes bool   // ends hanging probes
	hold          bool   // hold client requests in flight until open
	open          int    // number of held requests that may proceed
	inflight      int
	idleConns     int  // connections the transport keeps open to this backend between exchanges (see stubRT.RoundTrip)
	closeIdle     bool // CloseIdleConnections was called since the last exchange started
}

type kit struct {
	s      *vrt.Sched
	lb     *LoadBalancer
	cfg    *config.Config
	stubs  []*stub
	byHost map[string]*stub
	oldDT  http.RoundTripper
	reqSeq int
}

// Transport errors with the dynamic types a real http.Transport produces: code that inspects
// the error (type assertions, errors.As, Timeout()) must see the same shapes as in production.
var (
	// refused connection: *net.OpError (a net.Error, not a timeout)
	errRefused error = &net.OpError{Op: "dial", Net: "tcp", Addr: &net.TCPAddr{IP: net.IPv4(10, 255, 0, 1), Port: 80}, Err: errors.New("connect: connection refused (scripted)")}
	// the peer answers with bytes that are not HTTP: a plain error value, not a net.Error
	errGarbage = errors.New("net/http: HTTP/1.x transport connection broken: malformed HTTP response \"\\x16\\x03\\x01\" (scripted)")
	// the peer closes before sending anything: io.EOF as the transport returns it
	errEarlyEOF = io.EOF
	// response-header timeout: a net.Error whose Timeout() is true
	errTimeout error = scriptedTimeout{}
)

type scriptedTimeout struct{}

func (scriptedTimeout) Error() string {
	return "net/http: timeout awaiting response headers (scripted)"
}
func (scriptedTimeout) Timeout() bool   { return true }
func (scriptedTimeout) Temporary() bool { return true }

// like net/http's own timeout error (http.Client.Timeout, response-header timeout), which
// answers true to errors.Is(err, context.DeadlineExceeded)
func (scriptedTimeout) Is(target error) bool { return target == context.DeadlineExceeded }

// transportFault maps a scripted fault mode to the transport error it stands for (nil: not a
// transport-level fault).
func transportFault(mode string) error {
	switch mode {
	case "refuse":
		return errRefused
	case "garbage":
		return errGarbage
	case "eof":
		return errEarlyEOF
	case "timeout":
		return errTimeout
	}
	return nil
}

type failingBody struct {
	data []byte
	pos  int
}

func (f *failingBody) Read(p []byte) (int, error) {
	if f.pos < len(f.data) {
		n := copy(p, f.data[f.pos:])
		f.pos += n
		return n, nil
	}
	return 0, errors.New("unexpected EOF (scripted reset mid-body)")
}
func (f *failingBody) Close() error { return nil }

type stubRT struct {
	k     *kit
	st    *stub
	probe bool
}

func mkResp(req *http.Request, code int, body string) *http.Response {
	return &http.Response{
		Status: fmt.Sprintf("%d %s", code, http.StatusText(code)), StatusCode: code, Proto: "HTTP/1.1", ProtoMajor: 1, ProtoMinor: 1,
		Header: http.Header{"Content-Type": {"text/plain"}, "X-Served-By": {req.URL.Host}}, Body: io.NopCloser(strings.NewReader(body)),
		ContentLength: int64(len(body)), Request: req,
	}
}

// The scripted transport keeps the books of an http.Transport's connection pool, as far as the
// balancer can influence it: a client exchange takes an idle connection or opens one, and when
// the response body has been read to its end and closed the connection goes back to the idle
// pool - unless CloseIdleConnections has been called since the last exchange started (the
// transport's closeIdle flag, which the next exchange resets), in which case it is closed.
// idleConns is what the backend would still see open with nothing in flight.
func (rt *stubRT) RoundTrip(req *http.Request) (*http.Response, error) {
	st := rt.st
	if st == nil && rt.k != nil {
		st = rt.k.byHost[req.URL.Host]
	}
	if rt.probe || st == nil {
		return rt.roundTrip(req)
	}
	st.closeIdle = false
	if st.idleConns > 0 {
		st.idleConns--
	}
	resp, err := rt.roundTrip(req)
	if err == nil && resp != nil && resp.Body != nil && resp.StatusCode != http.StatusSwitchingProtocols {
		resp.Body = &connBody{ReadCloser: resp.Body, st: st}
	}
	return resp, err
}

// CloseIdleConnections: see RoundTrip.
func (rt *stubRT) CloseIdleConnections() {
	if rt.st != nil && !rt.probe {
		rt.st.idleConns = 0
		rt.st.closeIdle = true
	}
}

type connBody struct {
	io.ReadCloser
	st     *stub
	broken bool
	closed bool
}

func (b *connBody) Read(p []byte) (int, error) {
	n, err := b.ReadCloser.Read(p)
	if err != nil && err != io.EOF {
		b.broken = true // a connection whose response broke off is not reused
	}
	return n, err
}

func (b *connBody) Close() error {
	if !b.closed {
		b.closed = true
		if !b.broken && !b.st.closeIdle {
			b.st.idleConns++
		}
	}
	return b.ReadCloser.Close()
}

func (rt *stubRT) roundTrip(req *http.Request) (*http.Response, error) {
	st := rt.st
	if st == nil {
		st = rt.k.byHost[req.URL.Host]
		if st == nil {
			return nil, fmt.Errorf("no scripted backend for host %q", req.URL.Host)
		}
	}
	// like http.Transport: a cancelled context fails the round trip before anything is sent
	if err := req.Context().Err(); err != nil {
		if !rt.probe {
			st.hits++ // a dispatch to this backend all the same (like a refused connection)
		}
		return nil, err
	}
	if rt.probe {
		if s := vrt.Cur(); s != nil {
			s.Yield("probe-in-flight:" + st.name)
			// the context may have been cancelled while the probe was on its way out
			if err := req.Context().Err(); err != nil {
				return nil, err
			}
		}
		st.probes++
		if st.probeMode == "hang" {
			// the backend accepted the probe and does not answer: only the request's own
			// context (or the harness) ends it, as with a real transport
			if s := vrt.Cur(); s != nil {
				s.WaitFor("probe-hanging:"+st.name, func() bool { return req.Context().Err() != nil || st.releaseProbes })
			}
			if err := req.Context().Err(); err != nil {
				return nil, err
			}
			return mkResp(req, 200, "late"), nil
		}
		if st.probeMode == "500" {
			return mkResp(req, 500, "probe fail"), nil
		}
		if err := transportFault(st.probeMode); err != nil {
			return nil, err
		}
		return mkResp(req, 200, "healthy"), nil
	}
	st.hits++
	if req.Header.Get("X-Verif-Early") != "" && req.Body != nil && req.Body != http.NoBody {
		// like http.Transport: the request body is sent by a goroutine of the connection
		// (writeLoop), and a backend that answers before it has the whole body makes the round
		// trip return while that goroutine still reads: it finds the body closed some time after
		// the exchange is over
		body := req.Body
		upload := func() {
			buf := make([]byte, 16)
			for {
				if s := vrt.Cur(); s != nil {
					s.Yield("upload-goes-on:" + st.name)
				}
				if _, err := body.Read(buf); err != nil {
					return
				}
			}
		}
		if s := vrt.Cur(); s != nil {
			s.Spawn("upload:"+st.name, upload)
		} else {
			go upload()
		}
	} else if req.Body != nil && req.Body != http.NoBody {
		// like http.Transport: the request body is sent along; if reading it fails the round
		// trip fails with that error (the backend has seen the head and part of the body)
		if _, err := io.Copy(io.Discard, req.Body); err != nil {
			return nil, fmt.Errorf("transport: reading the request body: %w", err)
		}
	}
	if st.hold || req.Header.Get("X-Verif-Hold") != "" {
		st.inflight++
		if s := vrt.Cur(); s != nil {
			s.WaitFor("transport-gate:"+st.name, func() bool { return st.open > 0 })
		}
		st.open--
		st.inflight--
		// like http.Transport: a request whose context was cancelled while it waited for the
		// backend fails with the context's error
		if err := req.Context().Err(); err != nil {
			return nil, err
		}
	}
	mode := st.mode
	if m := req.Header.Get("X-Verif-Mode"); m != "" {
		mode = m
	}
	if strings.HasPrefix(mode, "slow") && strings.Contains(mode, "+") {
		// the backend takes 11 s (longer than every window and timeout of the harness
		// configurations) before it answers - or the number of seconds given, "slow61+ok": the
		// virtual clock moves while the request is in flight
		took := 11 * time.Second
		plus := strings.Index(mode, "+")
		if n, err := strconv.Atoi(mode[len("slow"):plus]); err == nil {
			took = time.Duration(n) * time.Second
		} else if n, err := strconv.Atoi(strings.TrimSuffix(mode[len("slow"):plus], "ms")); err == nil {
			took = time.Duration(n) * time.Millisecond // "slow10001ms+ok"
		}
		if s := vrt.Cur(); s != nil {
			s.AdvanceQuiet(took)
		}
		mode = mode[plus+1:]
	}
	if strings.HasPrefix(mode, "pieces") && strings.Contains(mode, "+") {
		// the answer's body arrives in three pieces (three reads), as a body of some size does;
		// "pieces500ms+ok": the backend is silent for that long before the second and third piece
		// "pieces31000msx32768+ok": three pieces of that many bytes each (a piece the size of the
		// proxy's copy buffer fills it exactly)
		plus := strings.Index(mode, "+")
		var gap time.Duration
		spec, size := mode[len("pieces"):plus], 0
		if x := strings.Index(spec, "x"); x >= 0 {
			size, _ = strconv.Atoi(spec[x+1:])
			spec = spec[:x]
		}
		if n, err := strconv.Atoi(strings.TrimSuffix(spec, "ms")); err == nil {
			gap = time.Duration(n) * time.Millisecond
		}
		r, err := rt.answer(req, st, mode[plus+1:])
		if err == nil && r != nil {
			b, _ := io.ReadAll(r.Body)
			if size > 0 {
				b = []byte(strings.Repeat("ok from "+st.name+" ", 3*size/(len(st.name)+9)+1)[:3*size])
				r.ContentLength = int64(len(b))
			}
			r.Body = &piecesBody{data: b, piece: (len(b) + 2) / 3, gap: gap}
		}
		return r, err
	}
	return rt.answer(req, st, mode)
}

// piecesBody hands out its data one piece per Read and fails reads after Close, like the body
// of a real transport.
type piecesBody struct {
	data   []byte
	piece  int
	closed bool
	gap    time.Duration
	reads  int
}

func (b *piecesBody) Read(p []byte) (int, error) {
	if b.reads++; b.reads > 1 && b.gap > 0 && len(b.data) > 0 && !b.closed {
		// nothing arrives for a while: the read waits (the clock moves), and a timer of the
		// code under test may close the body under it
		if s := vrt.Cur(); s != nil {
			s.AdvanceQuiet(b.gap)
			s.FireDueFuncs()
		}
	}
	if b.closed {
		return 0, errors.New("http: read on closed response body")
	}
	if len(b.data) == 0 {
		return 0, io.EOF
	}
	n := b.piece
	if n > len(b.data) {
		n = len(b.data)
	}
	if n > len(p) {
		n = len(p)
	}
	copy(p, b.data[:n])
	b.data = b.data[n:]
	return n, nil
}

func (b *piecesBody) Close() error { b.closed = true; return nil }

// answer produces the scripted backend's response for the mode.
func (rt *stubRT) answer(req *http.Request, st *stub, mode string) (*http.Response, error) {
	if strings.HasPrefix(mode, "103+") {
		// an interim response first, delivered the way a real transport does (client trace hook,
		// which httputil.ReverseProxy installs to forward 1xx responses)
		if tr := httptrace.ContextClientTrace(req.Context()); tr != nil && tr.Got1xxResponse != nil {
			_ = tr.Got1xxResponse(103, textproto.MIMEHeader{"Link": {"</s.css>; rel=preload"}})
		}
		mode = mode[len("103+"):]
	}
	switch mode {
	case "404":
		return mkResp(req, 404, "not found"), nil
	case "500":
		return mkResp(req, 500, "backend error"), nil
	case "500ra":
		// a failing backend that says how long it would like to be left alone: that is the
		// backend's wish, the ejection window is the operator's configuration
		r := mkResp(req, 503, "overloaded")
		r.Header.Set("Retry-After", "86400")
		return r, nil
	case "refuse", "garbage", "eof", "timeout":
		return nil, transportFault(mode)
	case "abort":
		r := mkResp(req, 200, "")
		r.ContentLength = 100
		r.Body = &failingBody{data: []byte("partial")}
		return r, nil
	}
	return mkResp(req, 200, "ok from "+st.name), nil
}

// kitProbePeriod is the active health-check interval of every kit (ticks are fired by the
// harness, never by time)
const kitProbePeriod = 5000 * time.Second

func kitConfig(o kitOpts) *config.Config {
	cfg := &config.Config{}
	cfg.Server.Port = 8080
	if o.Strategy == "" {
		o.Strategy = "round_robin"
	}
	cfg.LoadBalancer.Strategy = o.Strategy
	for i := 0; i < o.N; i++ {
		w := 0
		if i < len(o.Weights) {
			w = o.Weights[i]
		}
		cfg.Backends = append(cfg.Backends, config.BackendConfig{Name: fmt.Sprintf("b%d", i), Address: fmt.Sprintf("http://b%d.test:80", i), Weight: w})
	}
	win := o.Window
	if win == 0 {
		win = 10
	}
	cfg.HealthChecks.Passive = config.PassiveHealthCheckConfig{Enabled: o.PassiveThr > 0, UnhealthyThreshold: o.PassiveThr, UnhealthyTimeout: win}
	if o.PassiveThr == 0 {
		// the window is also what a failed active probe ejects for
		cfg.HealthChecks.Passive.UnhealthyTimeout = win
	}
	if o.Active {
		// (the probe client's timeout is a real-time timer inside net/http, which the virtual
		// clock does not own: it is configured so long that a starved test process cannot reach it)
		cfg.HealthChecks.Active = config.ActiveHealthCheckConfig{Enabled: true, Interval: int(kitProbePeriod / time.Second), Timeout: 2000, Path: "/health"}
	}
	if o.Breaker != nil {
		cfg.CircuitBreaker = *o.Breaker
	}
	if o.Limiter != nil {
		cfg.RateLimit = *o.Limiter
	}
	if o.WSPool {
		cfg.LoadBalancer.WebSocketPool = config.WebSocketPoolConfig{Enabled: true, MaxIdle: 2, MaxActive: 4, IdleTimeoutSeconds: 10}
	}
	return cfg
}

// newKit must run inside a scheduler execution (thread "main", before Branch).
func newKit(s *vrt.Sched, o kitOpts) *kit {
	cfg := kitConfig(o)
	if err := cfg.Validate(); err != nil {
		panic("kit config invalid: " + err.Error())
	}
	return newKitCfg(s, cfg)
}

// kitViaSwitch: when set, every kit starts under another strategy and is switched to the
// requested one at run time (SetStrategy, what the admin API calls): a strategy is the same
// strategy whichever way it was selected.
var kitViaSwitch bool

func newKitCfg(s *vrt.Sched, cfg *config.Config) *kit {
	k := &kit{s: s, cfg: cfg, byHost: map[string]*stub{}}
	// the default transport serves the active probes of this execution
	http.DefaultTransport = &stubRT{k: k, probe: true}
	want := cfg.LoadBalancer.Strategy
	if kitViaSwitch {
		cfg.LoadBalancer.Strategy = map[bool]string{true: "ip_hash", false: "round_robin"}[want == "round_robin" || want == ""]
	}
	lb, err := NewLoadBalancer(cfg)
	if err != nil {
		panic("NewLoadBalancer: " + err.Error())
	}
	if kitViaSwitch {
		if want == "" {
			want = "round_robin"
		}
		if err := lb.SetStrategy(want); err != nil {
			panic("SetStrategy: " + err.Error())
		}
	}
	k.lb = lb
	for _, b := range lb.strategy.GetBackends() {
		k.adopt(b)
	}
	return k
}

// adopt installs a stub transport on a backend (also used after admin adds).
func (k *kit) adopt(b *Backend) *stub {
	if st, ok := k.byHost[b.URL.Host]; ok {
		b.ReverseProxy.Transport = &stubRT{k: k, st: st}
		return st
	}
	st := &stub{name: b.Name, host: b.URL.Host, mode: "ok", probeMode: "ok"}
	k.stubs = append(k.stubs, st)
	k.byHost[b.URL.Host] = st
	b.ReverseProxy.Transport = &stubRT{k: k, st: st}
	return st
}

func (k *kit) stub(name string) *stub {
	for _, st := range k.stubs {
		if st.name == name {
			return st
		}
	}
	return nil
}

type reqResult struct {
	Status   int
	ServedBy string // backend host that produced the response ("" if none)
	Aborted  bool   // handler panicked with http.ErrAbortHandler (net/http closes the connection)
	Body     string
	Header   http.Header
}

var dummyServer = &http.Server{}

// request sends one client request through h (default: the balancer) like net/http would.
func (k *kit) request(client string, h http.Handler) (res reqResult) {
	return k.requestWith(client, h, nil)
}

func (k *kit) requestWith(client string, h http.Handler, edit func(*http.Request)) (res reqResult) {
	if h == nil {
		h = k.lb
	}
	k.reqSeq++
	req := httptest.NewRequest("GET", "http://helios.test/r", nil)
	req.RemoteAddr = client + ":40000"
	req = req.WithContext(context.WithValue(req.Context(), http.ServerContextKey, dummyServer))
	if edit != nil {
		edit(req)
	}
	rec := httptest.NewRecorder()
	func() {
		defer func() {
			if r := recover(); r != nil {
				if r == http.ErrAbortHandler {
					res.Aborted = true
					return
				}
				panic(r)
			}
		}()
		fr := &finalRecorder{ResponseRecorder: rec}
		if ms, err := strconv.Atoi(req.Header.Get("X-Verif-Client-Takes")); err == nil {
			fr.takes = time.Duration(ms) * time.Millisecond
		}
		fr.refuses = req.Header.Get("X-Verif-Client-Refuses") != ""
		h.ServeHTTP(fr, req)
	}()
	res.Status = rec.Code
	res.ServedBy = rec.Header().Get("X-Served-By")
	res.Body = rec.Body.String()
	res.Header = rec.Header()
	return res
}

// finalRecorder records the final status like a real connection would: interim (1xx)
// responses precede it and do not count as the response's status (this version of
// httptest.ResponseRecorder would keep the first code it is given).
type finalRecorder struct {
	*httptest.ResponseRecorder
	interim []int
	takes   time.Duration // how long the client takes to accept one write (X-Verif-Client-Takes, ms)
	refuses bool          // the client's connection is broken: writes of body bytes fail (X-Verif-Client-Refuses)
}

// Write: a client that is slow to take what it is sent makes the write take time
func (f *finalRecorder) Write(p []byte) (int, error) {
	if f.refuses {
		return 0, errors.New("write tcp: broken pipe")
	}
	if f.takes > 0 {
		if s := vrt.Cur(); s != nil {
			s.AdvanceQuiet(f.takes)
			s.FireDueFuncs() // timers of the code under test that came due while the write was stuck
		}
	}
	return f.ResponseRecorder.Write(p)
}

func (f *finalRecorder) WriteHeader(code int) {
	if code >= 100 && code < 200 && code != http.StatusSwitchingProtocols {
		f.interim = append(f.interim, code)
		return
	}
	f.ResponseRecorder.WriteHeader(code)
}

// requestMode sends a request whose backend behaviour is fixed for this request only
// (concurrent scenarios): the mode travels in a request header the stub honours.
func (k *kit) requestMode(client, mode string) reqResult {
	return k.requestWith(client, nil, func(r *http.Request) { r.Header.Set("X-Verif-Mode", mode) })
}

// novel renders state of the balancer that the hand-written fingerprints do not know about
// (fields a change added to the structs of the code under test); empty on the tree the list of
// known fields was generated from.
func (k *kit) novel() string {
	return "|novel:" + vh.FingerprintNovel(30*time.Second, knownFields, k.lb)
}

func (k *kit) requestCancelled(client string) reqResult {
	return k.requestWith(client, nil, func(r *http.Request) {
		ctx, cancel := context.WithCancel(r.Context())
		cancel()
		*r = *r.WithContext(ctx)
	})
}

// failingUpload is a request body that breaks off with an error after a few bytes (a malformed
// chunk, a connection reset by the client while uploading): the request context stays alive.
type failingUpload struct{ sent bool }

func (b *failingUpload) Read(p []byte) (int, error) {
	if !b.sent {
		b.sent = true
		return copy(p, "partial upload"), nil
	}
	return 0, errors.New("malformed chunked encoding")
}
func (b *failingUpload) Close() error { return nil }

// requestBadUpload: the client's request body cannot be read to its end.
func (k *kit) requestBadUpload(client string) reqResult {
	return k.requestWith(client, nil, func(r *http.Request) {
		r.Method = "POST"
		r.Body = &failingUpload{}
		r.ContentLength = -1
	})
}

// serverBody is a request body as net/http's server hands it to a handler: n bytes, and a Read
// after Close fails with http.ErrBodyReadAfterClose.
type serverBody struct {
	left   int
	closed bool
}

func (b *serverBody) Read(p []byte) (int, error) {
	if b.closed {
		return 0, http.ErrBodyReadAfterClose
	}
	if b.left == 0 {
		return 0, io.EOF
	}
	n := len(p)
	if n > b.left {
		n = b.left
	}
	for i := 0; i < n; i++ {
		p[i] = 'u'
	}
	b.left -= n
	return n, nil
}
func (b *serverBody) Close() error { b.closed = true; return nil }

// requestAnsweredEarly: a POST with a 48-byte body; the backend answers without waiting for the
// body, the transport goes on sending it (see stubRT.RoundTrip).
func (k *kit) requestAnsweredEarly(client, mode string) reqResult {
	return k.requestWith(client, nil, func(r *http.Request) {
		r.Method = "POST"
		r.Body = &serverBody{left: 48}
		r.ContentLength = 48
		r.Header.Set("X-Verif-Early", "1")
		r.Header.Set("X-Verif-Mode", mode)
	})
}

// requestClientRefuses: the backend answers well, but the client does not take the body.
func (k *kit) requestClientRefuses(client string) reqResult {
	return k.requestWith(client, nil, func(r *http.Request) { r.Header.Set("X-Verif-Client-Refuses", "1") })
}

// requestGoneMidway: the client goes away (its context is cancelled) while the request is in
// flight at the backend. Sequential harnesses only.
func (k *kit) requestGoneMidway(client string) reqResult {
	var cancel context.CancelFunc
	var res reqResult
	done := false
	before := k.inflightVector()
	k.s.Spawn("gone-midway", func() {
		res = k.requestWith(client, nil, func(r *http.Request) {
			r.Header.Set("X-Verif-Hold", "1")
			var ctx context.Context
			ctx, cancel = context.WithCancel(r.Context())
			*r = *r.WithContext(ctx)
		})
		done = true
	})
	k.s.Settle()
	if cancel != nil {
		cancel()
	}
	for i, n := range k.inflightVector() {
		if n > before[i] {
			k.release(k.stubs[i])
		}
	}
	k.s.Settle()
	if !done {
		vh.ToolError("a request whose client went away never returned")
	}
	return res
}

// held is a client request kept in flight at its backend until released.
type held struct {
	th   *vrt.Thread
	res  reqResult
	done bool
	at   *stub // backend it is parked at (nil if it never reached one)
}

// startHeld starts a request on its own thread and lets it run until it parks at a
// transport gate (or finishes, e.g. with 503). Sequential harnesses only (Branch off).
func (k *kit) startHeld(client string) *held {
	h := &held{}
	before := k.inflightVector()
	h.th = k.s.Spawn("held", func() {
		h.res = k.requestWith(client, nil, func(r *http.Request) { r.Header.Set("X-Verif-Hold", "1") })
		h.done = true
	})
	k.s.Settle()
	after := k.inflightVector()
	for i := range after {
		if after[i] > before[i] {
			h.at = k.stubs[i]
		}
	}
	return h
}

// release lets one held request of the stub proceed and waits until it has finished.
func (k *kit) release(st *stub) {
	st.open++
	k.s.Settle()
}

func (k *kit) inflightVector() []int {
	out := make([]int, len(k.stubs))
	for i, st := range k.stubs {
		out[i] = st.inflight
	}
	return out
}

func (k *kit) backendByName(name string) *Backend {
	for _, b := range k.lb.strategy.GetBackends() {
		if b.Name == name {
			return b
		}
	}
	return nil
}

func (k *kit) hitsVector() []int {
	out := make([]int, len(k.stubs))
	for i, st := range k.stubs {
		out[i] = st.hits
	}
	return out
}

func (k *kit) names() []string {
	var out []string
	for _, st := range k.stubs {
		out = append(out, st.name)
	}
	sort.Strings(out)
	return out
}

func secs(f float64) time.Duration { return time.Duration(f * float64(time.Second)) }

// cleanupLimiter runs the limiter's hourly cleanup once (found by method name so the
// harness does not depend on the concrete type's package-private API).
func (k *kit) cleanupLimiter() {
	if k.lb.rateLimiter == nil {
		return
	}
	v := reflect.ValueOf(k.lb.rateLimiter)
	_ = v
	if c, ok := k.lb.rateLimiter.(interface{ VerifCleanup() }); ok {
		c.VerifCleanup()
	}
}
