package loadbalancer

import (
	"crypto/rand"
	"fmt"
	"net/http"
	"net/http/httptest"
	"sync/atomic"
	"testing"

	"github.com/0xReLogic/Helios/internal/config"
	"github.com/0xReLogic/Helios/internal/logging"
	"github.com/0xReLogic/Helios/internal/zzverif/vh"
	"github.com/0xReLogic/Helios/internal/zzverif/vres"
	"github.com/0xReLogic/Helios/internal/zzverif/vrt"
)

// C16 (schedules): concurrent ID generation through the real middleware in front of the real
// balancer, entropy from an enumerating source that never repeats a block. All interleavings
// up to the bound, in a normal build (IDs pairwise distinct, backend value = client value)
// and in a -race build (shared scratch state in the generator is a data race on an explored
// schedule even when the cooperative scheduler cannot interleave inside it).

type atomicCounterReader struct{ n atomic.Uint64 }

func (c *atomicCounterReader) Read(p []byte) (int, error) {
	x := c.n.Add(1)
	for i := range p {
		p[i] = byte(x>>(8*uint(i%8))) ^ byte(i*29)
	}
	return len(p), nil
}

type c16sParams struct{ Threads, Each int }

func c16sScenario(p c16sParams, bound int) vh.SScenario {
	return vh.SScenario{Name: fmt.Sprintf("ids-concurrent-%dx%d", p.Threads, p.Each), KeyPrefix: "C16/conc", Bound: bound, Params: p, Body: func(x *vh.Exec) {
		s := x.S
		k := newKit(s, kitOpts{Strategy: "round_robin", N: 2})
		old := rand.Reader
		rand.Reader = &atomicCounterReader{}
		h := logging.RequestContextMiddleware(config.LoggingConfig{RequestID: config.RequestIDConfig{Enabled: true}, Trace: config.TraceConfig{Enabled: true}})(k.lb)
		ids := make([][]string, p.Threads)
		mismatch := ""
		x.Check = func(v vrt.Verdict) (string, string, string, bool) {
			rand.Reader = old
			if v.Kind != vrt.OK {
				return "", "", "", false
			}
			seen := map[string]bool{}
			n := 0
			for _, l := range ids {
				for _, id := range l {
					n++
					if seen[id] {
						return "dup", "C16/conc/duplicate-generated-id", fmt.Sprintf("identifier %q was generated twice among %d concurrent generations although the entropy source never repeats", id, n), true
					}
					seen[id] = true
				}
			}
			if mismatch != "" {
				return "mismatch", "C16/conc/backend-and-client-values-differ", mismatch, true
			}
			return fmt.Sprint(n), "", "", true
		}
		s.Branch(true)
		var ths []*vrt.Thread
		for t := 0; t < p.Threads; t++ {
			t := t
			ths = append(ths, s.Spawn(fmt.Sprintf("client%d", t), func() {
				for j := 0; j < p.Each; j++ {
					var seenReq, seenTrace string
					res := k.requestWith(fmt.Sprintf("10.0.0.%d", t+1), http.HandlerFunc(func(w http.ResponseWriter, r *http.Request) {
						seenReq, seenTrace = r.Header.Get("X-Request-ID"), r.Header.Get("X-Trace-ID")
						h.ServeHTTP(w, r)
					}), nil)
					_ = seenReq
					_ = seenTrace
					rid, tid := res.Header.Get("X-Request-ID"), res.Header.Get("X-Trace-ID")
					ids[t] = append(ids[t], rid, tid)
					if rid == "" || tid == "" {
						mismatch = "a response carries no generated ID"
					}
				}
			}))
		}
		s.Join(ths...)
		_ = httptest.NewRecorder
	}}
}

func TestVerifC16S(t *testing.T) {
	part := "S"
	if vrt.RaceBuild {
		part = "Race"
	}
	r := vres.Open("C16", part)
	defer func() {
		if err := r.Close(); err != nil {
			t.Fatal(err)
		}
	}()
	if vres.ReplayPath() != "" {
		var rp vh.SReplay
		var p c16sParams
		rp.Params = &p
		if err := vres.LoadReplay(&rp); err != nil {
			t.Fatal(err)
		}
		vh.ReplayS(c16sScenario(p, 0), rp.Choices)
		return
	}
	scs := []vh.SScenario{c16sScenario(c16sParams{2, 1}, 1), c16sScenario(c16sParams{2, 2}, 0)}
	if vres.Thorough() {
		scs = []vh.SScenario{c16sScenario(c16sParams{2, 2}, 1), c16sScenario(c16sParams{3, 1}, 1), c16sScenario(c16sParams{2, 1}, 2)}
	}
	for i, sc := range scs {
		if vh.MyShard(i) {
			vh.RunS(r, "TestVerifC16S", sc)
		}
	}
}
