module vgen

go 1.23
