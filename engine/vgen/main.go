// vgen generates a `go build -overlay` description that binds the verification
// machinery to the *current working tree* of the repository without touching it:
//
//   - mechanically rewritten copies of the non-test sources of the instrumented
//     packages (sync/atomic/time imports swapped for scheduler-aware shims, `go`
//     statements, receive-only selects and `for range ch` loops routed through the
//     controlled scheduler),
//   - the virtual shim packages under <module>/internal/zzverif/...,
//   - harness files injected into repository packages.
//
// Only the standard library is used.
package main

import (
	"bytes"
	"encoding/json"
	"flag"
	"fmt"
	"go/ast"
	"go/parser"
	"go/printer"
	"go/token"
	"os"
	"path/filepath"
	"sort"
	"strconv"
	"strings"
)

type overlay struct {
	Replace map[string]string
}

type report struct {
	Module      string   `json:"module"`
	Instrument  []string `json:"instrumented_packages"`
	Rewritten   []string `json:"rewritten_files"`
	GoStmts     int      `json:"go_statements_rewritten"`
	Selects     int      `json:"selects_rewritten"`
	RangeChans  int      `json:"range_loops_rewritten"`
	Unmodelled  []string `json:"unmodelled_constructs"`
	HarnessFile []string `json:"harness_files"`
}

func main() {
	repo := flag.String("repo", "/repo", "repository root")
	out := flag.String("out", "", "scratch output directory")
	shim := flag.String("shim", "", "directory with shim packages (vrt, vsync, ...)")
	harness := flag.String("harness", "", "directory with harness files laid out by repository package path")
	instr := flag.String("instrument", "", "comma separated repository-relative package dirs to rewrite")
	flag.Parse()
	if *out == "" || *shim == "" {
		fmt.Fprintln(os.Stderr, "vgen: -out and -shim are required")
		os.Exit(2)
	}
	mod, err := modulePath(filepath.Join(*repo, "go.mod"))
	if err != nil {
		fatal(err)
	}
	ov := overlay{Replace: map[string]string{}}
	rep := report{Module: mod}

	// 1. virtual shim packages
	err = filepath.Walk(*shim, func(p string, info os.FileInfo, err error) error {
		if err != nil {
			return err
		}
		if info.IsDir() || !strings.HasSuffix(p, ".go") {
			return nil
		}
		rel, _ := filepath.Rel(*shim, p)
		abs, _ := filepath.Abs(p)
		ov.Replace[filepath.Join(*repo, "internal", "zzverif", rel)] = abs
		return nil
	})
	if err != nil {
		fatal(err)
	}

	// 2. harness files
	if *harness != "" {
		err = filepath.Walk(*harness, func(p string, info os.FileInfo, err error) error {
			if err != nil {
				return err
			}
			if info.IsDir() || !strings.HasSuffix(p, ".go") {
				return nil
			}
			rel, _ := filepath.Rel(*harness, p)
			abs, _ := filepath.Abs(p)
			dst := filepath.Join(*repo, filepath.Dir(rel), "zz_verif_"+filepath.Base(rel))
			ov.Replace[dst] = abs
			rep.HarnessFile = append(rep.HarnessFile, rel)
			return nil
		})
		if err != nil {
			fatal(err)
		}
	}

	// 3. rewritten copies
	if *instr != "" {
		for _, pkg := range strings.Split(*instr, ",") {
			pkg = strings.TrimSpace(pkg)
			if pkg == "" {
				continue
			}
			rep.Instrument = append(rep.Instrument, pkg)
			dir := filepath.Join(*repo, pkg)
			ents, err := os.ReadDir(dir)
			if err != nil {
				fatal(err)
			}
			for _, e := range ents {
				n := e.Name()
				if e.IsDir() || !strings.HasSuffix(n, ".go") || strings.HasSuffix(n, "_test.go") {
					continue
				}
				src := filepath.Join(dir, n)
				dstDir := filepath.Join(*out, "rew", pkg)
				if err := os.MkdirAll(dstDir, 0o755); err != nil {
					fatal(err)
				}
				dst := filepath.Join(dstDir, n)
				changed, err := rewriteFile(src, dst, mod, &rep)
				if err != nil {
					fatal(fmt.Errorf("%s: %w", src, err))
				}
				if changed {
					ov.Replace[src] = dst
					rep.Rewritten = append(rep.Rewritten, filepath.Join(pkg, n))
				}
			}
		}
	}

	sort.Strings(rep.Unmodelled)
	if err := writeJSON(filepath.Join(*out, "overlay.json"), ov); err != nil {
		fatal(err)
	}
	if err := writeJSON(filepath.Join(*out, "vgen_report.json"), rep); err != nil {
		fatal(err)
	}
}

func fatal(err error) {
	fmt.Fprintln(os.Stderr, "vgen:", err)
	os.Exit(2)
}

func writeJSON(p string, v interface{}) error {
	b, err := json.MarshalIndent(v, "", " ")
	if err != nil {
		return err
	}
	return os.WriteFile(p, b, 0o644)
}

func modulePath(gomod string) (string, error) {
	b, err := os.ReadFile(gomod)
	if err != nil {
		return "", err
	}
	for _, l := range strings.Split(string(b), "\n") {
		l = strings.TrimSpace(l)
		if strings.HasPrefix(l, "module ") {
			return strings.TrimSpace(strings.TrimPrefix(l, "module ")), nil
		}
	}
	return "", fmt.Errorf("no module line in %s", gomod)
}

var shimFor = map[string]string{
	"sync":        "vsync",
	"sync/atomic": "vatomic",
	"time":        "vtime",
}

var defaultName = map[string]string{
	"sync":        "sync",
	"sync/atomic": "atomic",
	"time":        "time",
}

type rewriter struct {
	fset    *token.FileSet
	file    string
	rep     *report
	needVrt bool
	changed bool
	n       int
}

func rewriteFile(src, dst, mod string, rep *report) (bool, error) {
	fset := token.NewFileSet()
	f, err := parser.ParseFile(fset, src, nil, parser.ParseComments)
	if err != nil {
		return false, err
	}
	rw := &rewriter{fset: fset, file: src, rep: rep}

	// imports
	for _, im := range f.Imports {
		p, _ := strconv.Unquote(im.Path.Value)
		if s, ok := shimFor[p]; ok {
			if im.Name == nil {
				im.Name = ast.NewIdent(defaultName[p])
			}
			im.Path.Value = strconv.Quote(mod + "/internal/zzverif/" + s)
			rw.changed = true
		}
	}

	// statements
	for _, d := range f.Decls {
		if fd, ok := d.(*ast.FuncDecl); ok && fd.Body != nil {
			rw.block(fd.Body)
		}
		if gd, ok := d.(*ast.GenDecl); ok {
			// function literals in package-level var initialisers
			ast.Inspect(gd, func(n ast.Node) bool {
				if fl, ok := n.(*ast.FuncLit); ok {
					rw.block(fl.Body)
					return false
				}
				return true
			})
		}
	}

	if rw.needVrt {
		addImport(f, "zzvrt", mod+"/internal/zzverif/vrt")
		rw.changed = true
	}
	if !rw.changed {
		return false, nil
	}
	var buf bytes.Buffer
	cfg := printer.Config{Mode: printer.TabIndent | printer.UseSpaces, Tabwidth: 8}
	if err := cfg.Fprint(&buf, fset, f); err != nil {
		return false, err
	}
	return true, os.WriteFile(dst, buf.Bytes(), 0o644)
}

func addImport(f *ast.File, name, path string) {
	spec := &ast.ImportSpec{Name: ast.NewIdent(name), Path: &ast.BasicLit{Kind: token.STRING, Value: strconv.Quote(path)}}
	for _, d := range f.Decls {
		if gd, ok := d.(*ast.GenDecl); ok && gd.Tok == token.IMPORT {
			gd.Specs = append(gd.Specs, spec)
			if !gd.Lparen.IsValid() {
				gd.Lparen = gd.Pos()
				gd.Rparen = gd.End()
			}
			f.Imports = append(f.Imports, spec)
			return
		}
	}
	gd := &ast.GenDecl{Tok: token.IMPORT, Specs: []ast.Spec{spec}}
	f.Decls = append([]ast.Decl{gd}, f.Decls...)
	f.Imports = append(f.Imports, spec)
}

func (rw *rewriter) unmodelled(n ast.Node, what string) {
	pos := rw.fset.Position(n.Pos())
	rw.rep.Unmodelled = append(rw.rep.Unmodelled, fmt.Sprintf("%s:%d %s", pos.Filename, pos.Line, what))
}

// block rewrites the statements of a block in place (recursively).
func (rw *rewriter) block(b *ast.BlockStmt) {
	if b == nil {
		return
	}
	for i, s := range b.List {
		b.List[i] = rw.stmt(s)
	}
}

func (rw *rewriter) stmts(l []ast.Stmt) {
	for i, s := range l {
		l[i] = rw.stmt(s)
	}
}

func (rw *rewriter) stmt(s ast.Stmt) ast.Stmt {
	switch x := s.(type) {
	case *ast.BlockStmt:
		rw.block(x)
	case *ast.IfStmt:
		if x.Init != nil {
			x.Init = rw.stmt(x.Init)
		}
		rw.exprFuncs(x.Cond)
		rw.block(x.Body)
		if x.Else != nil {
			x.Else = rw.stmt(x.Else)
		}
	case *ast.ForStmt:
		if x.Init != nil {
			x.Init = rw.stmt(x.Init)
		}
		if x.Post != nil {
			x.Post = rw.stmt(x.Post)
		}
		rw.exprFuncs(x.Cond)
		rw.block(x.Body)
	case *ast.RangeStmt:
		rw.exprFuncs(x.X)
		rw.block(x.Body)
		if x.Key == nil && x.Value == nil {
			// `for range ch` — routed through the scheduler. If X is not a channel the
			// generic vrt.Recv fails to compile, loudly.
			rw.needVrt = true
			rw.rep.RangeChans++
			return &ast.ForStmt{
				For:  x.For,
				Cond: &ast.CallExpr{Fun: sel("zzvrt", "Recv"), Args: []ast.Expr{x.X}},
				Body: x.Body,
			}
		}
	case *ast.SwitchStmt:
		if x.Init != nil {
			x.Init = rw.stmt(x.Init)
		}
		rw.exprFuncs(x.Tag)
		rw.block(x.Body)
	case *ast.TypeSwitchStmt:
		rw.block(x.Body)
	case *ast.CaseClause:
		for _, e := range x.List {
			rw.exprFuncs(e)
		}
		rw.stmts(x.Body)
	case *ast.CommClause:
		rw.stmts(x.Body)
	case *ast.LabeledStmt:
		x.Stmt = rw.stmt(x.Stmt)
	case *ast.SelectStmt:
		return rw.selectStmt(x)
	case *ast.GoStmt:
		return rw.goStmt(x)
	case *ast.DeferStmt:
		rw.exprFuncs(x.Call)
	case *ast.ExprStmt:
		rw.exprFuncs(x.X)
		if u, ok := x.X.(*ast.UnaryExpr); ok && u.Op == token.ARROW {
			rw.unmodelled(x, "bare channel receive")
		}
	case *ast.AssignStmt:
		for _, e := range x.Rhs {
			rw.exprFuncs(e)
			if u, ok := e.(*ast.UnaryExpr); ok && u.Op == token.ARROW {
				rw.unmodelled(x, "channel receive in assignment")
			}
		}
	case *ast.ReturnStmt:
		for _, e := range x.Results {
			rw.exprFuncs(e)
		}
	case *ast.DeclStmt:
		ast.Inspect(x, func(n ast.Node) bool {
			if fl, ok := n.(*ast.FuncLit); ok {
				rw.block(fl.Body)
				return false
			}
			return true
		})
	case *ast.SendStmt:
		rw.unmodelled(x, "channel send")
	}
	return s
}

// exprFuncs descends into function literals that occur inside an expression.
func (rw *rewriter) exprFuncs(e ast.Expr) {
	if e == nil {
		return
	}
	ast.Inspect(e, func(n ast.Node) bool {
		if fl, ok := n.(*ast.FuncLit); ok {
			rw.block(fl.Body)
			return false
		}
		return true
	})
}

func sel(pkg, name string) ast.Expr {
	return &ast.SelectorExpr{X: ast.NewIdent(pkg), Sel: ast.NewIdent(name)}
}

// goStmt: `go f(a, b)` => { zzf := f; zza0 := a; zza1 := b; zzvrt.Go(func() { zzf(zza0, zza1) }) }
func (rw *rewriter) goStmt(g *ast.GoStmt) ast.Stmt {
	rw.needVrt = true
	rw.rep.GoStmts++
	rw.n++
	call := g.Call
	// rewrite nested constructs inside the spawned function literal first
	rw.exprFuncs(call.Fun)
	for _, a := range call.Args {
		rw.exprFuncs(a)
	}
	pfx := fmt.Sprintf("zzg%d", rw.n)
	var list []ast.Stmt
	fn := ast.NewIdent(pfx + "f")
	list = append(list, &ast.AssignStmt{Lhs: []ast.Expr{fn}, Tok: token.DEFINE, Rhs: []ast.Expr{call.Fun}})
	var args []ast.Expr
	for i, a := range call.Args {
		id := ast.NewIdent(fmt.Sprintf("%sa%d", pfx, i))
		list = append(list, &ast.AssignStmt{Lhs: []ast.Expr{id}, Tok: token.DEFINE, Rhs: []ast.Expr{a}})
		args = append(args, id)
	}
	inner := &ast.CallExpr{Fun: fn, Args: args}
	if call.Ellipsis.IsValid() {
		inner.Ellipsis = 1
	}
	lit := &ast.FuncLit{
		Type: &ast.FuncType{Params: &ast.FieldList{}},
		Body: &ast.BlockStmt{List: []ast.Stmt{&ast.ExprStmt{X: inner}}},
	}
	list = append(list, &ast.ExprStmt{X: &ast.CallExpr{Fun: sel("zzvrt", "Go"), Args: []ast.Expr{lit}}})
	return &ast.BlockStmt{Lbrace: g.Go, List: list}
}

// selectStmt: receive-only select (optionally with default) => switch zzvrt.Select(hasDefault, chans...)
func (rw *rewriter) selectStmt(s *ast.SelectStmt) ast.Stmt {
	var chans []ast.Expr
	hasDefault := false
	ok := true
	for _, c := range s.Body.List {
		cc := c.(*ast.CommClause)
		if cc.Comm == nil {
			hasDefault = true
			continue
		}
		es, isExpr := cc.Comm.(*ast.ExprStmt)
		if !isExpr {
			ok = false
			break
		}
		u, isRecv := es.X.(*ast.UnaryExpr)
		if !isRecv || u.Op != token.ARROW {
			ok = false
			break
		}
		chans = append(chans, u.X)
	}
	if !ok {
		rw.unmodelled(s, "select with send or value-receiving case")
		rw.block(s.Body)
		return s
	}
	rw.needVrt = true
	rw.rep.Selects++
	args := []ast.Expr{ast.NewIdent(strconv.FormatBool(hasDefault))}
	args = append(args, chans...)
	sw := &ast.SwitchStmt{
		Switch: s.Select,
		Tag:    &ast.CallExpr{Fun: sel("zzvrt", "Select"), Args: args},
		Body:   &ast.BlockStmt{Lbrace: s.Body.Lbrace, Rbrace: s.Body.Rbrace},
	}
	idx := 0
	for _, c := range s.Body.List {
		cc := c.(*ast.CommClause)
		rw.stmts(cc.Body)
		clause := &ast.CaseClause{Case: cc.Case, Colon: cc.Colon, Body: cc.Body}
		if cc.Comm != nil {
			clause.List = []ast.Expr{&ast.BasicLit{Kind: token.INT, Value: strconv.Itoa(idx)}}
			idx++
		}
		sw.Body.List = append(sw.Body.List, clause)
	}
	return sw
}
