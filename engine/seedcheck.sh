#!/bin/bash
# usage: engine/seedcheck.sh <seed-dir e.g. /tmp/seed-C09> <name> <property> [more properties...]
# Independently confirms a seeded change (suite passes with it, demo fails with it and passes
# without it) in a fresh scratch worktree, then runs the named checks against it.
set -u
SRC="$1"; NAME="$2"; shift 2
export GOFLAGS=-mod=mod GOPROXY=off GOSUMDB=off GOTOOLCHAIN=local
W=$(mktemp -d /tmp/verif-seed-XXXXXX)
UT=$(mktemp /tmp/verif-seed-ut-XXXXXX)
EV=$(mktemp -d /tmp/verif-seed-ev-XXXXXX)
git -C /repo worktree add -q --detach "$W" HEAD
cleanup() { git -C /repo worktree remove --force "$W" 2>/dev/null; rm -rf "$UT" "$EV"; }
trap cleanup EXIT
cat "$SRC/.seed/demo_cmd.txt" | head -20
echo "---- files in .seed:"; ls "$SRC/.seed"
# place demo files where the agent had them (relative paths of untracked files in its worktree)
(cd "$SRC" && git status --porcelain | grep '^??' | awk '{print $2}' | grep -v '^.seed' ) > "$UT"
while read -r f; do mkdir -p "$W/$(dirname "$f")"; cp -r "$SRC/$f" "$W/$f"; done < "$UT"
# demo files kept only under .seed/: place them where demo_cmd.txt / README.txt say
for f in "$SRC"/.seed/*.go; do
  [ -f "$f" ] || continue
  b=$(basename "$f")
  if ! grep -q "$b" "$UT"; then
    tgt=$(cat "$SRC/.seed/demo_cmd.txt" "$SRC/.seed/README.txt" 2>/dev/null | grep -o "[A-Za-z0-9_./-]*/$b" | grep -v "^\.seed" | grep -v "/\.seed/" | sed "s#^$SRC/##; s#^/tmp/seed-[A-Z0-9]*/##" | grep -v "^/" | head -1)
    if [ -n "$tgt" ]; then mkdir -p "$W/$(dirname "$tgt")"; cp "$f" "$W/$tgt"; echo "$tgt" >> "$UT"; fi
  fi
done
echo "---- demo files: $(cat "$UT" | tr '\n' ' ')"
DEMO=$(grep -o "go test[^'\"]*\(-run [^ ]* \)\?.*" "$SRC/.seed/demo_cmd.txt" | head -1 | sed 's/ *;.*$//; s/ *&&.*$//')
echo "---- demo command: $DEMO"
echo "==== original code: demo must pass"
(cd "$W" && eval "$DEMO" 2>&1 | tail -3)
git -C "$W" apply "$SRC/.seed/patch.diff" || { echo "PATCH DOES NOT APPLY"; exit 1; }
echo "==== with change: suite must pass (demo files excluded by -run filter not possible; run full)"
(cd "$W" && go build ./... && go test -count=1 ./... 2>&1 | grep -v "no test files" | grep -v "^ok" | head -20)
echo "==== with change: demo must fail"
(cd "$W" && eval "$DEMO" 2>&1 | tail -4)
echo "==== checks"
for p in "$@"; do
  VERIF_REPO="$W" VERIF_EVIDENCE_DIR="$EV" VERIF_REPLAY_DIR="$EV" /verif/vcheck "$p" 2>&1 | grep -v "^  " | cut -c1-300 | tail -6
  echo "rc($p)=${PIPESTATUS[0]}"
done
rm -rf "$EV"
