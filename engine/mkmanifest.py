#!/usr/bin/env python3
"""Regenerates /verif/MANIFEST.json from engine/checks.py (single source of truth)."""
import json, os, sys
HERE = os.path.dirname(os.path.abspath(__file__))
sys.path.insert(0, HERE)
from checks import CHECKS, NOT_APPLICABLE, ENGINES

props = [json.loads(l)["id"] for l in open(os.path.join(HERE, "..", "properties.jsonl"))]
checks = []
for pid in props:
    if pid not in CHECKS or not CHECKS[pid].get("claimed", True):
        continue
    c = CHECKS[pid]
    checks.append(dict(
        property_id=pid,
        quick_cmd="./vcheck %s --tier quick" % pid,
        thorough_cmd="./vcheck %s --tier thorough" % pid,
        evidence_file="/verif/evidence/%s.json" % pid,
        replay_cmd_template="./vcheck %s --replay {path}" % pid,
        engine=c.get("engine", "S+H"),
        level_claimed=dict(category=c["level"], text=c["text"], design_ref=c.get("design_ref", "DESIGN.md section 2, " + pid)),
        level_note=c["note"],
        technique=c["technique"],
    ))
na = [dict(property_id=p, reason=NOT_APPLICABLE.get(p, "check not built yet in this session (see DESIGN.md section 2 for the planned exploration)"))
      for p in props if p not in [c["property_id"] for c in checks]]
m = dict(
    version=1,
    setup_cmd="./setup.sh",
    hooks=dict(
        guard="verif",
        enable="no source hooks are committed to /repo: every check builds /repo's working tree through a generated `go test -overlay` "
               "(vgen: rewritten copies of sync/atomic/time users + virtual packages internal/zzverif/... + injected in-package harness tests); see DESIGN.md 1.1",
        baseline_off_cmd="cd /repo && GOFLAGS=-mod=mod go test -json -vet=off -count=1 -timeout 25m ./...",
        source_commits=[],
        add_only=True,
    ),
    engines=ENGINES,
    checks=checks,
    notes="Genuine defects found and repaired are listed in KNOWN_FINDINGS.txt (fixed:) with their 'fix:' commits in /repo; see DESIGN.md section 8.",
    not_applicable=na,
)
json.dump(m, open(os.path.join(HERE, "..", "MANIFEST.json"), "w"), indent=1)
print("claimed:", [c["property_id"] for c in checks])
print("not claimed:", [n["property_id"] for n in na])
