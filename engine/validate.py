#!/usr/bin/env python3-vt
import json, jsonschema, sys, glob
jsonschema.validate(json.load(open('/verif/MANIFEST.json')), json.load(open('/root/.vp/MANIFEST.schema.json')))
sch = json.load(open('/root/.vp/EVIDENCE.schema.json'))
for f in sorted(glob.glob('/verif/evidence/*.json')):
    jsonschema.validate(json.load(open(f)), sch)
    print('ok', f)
print('manifest valid')
