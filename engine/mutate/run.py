#!/usr/bin/env python3
"""Mechanical mutation sweep (DESIGN.md section 9.3). For every mutant of the given Helios source
files that compiles and passes the repository's own test suite, runs the quick checks of the
properties anchored in that file and records which one (if any) reports a violation.

  engine/mutate/run.py --out mutation/results.jsonl internal/plugins/sizelimit.go ...

Not a registered check; it measures the checks. Works in a scratch worktree under /tmp."""
import argparse, json, os, subprocess, sys, time, collections

ROOT = os.path.dirname(os.path.dirname(os.path.dirname(os.path.abspath(__file__))))
ENV = dict(os.environ, GOFLAGS="-mod=mod", GOPROXY="off", GOSUMDB="off", GOTOOLCHAIN="local")
EXTRA = {  # properties exercised by a file beyond the anchors of properties.jsonl
    "internal/plugins/sizelimit.go": ["C14", "C17", "C16", "C01"],
    "internal/plugins/compression.go": ["C15", "C17", "C01"],
    "internal/plugins/headers.go": ["C17", "C01"],
    "internal/plugins/logging.go": ["C17", "C20", "C01"],
    "internal/plugins/registry.go": ["C17"],
    "internal/plugins/example_authentication.go": ["C17", "C16"],
    "internal/logging/middleware.go": ["C16", "C01"],
    "internal/utils/http.go": ["C09", "C06", "C10"],
    "internal/config/config.go": ["C18"],
    "internal/logging/logger.go": ["C18", "C16"],
    "internal/metrics/metrics.go": ["C13", "C12"],
    "internal/adminapi/server.go": ["C10", "C11", "C13"],
    "internal/proxy/proxy.go": ["C01", "C03"],
    # cheapest and broadest first: a mutant is dropped at the first check that reports it
    "internal/loadbalancer/loadbalancer.go": ["C02", "C04", "C13", "C11", "C05", "C07", "C08", "C09", "C01", "C20", "C06", "C03", "C19", "C12"],
    "internal/loadbalancer/websocket_pool.go": ["C20", "C19", "C12"],
    "internal/loadbalancer/round_robin.go": ["C05", "C02", "C11"],
    "internal/loadbalancer/weighted_round_robin.go": ["C05", "C02", "C12"],
    "internal/loadbalancer/least_connections.go": ["C05", "C02"],
    "internal/loadbalancer/ip_hash.go": ["C06", "C02", "C12"],
    "internal/loadbalancer/ip_hash_consistent.go": ["C06", "C02", "C12"],
    "internal/circuitbreaker/circuitbreaker.go": ["C07", "C08", "C03", "C12"],
    "internal/ratelimiter/ratelimiter.go": ["C09", "C12"],
    "cmd/helios/server.go": ["C01", "C16", "C17", "C19", "C10", "C03"],
    "cmd/helios/main.go": ["C19", "C18"],
}
DROP = {"internal/plugins/sizelimit.go": ["C18", "C20"], "internal/plugins/compression.go": ["C18", "C20"]}

def props_of(f):
    anchors = collections.defaultdict(list)
    for l in open(ROOT + "/properties.jsonl"):
        p = json.loads(l)
        for a in p["anchors"]["files"]:
            anchors[a].append(p["id"])
    out = list(EXTRA.get(f, []))
    for p in anchors.get(f, []):
        if p not in out and p not in DROP.get(f, []):
            out.append(p)
    return out

def sh(cmd, cwd, timeout, env=ENV):
    try:
        r = subprocess.run(cmd, cwd=cwd, env=env, stdout=subprocess.PIPE, stderr=subprocess.STDOUT, timeout=timeout, text=True)
        return r.returncode, r.stdout
    except subprocess.TimeoutExpired as e:
        return 124, (e.stdout or b"").decode(errors="replace") if isinstance(e.stdout, bytes) else (e.stdout or "")

def main():
    ap = argparse.ArgumentParser()
    ap.add_argument("--out", required=True)
    ap.add_argument("--repo", default="/repo")
    ap.add_argument("--only-props", default="")
    ap.add_argument("--ids", default="", help="comma separated mutant ids (default: all)")
    ap.add_argument("files", nargs="+")
    a = ap.parse_args()
    done = set()
    if os.path.exists(a.out):
        for l in open(a.out):
            r = json.loads(l); done.add((r["file"], r["id"]))
    wt = "/tmp/mut-wt-%d" % os.getpid(); ev = "/tmp/mut-ev-%d" % os.getpid()
    subprocess.run(["git", "-C", a.repo, "worktree", "add", "-q", "--detach", wt, "HEAD"], check=True)
    head = subprocess.run(["git", "-C", a.repo, "rev-parse", "--short", "HEAD"], stdout=subprocess.PIPE, text=True).stdout.strip()
    try:
        for f in a.files:
            props = a.only_props.split(",") if a.only_props else props_of(f)
            src = os.path.join(a.repo, f)
            lst = subprocess.run([ROOT + "/bin/mutate", "-file", src, "-list"], stdout=subprocess.PIPE, text=True, check=True).stdout.strip().split("\n")
            for row in lst:
                mid, line, desc = row.split("\t"); mid = int(mid)
                if (f, mid) in done or (a.ids and str(mid) not in a.ids.split(",")):
                    continue
                t0 = time.time()
                rec = dict(file=f, id=mid, line=int(line), desc=desc, base=head, props=props)
                subprocess.run([ROOT + "/bin/mutate", "-file", src, "-id", str(mid), "-o", os.path.join(wt, f)], check=True)
                rc, out = sh(["go", "build", "./..."], wt, 300)
                if rc != 0:
                    rec["status"] = "does-not-compile"
                else:
                    rc, out = sh(["go", "vet", "./" + os.path.dirname(f)], wt, 300)
                    rc, out = sh(["go", "test", "-count=1", "./..."], wt, 300)
                    if rc != 0:
                        rec["status"] = "killed-by-suite"
                    else:
                        rec["status"] = "survived"; rec["errors"] = []
                        env = dict(ENV, VERIF_REPO=wt, VERIF_EVIDENCE_DIR=ev, VERIF_REPLAY_DIR=ev)
                        for p in props:
                            rc, out = sh([ROOT + "/vcheck", p], ROOT, 1500, env)
                            if rc == 1:
                                rec["status"] = "killed-by-check"; rec["by"] = p
                                keys = [l for l in out.split("\n") if l.startswith("VIOLATION")]
                                rec["n_violations"] = len(keys)
                                break
                            if rc != 0:
                                rec["errors"].append(p)
                subprocess.run(["git", "-C", wt, "checkout", "-q", "--", "."], check=True)
                rec["secs"] = round(time.time() - t0, 1)
                with open(a.out, "a") as fh:
                    fh.write(json.dumps(rec) + "\n")
                print(f, mid, line, desc, "=>", rec["status"], rec.get("by", ""), rec.get("errors", ""), rec["secs"], flush=True)
    finally:
        subprocess.run(["git", "-C", a.repo, "worktree", "remove", "--force", wt])
        subprocess.run(["rm", "-rf", ev])

main()
