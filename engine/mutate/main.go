// mutate enumerates and applies small mechanical mutations of one Go source file.
// It is used by engine/mutate/run.py to measure which lines of Helios no check is sensitive to
// (DESIGN.md section 9.3); it is not part of any registered check.
//
//	mutate -file f.go -list            prints "<id>\t<line>\t<description>" per mutant
//	mutate -file f.go -id k -o out.go  writes mutant k
package main

import (
	"bytes"
	"flag"
	"fmt"
	"go/ast"
	"go/parser"
	"go/printer"
	"go/token"
	"os"
	"strconv"
)

type site struct {
	line  int
	desc  string
	apply func()
}

var swap = map[token.Token]token.Token{
	token.LSS: token.LEQ, token.LEQ: token.LSS, token.GTR: token.GEQ, token.GEQ: token.GTR,
	token.EQL: token.NEQ, token.NEQ: token.EQL, token.LAND: token.LOR, token.LOR: token.LAND,
	token.ADD: token.SUB, token.SUB: token.ADD,
}

func endsEarly(b *ast.BlockStmt) bool {
	if len(b.List) == 0 {
		return false
	}
	switch s := b.List[len(b.List)-1].(type) {
	case *ast.ReturnStmt:
		return true
	case *ast.BranchStmt:
		return s.Tok == token.CONTINUE || s.Tok == token.BREAK
	}
	return false
}

func collect(fset *token.FileSet, f *ast.File) []site {
	var sites []site
	ln := func(p token.Pos) int { return fset.Position(p).Line }
	delFrom := func(list *[]ast.Stmt, i int, what string) {
		st := (*list)[i]
		sites = append(sites, site{ln(st.Pos()), what, func() { (*list)[i] = &ast.EmptyStmt{Semicolon: st.Pos(), Implicit: false} }})
	}
	var stmts func(list *[]ast.Stmt)
	stmts = func(list *[]ast.Stmt) {
		for i, st := range *list {
			switch s := st.(type) {
			case *ast.ExprStmt:
				delFrom(list, i, "delete call statement")
			case *ast.AssignStmt:
				if s.Tok != token.DEFINE {
					delFrom(list, i, "delete assignment")
				}
			case *ast.IncDecStmt:
				delFrom(list, i, "delete ++/--")
			case *ast.DeferStmt:
				delFrom(list, i, "delete defer")
			case *ast.IfStmt:
				if s.Else == nil && s.Init == nil && endsEarly(s.Body) {
					delFrom(list, i, "delete guard (if ... { return/continue/break })")
				}
			}
		}
	}
	ast.Inspect(f, func(n ast.Node) bool {
		switch x := n.(type) {
		case *ast.GenDecl:
			if x.Tok == token.CONST || x.Tok == token.IMPORT {
				return false // defaults and imports are not mutated
			}
		case *ast.BlockStmt:
			stmts(&x.List)
		case *ast.CaseClause:
			stmts(&x.Body)
		case *ast.CommClause:
			stmts(&x.Body)
		case *ast.BinaryExpr:
			if to, ok := swap[x.Op]; ok {
				from := x.Op
				if from == token.ADD {
					if bl, ok := x.X.(*ast.BasicLit); ok && bl.Kind == token.STRING {
						return true
					}
					if bl, ok := x.Y.(*ast.BasicLit); ok && bl.Kind == token.STRING {
						return true
					}
				}
				sites = append(sites, site{ln(x.OpPos), fmt.Sprintf("%s -> %s", from, to), func() { x.Op = to }})
			}
		case *ast.IfStmt:
			c := x.Cond
			sites = append(sites, site{ln(x.Pos()), "negate if condition", func() { x.Cond = &ast.UnaryExpr{Op: token.NOT, X: &ast.ParenExpr{X: c}} }})
		case *ast.BasicLit:
			if x.Kind == token.INT {
				if v, err := strconv.ParseInt(x.Value, 0, 64); err == nil {
					old := x.Value
					sites = append(sites, site{ln(x.Pos()), fmt.Sprintf("%s -> %d", old, v+1), func() { x.Value = strconv.FormatInt(v+1, 10) }})
					if v > 0 {
						sites = append(sites, site{ln(x.Pos()), fmt.Sprintf("%s -> %d", old, v-1), func() { x.Value = strconv.FormatInt(v-1, 10) }})
					}
				}
			}
		case *ast.ReturnStmt:
			for i, r := range x.Results {
				if id, ok := r.(*ast.Ident); ok && (id.Name == "true" || id.Name == "false") {
					i, id := i, id
					to := map[string]string{"true": "false", "false": "true"}[id.Name]
					sites = append(sites, site{ln(id.Pos()), fmt.Sprintf("return %s -> %s", id.Name, to), func() { x.Results[i] = ast.NewIdent(to) }})
				}
			}
		}
		return true
	})
	return sites
}

func main() {
	file := flag.String("file", "", "source file")
	list := flag.Bool("list", false, "list mutants")
	id := flag.Int("id", -1, "mutant to apply")
	out := flag.String("o", "", "output file")
	flag.Parse()
	fset := token.NewFileSet()
	f, err := parser.ParseFile(fset, *file, nil, parser.ParseComments)
	if err != nil {
		fmt.Fprintln(os.Stderr, err)
		os.Exit(2)
	}
	sites := collect(fset, f)
	if *list {
		for i, s := range sites {
			fmt.Printf("%d\t%d\t%s\n", i, s.line, s.desc)
		}
		return
	}
	if *id < 0 || *id >= len(sites) {
		fmt.Fprintln(os.Stderr, "no such mutant")
		os.Exit(2)
	}
	sites[*id].apply()
	var buf bytes.Buffer
	if err := printer.Fprint(&buf, fset, f); err != nil {
		fmt.Fprintln(os.Stderr, err)
		os.Exit(2)
	}
	if err := os.WriteFile(*out, buf.Bytes(), 0o644); err != nil {
		fmt.Fprintln(os.Stderr, err)
		os.Exit(2)
	}
}
