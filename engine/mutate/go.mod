module verif/mutate

go 1.23
