#!/bin/sh
# Detection demonstration 1: every repaired defect, re-introduced by reverting its fix commit on
# a scratch worktree, must make the check of its property fail (exit 1).
# Detection demonstration 2: every kept seeded change under seeded/<id>/ must be caught by the
# checks listed in its meta.json.
cd "$(dirname "$0")"
fail=0
[ "$1" = "--seeded-only" ] || grep '^fixed:' KNOWN_FINDINGS.txt | while read -r _ prop commit rest; do
  p=${prop#property=}
  # a repair whose symptom a later, independent repair also removes is reverted together with it
  case $commit in 191c3b8) commit=191c3b8,c3a7f52 ;; c39f38b) commit=f70a095,c39f38b ;; esac
  out=$(engine/at_commit.sh HEAD "revert:$commit" -- "$p" 2>&1); rc=$?
  case $rc in
    1) echo "DETECTED   $p revert $commit" ;;
    3) echo "SKIPPED    $p revert $commit (later fixes touch the same lines)" ;;
    2) if echo "$out" | grep -q "failed against the current tree"; then echo "SKIPPED    $p revert $commit (the tree no longer builds without it: later fixes depend on it)"; else echo "ERROR      $p revert $commit (rc=2)"; echo "$out" | tail -3; fi ;;
    *) echo "MISSED     $p revert $commit (rc=$rc)"; echo "$out" | tail -3 ;;
  esac
done
for d in seeded/*/; do
  [ -f "$d/meta.json" ] || continue
  id=$(basename "$d")
  for p in $(python3 -c "import json,sys; print(' '.join(json.load(open('$d/meta.json'))['caught_by']))"); do
    out=$(engine/at_commit.sh HEAD "$d/patch.diff" -- "$p" 2>&1); rc=$?
    if [ $rc -eq 1 ]; then echo "DETECTED   seeded/$id by $p"; else echo "MISSED     seeded/$id by $p (rc=$rc)"; fi
  done
done
